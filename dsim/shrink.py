"""Scenario minimiser: keep the same violation class (oracle id, site) while dropping operations, shortening the
history and simplifying arguments. Deterministic (no randomness)."""
import copy
import time


def _has(prop, scenario, key):
    try:
        from . import bootstrap

        bootstrap.reset_process_state(scenario)
        sim = prop.execute(scenario)
    except Exception:
        return False
    return any((v["oracle"], v["site"]) == key for v in sim.violations)


def truncate_world(scenario, n_new):
    """Generic tail truncation: every list of length world['n'] inside the world is cut to n_new minutes."""
    sc = copy.deepcopy(scenario)
    w = sc["world"]
    n = int(w["n"])
    if n_new >= n or n_new < 1:
        return None

    def cut(o):
        if isinstance(o, dict):
            return {k: cut(v) for k, v in o.items()}
        if isinstance(o, list):
            # a minute series: n scalars (or per-minute dicts); not a list of markets, and not a list of book levels /
            # pairs that merely happens to have n entries
            if len(o) == n and not (o and isinstance(o[0], dict) and "kind" in o[0]) and not any(isinstance(x, list) for x in o):
                return [cut(x) for x in o[:n_new]]
            return [cut(x) for x in o]
        return o

    sc["world"] = cut(w)
    sc["world"]["n"] = n_new
    return sc


def minimise(prop, scenario, key, max_execs=400, max_s=90):
    t0 = time.time()
    execs = [0]

    def ok(sc):
        if sc is None or execs[0] >= max_execs or time.time() - t0 > max_s:
            return False
        execs[0] += 1
        return _has(prop, sc, key)

    cur = copy.deepcopy(scenario)
    changed = True
    while changed and execs[0] < max_execs and time.time() - t0 < max_s:
        changed = False
        # 1. ddmin over the program
        prog = cur.get("program", [])
        chunk = max(1, len(prog) // 2)
        while chunk >= 1 and prog:
            i = 0
            removed_any = False
            while i < len(prog):
                cand = copy.deepcopy(cur)
                cand["program"] = prog[:i] + prog[i + chunk :]
                if ok(cand):
                    cur = cand
                    prog = cur["program"]
                    removed_any = changed = True
                else:
                    i += chunk
            if chunk == 1 and not removed_any:
                break
            chunk = max(1, chunk // 2) if chunk > 1 else (1 if removed_any else 0)
            if chunk == 0:
                break
        # 2. shorten the history (tail), by halving then by one
        if isinstance(cur.get("world"), dict) and "n" in cur["world"] and not getattr(prop, "NO_TRUNCATE", False):
            n = int(cur["world"]["n"])
            step = max(1, n // 2)
            while step >= 1:
                cand = truncate_world(cur, int(cur["world"]["n"]) - step)
                if cand is not None:
                    nb = int(cand["world"]["n"])
                    if hasattr(prop, "after_truncate"):
                        cand = prop.after_truncate(cand)
                if cand is not None and ok(cand):
                    cur = cand
                    changed = True
                else:
                    step //= 2
        # 3. property-specific simplifications
        if hasattr(prop, "shrink_candidates"):
            progress = True
            while progress and execs[0] < max_execs:
                progress = False
                for cand in prop.shrink_candidates(cur):
                    if ok(cand):
                        cur = cand
                        changed = progress = True
                        break
    cur["minimised"] = {"executions": execs[0], "ops_before": len(scenario.get("program", [])), "ops_after": len(cur.get("program", []))}
    return cur
