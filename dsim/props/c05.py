"""C05 - each bar runs once, in order, with a fixed phase order; action records and the account history align with bars.

History check over the totally ordered call trace of one real Actuator.run(): per-instance wrappers around every
market's set_market_status/update, the strategy hooks, trigger when/do callbacks and notify.
"""
from decimal import Decimal

import pandas as pd

from ..sim import Sim, Oracle, ScriptedStrategy, op
from ..canon import canon, D
from ..worlds import uni as U
from .. import rng as R
from .. import donors as DN

from demeter.strategy.trigger import CustomizedTrigger, AtTimeTrigger

ID = "C05"
ORDER = ["initialize", "before_bar", "trigger", "on_bar", "after_bar", "notify"]

# how many action records an *accepted* operation must produce (None = not pinned here)
EXPECTED_RECORDS = {
    "uni.add_by_tick": lambda a, res: 1,
    "uni.add": lambda a, res: 1,
    "uni.collect": lambda a, res: 1,
    "uni.remove": lambda a, res: 2 if a.get("collect", True) else 1,
    "uni.sell": lambda a, res: None if res is not None and res[1] == 0 else 1,
    "uni.buy": lambda a, res: None if res is not None and res[2] == 0 else 1,
    "uni.swap": lambda a, res: 1,
}


class TracedStrategy(ScriptedStrategy):
    """ScriptedStrategy + extra real triggers whose evaluation order is logged."""

    def initialize(self):
        sim = self.sim
        opts = sim.scenario.get("opts", {})
        # triggers that expire during the run, registered in between the logged ones: when the loop retires one of them,
        # the evaluation of its neighbours in that bar must not suffer
        expiring = {}
        for e in opts.get("expiring_triggers", []):
            expiring.setdefault(int(e["pos"]), []).append(pd.Timestamp(e["time"]).to_pydatetime())
        n_extra = int(opts.get("extra_triggers", 0))

        def add_expiring(pos):
            for t in expiring.get(pos, []):
                self.triggers.append(AtTimeTrigger(t, lambda s: sim.event("trig_expiring_do", s.row_id)))

        for k in range(n_extra):
            add_expiring(k)
            fire_mod = 1 + (k % 3)

            def when(s, _k=k, _m=fire_mod):
                sim.event("trig_when", _k, s.row_id)
                return s.row_id % _m == 0

            def do(s, _k=k):
                sim.event("trig_do", _k, s.row_id)

            self.triggers.append(CustomizedTrigger(when, do))
        add_expiring(n_extra)
        super().initialize()


@op("strat.rebind_hook")
def _rebind_hook(sim, market, a):
    """The strategy switches behaviour by assigning a new callable to one of its own hooks (the state-machine idiom
    `self.on_bar = self._on_bar_invested`): from the next call on the loop must reach the new one."""
    hook = a["hook"]

    def call():
        st = sim.strategy
        gens = getattr(sim, "_hook_gen", None)
        if gens is None:
            gens = sim._hook_gen = {}
        gens[hook] = g = gens.get(hook, 0) + 1
        base = getattr(type(st), hook)

        def hooked(arg, _g=g, _h=hook):
            sim.event("hook_gen", _h, _g)
            return base(st, arg)

        setattr(st, hook, hooked)
        sim.event("rebind", hook, g)
        return g

    return call


def _add_save(rx, opts, faults):
    if rx.random() < 0.1:
        opts["save_result"] = rx.choice(["csv", "csv", "csv_rounded", "pickle"])
        faults.append({"kind": "result_saved_then_read_again"})
    elif rx.random() < 0.07:
        opts["run_again"] = True
        faults.append({"kind": "second_run_on_the_same_actuator"})


def _add_rebinds(rx, program, nb, faults):
    """in 8% of the runs the strategy re-assigns one or two of its hooks while the loop is running"""
    if nb < 2 or rx.random() >= 0.08:
        return
    for _ in range(rx.choice([1, 1, 2])):
        bar = rx.randint(0, nb - 1)
        program.append({"bar": bar, "phase": rx.choice(["before_bar", "on_bar", "after_bar", "trigger"]), "op": "strat.rebind_hook", "m": None,
                        "a": {"hook": rx.choice(["before_bar", "on_bar", "on_bar", "after_bar", "notify"])}})
    program.sort(key=lambda o: (o["bar"], ORDER.index(o["phase"])))
    faults.append({"kind": "strategy_hook_reassigned_mid_run"})


# --------------------------------------------------------------------------------------------------- generation
def gen_prices(rw, names, n):
    out = {}
    for nm in names:
        p = 1.0 if nm in ("USDC", "USDT", "DAI") else rw.choice([0.5, 30, 1800, 27000])
        xs = []
        for _ in range(n):
            p *= 1 + rw.uniform(-0.004, 0.004) * (0.05 if nm in ("USDC", "USDT", "DAI") else 1)
            xs.append(format(Decimal(repr(round(p, 8))), "f"))
        out[nm] = xs
    return out


def generate(seed: int, tier: str = "quick") -> dict:
    rv = R.sub(seed, "flavour")
    if rv.random() < 0.5:
        return gen_donor(seed, tier, DN.pick(rv))
    rw, rp = R.sub(seed, "world"), R.sub(seed, "program")
    interval = rw.choice(["1min"] * 4 + ["2min", "5min", "15min", "1h"])
    if R.sub(seed, "odd_interval").random() < 0.07:
        interval = R.sub(seed, "odd_interval_pick").choice(["90s", "150s", "3min", "7min"])  # not a whole number of minutes / not a divisor of the hour
    k = max(1, int(pd.Timedelta(interval) / pd.Timedelta("1min")))
    nbars = rw.choice([1, 2, 3, 5, 8, 13, 25, 45, 70] if tier == "quick" else [1, 2, 3, 5, 8, 13, 25, 60, 200, 400])
    if k >= 15:
        nbars = min(nbars, 8 if tier == "quick" else 20)
    off = rw.choice([0, 0, 1, k // 2, k - 1]) if k > 1 else rw.choice([0, 7, 59])
    tail = rw.choice([0, 0, 1, k - 1]) if k > 1 else 0  # ragged last bin
    n = max(1, nbars * k - off % k + tail) if k > 1 else nbars
    start = pd.Timestamp("2023-08-13 00:00:00") + pd.Timedelta(minutes=off + 60 * rw.randint(0, 30))
    nm = rw.choice([1, 1, 2])
    pools = [(("USDC", 6), ("WETH", 18), "USDC"), (("WBTC", 8), ("USDC", 6), "USDC"), (("DAI", 18), ("WETH", 18), "WETH")]
    rw.shuffle(pools)
    markets, tokens = [], {}
    for j in range(nm):
        t0, t1, q = pools[j]
        mw = U.gen_uni_market(rw, f"uni{j}", n, t0, t1, q)
        mw["currentLiquidity"] = [x if int(x) > 0 else "1000000000000" for x in mw["currentLiquidity"]]
        markets.append(mw)
        tokens[t0[0]] = t0[1]
        tokens[t1[0]] = t1[1]
    world = {
        "start": str(start), "n": n, "interval": interval, "tokens": tokens,
        "assets": {t: "100000" for t in tokens}, "quote": "USD", "prices": gen_prices(rw, sorted(tokens), n), "markets": markets,
    }
    # number of bars the loop will make (own resampling)
    labels = grid_labels(start, n, interval)
    nb = len(labels)
    program = []
    nops = rp.choice([0, 1, 3, 6, 12, 25])
    for _ in range(nops):
        mw = rp.choice(markets)
        bar = rp.randint(-1, nb - 1)
        phase = "initialize" if bar == -1 else rp.choice(["before_bar", "trigger", "on_bar", "on_bar", "after_bar", "notify"])
        i = min(n - 1, max(0, bar) * k)
        o = U.random_uni_op(rp, mw, mw["closeTick"][i], hostile=0.2)
        o.update({"bar": bar, "phase": phase})
        program.append(o)
    program.sort(key=lambda o: (o["bar"], ORDER.index(o["phase"])))
    opts = {"extra_triggers": rp.choice([0, 0, 1, 2, 3]), "trigger_phase": rp.random() < 0.5}
    faults = []
    _add_expiring(R.sub(seed, "expiring"), opts, labels, faults)
    _add_rebinds(R.sub(seed, "rebind"), program, nb, faults)
    _add_save(R.sub(seed, "save_result"), opts, faults)
    if any(o["phase"] == "trigger" for o in program):
        opts["trigger_phase"] = True
    if interval == "1min" and R.sub(seed, "second_actuator").random() < 0.12:
        opts["second_actuator"] = True
        faults.append({"kind": "market_objects_reused_by_a_second_actuator"})
    elif interval == "1min" and nb >= 2 and R.sub(seed, "reordered").random() < 0.06:
        opts["reordered_rows"] = True
        faults.append({"kind": "frames_not_in_chronological_order"})
    return {"property": ID, "seed": seed, "world": world, "program": program, "faults": faults, "opts": opts}


def _add_expiring(rx, opts, times, faults):
    """0-3 AtTimeTriggers that fire (and are retired by the loop) on some bar, placed before / between / after the logged triggers"""
    if (opts["extra_triggers"] or opts["trigger_phase"]) and rx.random() < 0.4 and len(times) >= 2:
        opts["expiring_triggers"] = [
            {"pos": rx.randint(0, opts["extra_triggers"]), "time": str(times[rx.randrange(len(times))])} for _ in range(rx.choice([1, 1, 2, 3]))
        ]
        faults.append({"kind": "trigger_retired_mid_list"})


def gen_donor(seed, tier, donor):
    """world and program of another market family: aave (liquidations recorded by update), squeeth + pool, deribit
    alone (hourly bars) or beside a minutely uniswap market (expiries recorded by update), gmx v1/v2"""
    base = DN.base_scenario(donor, seed, tier)
    rp = R.sub(seed, "program")
    prog = base["program"]
    nb = len(DN.bar_times(base["world"]))
    # a few of the donor's operations are moved into notify (they run when something is notified in that bar)
    for o in prog:
        if o["bar"] >= 0 and rp.random() < 0.08:
            o["phase"] = "notify"
    prog.sort(key=lambda o: (o["bar"], ORDER.index(o["phase"])))
    opts = {"extra_triggers": rp.choice([0, 0, 1, 2, 3]), "trigger_phase": rp.random() < 0.5}
    faults = [{"kind": "donor:" + donor}]
    _add_expiring(R.sub(seed, "expiring"), opts, DN.bar_times(base["world"]), faults)
    _add_rebinds(R.sub(seed, "rebind"), prog, nb, faults)
    _add_save(R.sub(seed, "save_result"), opts, faults)
    if any(o["phase"] == "trigger" for o in prog):
        opts["trigger_phase"] = True
    # an option market with many listed instruments: its (time, instrument) frame then has more ROWS than the minutely
    # co-market has minutes, although it has far fewer distinct timestamps (real order-book files list hundreds)
    w = base["world"]
    kinds = {m["kind"] for m in w["markets"]}
    if "deribit" in kinds and len(kinds) > 1 and rp.random() < 0.45:
        for mw in w["markets"]:
            if mw["kind"] == "deribit" and len(mw["hours"]) * len(mw["instruments"]) <= int(w["n"]) < 400:
                _inflate_instruments(mw, int(w["n"]) // max(1, len(mw["hours"])) + 3)
                faults.append({"kind": "hourly_frame_longer_than_minute_frame"})
    return {"property": ID, "seed": seed, "world": w, "program": prog, "faults": faults, "opts": opts, "donor": donor}


def _inflate_instruments(mw, per_hour):
    """list `per_hour` instruments in every hour by cloning the first one under further strikes (never traded)"""
    from ..worlds import deribit as W

    nm0 = sorted(mw["instruments"])[0]
    ins0 = mw["instruments"][nm0]
    j = 0
    while len(mw["instruments"]) < per_hour:
        j += 1
        strike = int(ins0["strike"]) + 100000 + j
        nm = W.instrument_name(mw["token"], pd.Timestamp(ins0["expiry"]), strike, ins0["type"])
        if nm in mw["instruments"]:
            continue
        mw["instruments"][nm] = dict(ins0, strike=strike)
        for h in mw["hours"]:
            if nm0 in h["rows"]:
                h["rows"][nm] = dict(h["rows"][nm0])


def _interval_seconds(iv) -> int:
    if isinstance(iv, int):
        return iv * 60
    return int(pd.Timedelta(iv if iv[0].isdigit() else "1" + iv).total_seconds())


def bin_label(ts, iv, origin=None):
    """left edge of the bin of width iv (a frequency string, or whole minutes) that holds ts; bins are counted from the
    midnight before the first timestamp of the data (what a resampled time index means: for a width that divides the day
    that is every midnight, for 7 minutes it is not)"""
    ks = _interval_seconds(iv)
    origin = ts.normalize() if origin is None else origin
    secs = int((ts - origin).total_seconds())
    return origin + pd.Timedelta(seconds=(secs // ks) * ks)


def grid_labels(start, n, iv):
    labs = []
    origin = pd.Timestamp(start).normalize()
    for i in range(n):
        lab = bin_label(start + pd.Timedelta(minutes=i), iv, origin)
        if not labs or labs[-1] != lab:
            labs.append(lab)
    return labs


# --------------------------------------------------------------------------------------------------- oracle
class LoopOracle(Oracle):
    def finish(self, sim):
        w = sim.world
        k = DN.interval_minutes(w)
        start = pd.Timestamp(w["start"])
        donor = sim.scenario.get("donor")
        labels = DN.bar_times(w) if donor else grid_labels(start, int(w["n"]), w.get("interval", "1min"))
        if not donor and _interval_seconds(w.get("interval", "1min")) % 60:
            sim.count("probe:interval_not_a_whole_number_of_minutes")
        names = [m["name"] for m in w["markets"]]
        sim.count("probe:world:" + (donor or "uni"))
        kinds = sorted({m["kind"] for m in w["markets"]})
        if "deribit" in kinds and len(kinds) > 1:
            sim.count("probe:minutely_and_hourly_markets_together")
        if sim.crash is not None:
            sim.violate("c05.crash", type(sim.crash).__name__ + "@" + "/".join(sim.crash_where[-1:]), msg=str(sim.crash)[:200])
            return
        ev = sim.events
        # ---- a hook the strategy re-assigned on itself: every later call of that hook reaches the callable assigned last
        cur_gen = {}
        for j, e in enumerate(ev):
            if e[1] == "rebind":
                cur_gen[e[2]] = e[3]
                sim.count("fault:strategy_hook_reassigned_mid_run")
            hook = e[2] if e[1] == "phase" and e[2] in ("before_bar", "on_bar", "after_bar") else ("notify" if e[1] == "notify" else None)
            if hook and cur_gen.get(hook):
                prev = ev[j - 1] if j else None
                if not (prev and prev[1] == "hook_gen" and prev[2] == hook and prev[3] == cur_gen[hook]):
                    sim.violate("c05.phase_order", f"stale_hook:{hook}", event=e[:4], assigned_generation=cur_gen[hook],
                                reached=(prev[3] if prev and prev[1] == "hook_gen" and prev[2] == hook else 0))
                    break
        # ---- split the trace into prologue and bars at each before_bar event
        bars, cur, prologue = [], None, []
        for e in ev:
            if e[1] == "phase" and e[2] == "before_bar":
                cur = []
                bars.append(cur)
            (cur if cur is not None else prologue).append(e)
        if len(bars) != len(labels):
            sim.violate("c05.bar_count", "run", got=len(bars), want=len(labels))
            return
        sim.count("probe:resampled_run" if k > 1 else "probe:minute_run")
        # prologue: initial refresh of every market at t0, then initialize
        if labels:
            t0 = canon(labels[0])
            seen = [e[2] for e in prologue if e[1] == "set_status" and e[3] == t0]
            if sorted(set(seen)) != sorted(names):
                sim.violate("c05.initial_refresh", "prologue", got=seen, want=names)
        n_actions_total = len(sim.actuator.actions)
        notified = {}
        action_bar = {}  # action index -> bar in which it was recorded (by position in the trace)
        recorded_so_far = 0
        # actions recorded during initialize belong to bar 0's notification
        init_new = sum(x["new_actions"] for (o, x) in sim.done_ops() if o["bar"] == -1)
        for i in range(init_new):
            action_bar[i] = 0
        recorded_so_far = init_new
        op_iter = {x["i"]: (o, x) for (o, x) in sim.done_ops()}
        for b, (trace, lab) in enumerate(zip(bars, labels)):
            ts = canon(lab)
            first = trace[0]
            if first[3] != b or first[4] != ts:
                sim.violate("c05.bar_order", "before_bar", bar=b, got=[first[3], first[4]], want=[b, ts])
                return
            # the first refresh of *this* bar precedes before_bar: look back in the previous segment
            prev = bars[b - 1] if b > 0 else prologue
            if b == 0:
                pre = [e for e in prologue if e[1] == "set_status"]
                # prologue holds the initial refresh and bar 0's first refresh: every market must appear twice
                cnt = {nme: sum(1 for e in pre if e[2] == nme and e[3] == ts) for nme in names}
                if any(c < 2 for c in cnt.values()):
                    sim.violate("c05.first_refresh", "bar0", bar=0, got=cnt)
            else:
                # events of the previous bar after its last notify/after_bar that are set_status for ts
                tail = [e for e in prev if e[1] == "set_status" and e[3] == ts]
                cnt = {nme: sum(1 for e in tail if e[2] == nme) for nme in names}
                if any(c < 1 for c in cnt.values()):
                    sim.violate("c05.first_refresh", "bar", bar=b, got=cnt)
                # and they must come after the previous bar's after_bar
                idx_after = max((j for j, e in enumerate(prev) if e[1] == "phase" and e[2] == "after_bar"), default=-1)
                for j, e in enumerate(prev):
                    if e[1] == "set_status" and e[3] == ts and j < idx_after:
                        sim.violate("c05.first_refresh", "before_previous_after_bar", bar=b)
            # ---- regular-language match of the bar body
            stage = 0  # 0 before_bar, 1 triggers, 2 on_bar, 3 second refresh, 4 update, 5 after_bar, 6 notify, 7 next bar's refresh
            updated, trig_seq = [], []
            ok = True
            for e in trace[1:]:
                kind = e[1]
                if kind in ("op", "VIOLATION"):
                    continue
                if kind in ("trig_when", "trig_do") or (kind == "phase" and e[2] == "trigger"):
                    if stage > 1:
                        ok = self._bad(sim, b, "trigger_after_on_bar", e)
                    stage = 1
                    trig_seq.append((kind, e[2]))
                elif kind == "phase" and e[2] == "on_bar":
                    if stage > 1:
                        ok = self._bad(sim, b, "on_bar_out_of_order", e)
                    stage = 2
                elif kind == "set_status":
                    if e[3] == ts:
                        if stage != 2 and stage != 3:
                            ok = self._bad(sim, b, "refresh_out_of_order", e)
                        stage = 3
                        sim.count("probe:second_refresh_taken")
                    else:  # next bar's first refresh
                        if stage < 5:
                            ok = self._bad(sim, b, "next_bar_refresh_before_after_bar", e)
                        stage = 7
                elif kind == "update":
                    if stage < 2 or stage > 4:
                        ok = self._bad(sim, b, "update_out_of_order", e)
                    stage = 4
                    updated.append(e[2])
                elif kind == "update_actions":
                    sim.count("probe:action_from_update")
                elif kind == "phase" and e[2] == "after_bar":
                    if stage != 4 and not (stage in (2, 3) and not names):
                        ok = self._bad(sim, b, "after_bar_before_update", e)
                    stage = 5
                elif kind == "notify":
                    if stage < 5 or stage == 7:
                        ok = self._bad(sim, b, "notify_out_of_order", e)
                    stage = 6
                    aidx = e[4]
                    notified.setdefault(aidx, []).append(b)
                elif kind == "phase" and e[2] == "finalize":
                    if b != len(bars) - 1:
                        ok = self._bad(sim, b, "finalize_early", e)
                if not ok:
                    return
            if stage < 5:
                sim.violate("c05.phase_order", "bar_incomplete", bar=b, stage=stage)
                return
            if sorted(updated) != sorted(names):
                sim.violate("c05.update_once", "bar", bar=b, got=updated, want=names)
                return
            # trigger evaluations in list order: when(k) ascending, do(k) right after its when(k)
            ks = [x[1] for x in trig_seq if x[0] == "trig_when"]
            if ks != sorted(ks) or len(set(ks)) != len(ks):
                sim.violate("c05.trigger_order", "when_order", bar=b, got=ks)
            want_k = int(sim.scenario.get("opts", {}).get("extra_triggers", 0))
            if len(ks) != want_k:
                sim.violate("c05.trigger_order", "when_count", bar=b, got=len(ks), want=want_k)
            for j, x in enumerate(trig_seq):
                if x[0] == "trig_do" and (j == 0 or trig_seq[j - 1] != ("trig_when", x[1])):
                    sim.violate("c05.trigger_order", "do_without_when", bar=b)
            # ---- actions recorded in this bar (ops of this bar, in execution order)
            nact = 0
            for e in trace:
                if e[1] == "update_actions":
                    nact += e[3]
                if e[1] == "op":
                    o, x = op_iter[e[2]]
                    nact += x["new_actions"]
                    if x["status"] == "ok" and o["op"] in EXPECTED_RECORDS:
                        res = _raw_result(sim, x)
                        want = EXPECTED_RECORDS[o["op"]](o.get("a", {}), res)
                        if want is not None and x["new_actions"] != want:
                            sim.violate("c05.record_count", o["op"], bar=b, got=x["new_actions"], want=want)
                    if x["status"] == "rejected" and x["new_actions"] and o["op"] not in ("uni.remove_all", "uni.add_by_value", "uni.even_rebalance", "uni.remove"):
                        sim.count("probe:rejected_op_left_record")
            for i2 in range(recorded_so_far, recorded_so_far + nact):
                action_bar[i2] = b
            recorded_so_far += nact
            sim.count("probe:bar_actions_" + ("0" if nact == 0 else "1" if nact == 1 else "many"))
            sim.state(("bar", min(nact, 2), k > 1, len(names), stage, donor or "uni"))
        # ---- every record: stamped with its bar, notified exactly once in that bar, in recording order
        if recorded_so_far != n_actions_total:
            sim.violate("c05.records_unaccounted", "run", traced=recorded_so_far, total=n_actions_total)
            return
        for i2, a in enumerate(sim.actuator.actions):
            b = action_bar[i2]
            want_ts = labels[b].to_pydatetime()
            if a.timestamp != want_ts:
                sim.violate("c05.action_stamp", type(a).__name__, index=i2, got=a.timestamp, want=want_ts, bar=b)
            got = notified.get(i2, [])
            if got != [b]:
                sim.violate("c05.notify_exactly_once", type(a).__name__, index=i2, notified_in_bars=got, recorded_in_bar=b)
        order = [e[4] for e in ev if e[1] == "notify"]
        if order != sorted(order):
            sim.violate("c05.notify_order", "run", got=order[:20])
        if any(o["phase"] == "after_bar" and x["new_actions"] for o, x in sim.done_ops()):
            sim.count("probe:action_from_after_bar")
        if any(o["phase"] == "notify" and x["new_actions"] for o, x in sim.done_ops()):
            sim.count("probe:action_from_notify")
        # ---- account history: one row per bar, that bar's timestamp and prices
        st = sim.actuator.account_status
        if [pd.Timestamp(s.timestamp) for s in st] != labels:
            sim.violate("c05.account_rows", "list", got=len(st), want=len(labels))
        df = sim.actuator.account_status_df
        if list(df.index) != labels:
            sim.violate("c05.account_rows", "dataframe_index", got=[str(x) for x in df.index[:5]], want=[str(x) for x in labels[:5]])
            return
        # my own resampling of my own price frame: first value of each bin
        mins = [start + pd.Timedelta(minutes=i) for i in range(int(w["n"]))]
        first_of = {}
        for i, tsx in enumerate(mins):
            lab = bin_label(tsx, k) if donor else bin_label(tsx, w.get("interval", "1min"), start.normalize())
            first_of.setdefault(lab, i)
        for tok, series in (w.get("prices") or {}).items():
            col = ("price", tok)
            if col not in df.columns:
                sim.violate("c05.price_columns", "missing", token=tok)
                continue
            for lab in labels:
                want = D(series[first_of[lab]])
                got = df.loc[lab, col]
                if Decimal(got) != want:
                    sim.violate("c05.price_columns", "value", token=tok, bar=str(lab), got=got, want=want)
                    return

    def _bad(self, sim, b, what, e):
        sim.violate("c05.phase_order", what, bar=b, event=e[:4])
        return False


def _raw_result(sim, outcome):
    return outcome.get("result")


def _history_digest(sim):
    from ..canon import digest

    df = sim.actuator.account_status_df
    return digest([canon(df), [str(x) for x in df.index], [str(type(x).__name__) for x in df.index[:3]], [str(c) for c in df.columns],
                   [[type(a).__name__, canon(a.timestamp)] for a in sim.actuator.actions]])


def _save_and_look_again(sim, how):
    """The user saves the finished run (Actuator.save_result into a private directory) and goes on working with the live
    result: account history and action records are what they were before the save."""
    import os
    import shutil
    import tempfile

    from ..sim import private_cwd

    before = _history_digest(sim)
    d = tempfile.mkdtemp(prefix="saved-", dir=private_cwd())
    try:
        kw = {"file_format": "pickle"} if how == "pickle" else ({"decimals": 3} if how == "csv_rounded" else {})
        try:
            sim.actuator.save_result(d, file_name="run", **kw)
        except Exception as e:  # the writer's own failure is not this property's subject
            sim.count("probe:save_result_raised:" + type(e).__name__)
            return
        sim.count("fault:result_saved_then_read_again:" + how)
        after = _history_digest(sim)
        if after != before:
            df = sim.actuator.account_status_df
            sim.violate("c05.account_rows", "changed_by_save_result:" + how, index_head=[str(x) for x in df.index[:3]],
                        index_type=type(df.index).__name__)
    finally:
        shutil.rmtree(d, ignore_errors=True)


def _run_again_on_the_same_actuator(sim):
    """The user trades once outside any run (after run() returned) and calls run() again on the SAME actuator: what the
    second run delivers to notify() are the records of the second run - every notified action is in that run's action list."""
    from decimal import Decimal as _D

    n0 = len(sim.events)
    for m in sim.markets.values():  # one small accepted-or-refused operation between the runs, on the first pool there is
        if type(m).__name__ == "UniLpMarket":
            try:
                m.sell(_D("0.0001"))
            except Exception:
                pass
            break
    try:
        sim.actuator.run(print_result=False)
    except Exception as e:  # what a second run() may refuse is not this check's subject
        sim.count("probe:second_run_raised:" + type(e).__name__)
        return
    sim.count("fault:second_run_on_the_same_actuator")
    stale = [e for e in sim.events[n0:] if e[1] == "notify" and e[4] == -1]
    if stale:
        sim.violate("c05.notify_exactly_once", "second_run:record_from_outside_the_run_notified", n=len(stale), first=stale[0][:4])


def execute(scenario):
    if scenario.get("donor"):
        DN.prepare(scenario["donor"])
    prebuilt = None
    if scenario.get("opts", {}).get("reordered_rows"):
        # the supplied market frames in an order of the caller's making (day files joined newest first): the run still
        # visits the bars in increasing order of time
        s0 = Sim(scenario, Oracle())  # built, not run: only to obtain frames in the loaders' format
        prebuilt = {}
        for name, df in s0.fed.items():
            if name != "__prices__" and len(df) >= 2:
                h = max(1, len(df) // 2)
                prebuilt[name] = pd.concat([df.iloc[h:], df.iloc[:h]])
    sim = Sim(scenario, LoopOracle(), trace=True, strategy_cls=TracedStrategy, prebuilt=prebuilt).run()
    if prebuilt:
        sim.count("fault:frames_not_in_chronological_order")
    if scenario.get("opts", {}).get("save_result") and sim.crash is None:
        _save_and_look_again(sim, scenario["opts"]["save_result"])
    if scenario.get("opts", {}).get("run_again") and sim.crash is None and not sim.violations:
        _run_again_on_the_same_actuator(sim)
    if scenario.get("opts", {}).get("second_actuator") and sim.crash is None and not sim.violations:
        # the same market objects attached to a second, fresh Actuator (a notebook that builds a new back test around the
        # markets it already has): that run's records, notifications and rows are that run's
        sim2 = Sim(scenario, LoopOracle(), trace=True, strategy_cls=TracedStrategy, reuse=sim).run()
        sim.count("fault:market_objects_reused_by_a_second_actuator")
        sim.event("second_actuator", sim2.log_digest())
        for v in sim2.violations:
            sim.violate(v["oracle"], v["site"] + ":second_actuator", **dict(v["detail"]))
        sim.states |= sim2.states
    return sim


def abstract(scenario, sim):
    return sim.states


def nontrivial(state):
    return state[1] > 0 or state[2]


RULE = (
    "one run = one real Actuator.run() over a generated world (1-2 markets, interval 1min..1h, start on/off the "
    "coarse grid, ragged last bin, 1-200 bars) with a scripted program acting from every phase incl. triggers, "
    "after_bar and notify; the whole call trace is matched against the reference bar loop. distinct_nontrivial counts "
    "distinct (actions in bar 0/1/many, resampled?, market count, last stage reached) bar classes with actions or resampling"
)
BUDGET = {"quick": {"runs": 2500, "wall": 90}, "thorough": {"runs": 100000, "wall": 1500}}
LEVEL = "exploration"
ASSUMPTIONS = [
    "which markets take the optional second refresh is not part of the match (C08/C15 check what it must achieve)",
    "actions recorded during initialize are stamped with the first bar and notified at the end of bar 0",
    "expected index = own resampling of the minute grid (bins aligned to midnight); price columns = first value of each bin",
]
LEVEL_TEXT = (
    "seeded exploration + history check: the totally ordered trace of strategy hooks, trigger callbacks, per-market "
    "refresh/update calls, operations and notifications of each run is matched against a reference bar loop; action "
    "stamps, exactly-once notification and the account-history index/prices are checked afterwards. Sampling, not proof."
)
LEVEL_NOTE = "trusted: per-instance wrappers around market methods (harness side), own resampling rule, EXPECTED_RECORDS table for uniswap ops"
