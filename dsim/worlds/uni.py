"""Uniswap v3 world: raw minute frames in the loader's output format, the real post-processing, the real market,
plus the operation vocabulary of UniLpMarket."""
import math
from decimal import Decimal

import numpy as np
import pandas as pd

from ..sim import market_builder, op, amount, HarnessError, AMOUNT_RESOLVERS
from ..canon import D
from . import helpers as LH  # registers the op lib.read_helpers

from demeter import MarketInfo, TokenInfo
from demeter.broker import MarketTypeEnum
from demeter.uniswap import UniLpMarket, UniV3Pool, PositionInfo
from demeter.uniswap.data import fillna
from demeter.uniswap.helper import _add_statistic_column

FEES = (0.01, 0.05, 0.3, 1)


def spacing_of(fee) -> int:
    return int(Decimal(str(fee)) * 200)


SERIES = ("netAmount0", "netAmount1", "closeTick", "openTick", "lowestTick", "highestTick", "inAmount0", "inAmount1", "currentLiquidity")


def raw_frame(mw, index) -> pd.DataFrame:
    """Frame exactly as load_uni_v3_data builds it before fillna: float ticks (NaN allowed), Decimal amounts."""
    n = len(index)

    def col(name, conv, default=None):
        v = mw.get(name)
        if v is None:
            v = [default] * n
        return [None if x is None else conv(x) for x in v]

    ticks = col("closeTick", float)
    df = pd.DataFrame(
        {
            "netAmount0": col("netAmount0", D, "0"),
            "netAmount1": col("netAmount1", D, "0"),
            "closeTick": pd.Series(ticks, dtype="float64").values,
            "openTick": pd.Series(col("openTick", float) if mw.get("openTick") else ticks, dtype="float64").values,
            "lowestTick": pd.Series(col("lowestTick", float) if mw.get("lowestTick") else ticks, dtype="float64").values,
            "highestTick": pd.Series(col("highestTick", float) if mw.get("highestTick") else ticks, dtype="float64").values,
            "inAmount0": col("inAmount0", D, "0"),
            "inAmount1": col("inAmount1", D, "0"),
            "currentLiquidity": col("currentLiquidity", D, "0"),
        },
        index=index,
    )
    return df


def pool_of(sim, mw) -> UniV3Pool:
    t0 = sim.token(mw["token0"])
    t1 = sim.token(mw["token1"])
    q = sim.token(mw["quote"])
    if mw.get("token_style") == "addressed_pool_plain_quote":
        # the pool's tokens carry contract addresses (as when they are shared with a lending market), the quote token is
        # named by a separate TokenInfo without one (tokens are identified by their symbol)
        t0 = TokenInfo(t0.name, t0.decimal, "0x%040x" % (0xA0 + len(t0.name)))
        t1 = TokenInfo(t1.name, t1.decimal, "0x%040x" % (0xB0 + len(t1.name)))
        q = TokenInfo(q.name.lower(), q.decimal)
    return UniV3Pool(t0, t1, mw["fee"], q)


@market_builder("uni")
def build_uni(sim, mw):
    pool = pool_of(sim, mw)
    key = MarketInfo(mw["name"], MarketTypeEnum.uniswap_v3)
    market = UniLpMarket(key, pool)
    pre = mw.get("pre")  # rows of history before the run (list of per-minute dicts): the supplied frame is then a slice of a
    index, src = sim.index, mw  # longer loaded one, i.e. its derived columns (price = previous close) come from outside the slice
    if pre:
        index = pd.date_range(end=sim.index[0] - pd.Timedelta("1min"), periods=len(pre), freq="1min").append(sim.index)
        src = dict(mw)
        for name in SERIES:
            if mw.get(name) is not None:
                src[name] = [r.get(name, mw[name][0]) for r in pre] + list(mw[name])
    df = raw_frame(src, index)
    df = fillna(df)  # real post-processing
    if pd.isna(df.iloc[0]["closeTick"]):
        df = df.bfill()
    _add_statistic_column(df, pool)  # real: price = previous close
    if pre:
        df = df.loc[sim.index[0]:]
    # volume0 / volume1 are informational columns derived from the in-amounts when the frame was completed; a frame whose
    # in-amounts were edited afterwards (a what-if volume scenario), or that never had them, is as legal as any other:
    # what a bar's volume IS are the in-amounts
    if mw.get("derived_columns") == "stale":
        df["volume0"] = df["volume0"].map(lambda x: x * 3)
        df["volume1"] = df["volume1"].map(lambda x: x / 2)
    elif mw.get("derived_columns") == "absent":
        df = df.drop(columns=["volume0", "volume1"])
    market.data = df
    sim.mdata[mw["name"]] = {"pool": pool, "mw": mw}
    return market


# ------------------------------------------------------------------------------------------------- arg helpers
def pos_of(market, spec, sim=None):
    """{"i": k} -> k-th existing position (sorted), {"lo":..,"hi":..} literal, {"created": k} -> k-th position
    ever created in this market by an add op (creation order is orientation independent, used by C09)."""
    if spec is None:
        raise HarnessError("position spec missing")
    if "lo" in spec:
        return PositionInfo(int(spec["lo"]), int(spec["hi"]))
    if "created" in spec:
        lst = getattr(sim, "created", {}).get(market.market_info.name, []) if sim is not None else []
        if not lst:
            return PositionInfo(int(spec.get("lo0", 0)), int(spec.get("hi0", 600)))
        return lst[int(spec["created"]) % len(lst)]
    keys = sorted(market.positions.keys())
    if not keys:
        return PositionInfo(int(spec.get("lo0", 0)), int(spec.get("hi0", 60)))  # unknown position -> rejection recipe
    return keys[int(spec["i"]) % len(keys)]


def _pos_liq(sim, what, spec):
    mname, _, idx = what.partition("#")
    m = sim.markets[mname]
    keys = sorted(m.positions.keys())
    if not keys:
        return Decimal(0)
    return Decimal(m.positions[keys[int(idx) % len(keys)]].liquidity)


AMOUNT_RESOLVERS["liq"] = _pos_liq


def _res(t):
    return list(t) if isinstance(t, tuple) else t


def _added(sim, m, r):
    """remember positions in creation order"""
    if not hasattr(sim, "created"):
        sim.created = {}
    lst = sim.created.setdefault(m.market_info.name, [])
    if r[0] not in lst:
        lst.append(r[0])
    return _res(r)


# ------------------------------------------------------------------------------------------------- operations
@op("uni.add_by_tick")
def _add_by_tick(sim, m, a):
    base = amount(sim, a.get("base"))
    quote = amount(sim, a.get("quote"))
    kw = {}
    if "sqrt" in a:
        kw["sqrt_price_x96"] = int(a["sqrt"])
    if "tick" in a:
        kw["tick"] = int(a["tick"])
    if "sqrt_tick" in a:  # explicit sqrt price, named by the tick it belongs to (so that a mirrored twin can name its own)
        from demeter.uniswap.liquitidy_math import get_sqrt_ratio_at_tick

        kw["sqrt_price_x96"] = get_sqrt_ratio_at_tick(int(a["sqrt_tick"]))
    if "trim" in a:
        kw["trim_tick"] = bool(a["trim"])
    lo, hi = int(a["lo"]), int(a["hi"])
    return lambda: _added(sim, m, m.add_liquidity_by_tick(lo, hi, base, quote, **kw))


@op("uni.add")
def _add(sim, m, a):
    base = amount(sim, a.get("base"))
    quote = amount(sim, a.get("quote"))
    lp, up = D(a["lower_price"]), D(a["upper_price"])
    return lambda: _added(sim, m, m.add_liquidity(lp, up, quote, base))


@op("uni.remove")
def _remove(sim, m, a):
    p = pos_of(m, a.get("pos"), sim)
    liq = a.get("liq")
    if liq is not None:
        liq = int(amount(sim, liq))
    kw = {}
    if "collect" in a:
        kw["collect"] = bool(a["collect"])
    if "remove_dry" in a:
        kw["remove_dry_pool"] = bool(a["remove_dry"])
    if "sqrt" in a:
        kw["sqrt_price_x96"] = int(a["sqrt"])
    return lambda: _res(m.remove_liquidity(p, liq, **kw))


@op("uni.collect")
def _collect(sim, m, a):
    p = pos_of(m, a.get("pos"), sim)
    kw = {}
    if a.get("max0") is not None:
        kw["max_collect_amount0"] = amount(sim, a["max0"])
    if a.get("max1") is not None:
        kw["max_collect_amount1"] = amount(sim, a["max1"])
    if "remove_dry" in a:
        kw["remove_dry_pool"] = bool(a["remove_dry"])
    if "to_user" in a:
        kw["collect_to_user"] = bool(a["to_user"])
    return lambda: _res(m.collect_fee(p, **kw))


@op("uni.buy")
def _buy(sim, m, a):
    amt = amount(sim, a.get("amount"))
    price = amount(sim, a.get("price"))
    return lambda: _res(m.buy(amt, price))


@op("uni.sell")
def _sell(sim, m, a):
    amt = amount(sim, a.get("amount"))
    price = amount(sim, a.get("price"))
    return lambda: _res(m.sell(amt, price))


@op("uni.swap")
def _swap(sim, m, a):
    amt = amount(sim, a.get("amount"))
    ft, tt = sim.token(a["from"]), sim.token(a["to"])
    price = amount(sim, a.get("price"))
    return lambda: _res(m.swap(amt, ft, tt, price))


@op("uni.add_by_value")
def _add_by_value(sim, m, a):
    val = amount(sim, a.get("value"))
    kw = {}
    if "trim" in a:
        kw["trim_tick"] = bool(a["trim"])
    lo, hi = int(a["lo"]), int(a["hi"])
    return lambda: _added(sim, m, m.add_liquidity_by_value(lo, hi, val, **kw))


@op("uni.even_rebalance")
def _even(sim, m, a):
    price = amount(sim, a.get("price"))
    return lambda: m.even_rebalance(price)


@op("uni.remove_all")
def _remove_all(sim, m, a):
    return lambda: m.remove_all_liquidity()


@op("uni.transfer_out")
def _tout(sim, m, a):
    p = pos_of(m, a.get("pos"), sim)
    return lambda: m.transfer_position_out(p)


@op("uni.transfer_in")
def _tin(sim, m, a):
    p = pos_of(m, a.get("pos"), sim)
    return lambda: m.transfer_position_in(p)


@op("uni.read_balance")
def _read_balance(sim, m, a):
    return lambda: m.get_market_balance()


@op("uni.read_position_status")
def _read_pos(sim, m, a):
    p = pos_of(m, a.get("pos"), sim)
    return lambda: m.get_position_status(p)


@op("uni.estimate_amount")
def _est_amount(sim, m, a):
    v = amount(sim, a.get("value"))
    lo, hi = int(a["lo"]), int(a["hi"])
    return lambda: _res(m.estimate_amount(v, lo, hi))


@op("uni.estimate_liquidity")
def _est_liq(sim, m, a):
    v = amount(sim, a.get("value"))
    p = pos_of(m, a.get("pos"), sim)
    return lambda: _res(m.estimate_liquidity(v, p))


# ------------------------------------------------------------------------------------------------- generation
DECIMAL_CHOICES = (6, 8, 18)


def tick_for_price(p_base_in_quote: float, d0: int, d1: int, token0_is_quote: bool) -> int:
    price = 1 / p_base_in_quote if token0_is_quote else p_base_in_quote
    atomic = price / 10 ** (d0 - d1)
    return int(round(math.log(atomic, 1.0001)))


def gen_tick_path(rng, n, t0, spacing, style=None):
    """Random walk with stationary stretches, small moves and jumps. Returns list[int]."""
    style = style or rng.choice(["calm", "mixed", "jumpy", "mixed"])
    ticks = [t0]
    for _ in range(n - 1):
        r = rng.random()
        if style == "calm":
            step = 0 if r < 0.3 else rng.randint(-8, 8)
        elif style == "jumpy":
            step = rng.randint(-40 * spacing, 40 * spacing) if r < 0.5 else rng.randint(-30, 30)
        else:
            if r < 0.2:
                step = 0
            elif r < 0.8:
                step = rng.randint(-3 * spacing - 5, 3 * spacing + 5)
            else:
                step = rng.randint(-30 * spacing, 30 * spacing)
        ticks.append(ticks[-1] + step)
    return ticks


def gen_uni_market(rng, name, n, tok0, tok1, quote, fee=None, base_price=None, decs=None):
    """Generate a uni market world dict; tok0/tok1 are (name, decimals)."""
    fee = fee if fee is not None else rng.choice(FEES)
    sp = spacing_of(fee)
    d0, d1 = tok0[1], tok1[1]
    t0q = quote == tok0[0]
    base_price = base_price if base_price is not None else math.exp(rng.uniform(math.log(0.05), math.log(5000)))
    t_start = tick_for_price(base_price, d0, d1, t0q)
    ticks = gen_tick_path(rng, n, t_start, sp)
    liq_mag = rng.choice([10, 14, 16, 18, 21])
    liqs, in0, in1 = [], [], []
    for i in range(n):
        r = rng.random()
        liqs.append(str(0 if r < 0.03 else int(rng.uniform(0.2, 5) * 10**liq_mag)))
        in0.append(str(0 if rng.random() < 0.1 else int(rng.uniform(0, 500) * 10**d0)))
        in1.append(str(0 if rng.random() < 0.1 else int(rng.uniform(0, 500) * 10**d1)))
    return {
        "kind": "uni",
        "name": name,
        "token0": tok0[0],
        "token1": tok1[0],
        "quote": quote,
        "fee": fee,
        "closeTick": ticks,
        "inAmount0": in0,
        "inAmount1": in1,
        "currentLiquidity": liqs,
    }


@op("uni.price_to_tick")
def _p2t(sim, m, a):
    p = D(a["price"])
    return lambda: m.price_to_tick(p)


@op("uni.tick_to_price")
def _t2p(sim, m, a):
    t = int(a["tick"])
    return lambda: m.tick_to_price(t)


def base_quote(mw):
    q = mw["quote"]
    b = mw["token1"] if q == mw["token0"] else mw["token0"]
    return b, q


def random_uni_op(rp, mw, cur_tick, hostile=0.15):
    """One random UniLpMarket operation (no bar/phase) around the tick `cur_tick`; `hostile` = share of
    rejection recipes (oversize amounts, unknown positions, bad ticks)."""
    sp = spacing_of(mw["fee"])
    b, q = base_quote(mw)
    name = mw["name"]
    r = rp.random()

    def rng_ticks():
        lo = (int(cur_tick) // sp) * sp + rp.randint(-10, 6) * sp
        return lo, lo + rp.randint(1, 14) * sp

    if r < hostile:
        kind = rp.choice(["sell_too_much", "buy_too_much", "add_too_much", "remove_unknown", "collect_unknown", "bad_tick", "neg_liq", "swap_same"])
        if kind == "sell_too_much":
            return {"op": "uni.sell", "m": name, "a": {"amount": {"f": f"wallet:{b}", "x": "1.7"}}, "hostile": kind}
        if kind == "buy_too_much":
            return {"op": "uni.buy", "m": name, "a": {"amount": {"abs": "1e14"}}, "hostile": kind}
        if kind == "add_too_much":
            lo, hi = rng_ticks()
            side = rp.choice(["base", "quote", "both"])
            a = {"lo": lo, "hi": hi, "base": {"f": f"wallet:{b}", "x": "3" if side != "quote" else "0.01"}, "quote": {"f": f"wallet:{q}", "x": "3" if side != "base" else "0.01"}}
            return {"op": "uni.add_by_tick", "m": name, "a": a, "hostile": kind}
        if kind == "remove_unknown":
            return {"op": "uni.remove", "m": name, "a": {"pos": {"lo": 887000 // sp * sp - sp, "hi": 887000 // sp * sp}}, "hostile": kind}
        if kind == "collect_unknown":
            return {"op": "uni.collect", "m": name, "a": {"pos": {"lo": 887000 // sp * sp - sp, "hi": 887000 // sp * sp}}, "hostile": kind}
        if kind == "bad_tick":
            lo, hi = rng_ticks()
            return {"op": "uni.add_by_tick", "m": name, "a": {"lo": lo + 1, "hi": hi + 3, "trim": False, "base": {"f": f"wallet:{b}", "x": "0.01"}, "quote": {"f": f"wallet:{q}", "x": "0.01"}}, "hostile": kind}
        if kind == "neg_liq":
            return {"op": "uni.remove", "m": name, "a": {"pos": {"i": 0}, "liq": {"abs": "-5"}}, "hostile": kind}
        return {"op": "uni.swap", "m": name, "a": {"from": b, "to": b, "amount": {"abs": "1"}}, "hostile": kind}
    kind = rp.choice(["add", "add", "add", "remove", "remove", "collect", "buy", "sell", "swap", "even", "remove_all", "add_by_value"])
    if kind == "add":
        lo, hi = rng_ticks()
        return {"op": "uni.add_by_tick", "m": name, "a": {"lo": lo, "hi": hi, "base": {"f": f"wallet:{b}", "x": str(round(rp.uniform(0.01, 0.2), 3))}, "quote": {"f": f"wallet:{q}", "x": str(round(rp.uniform(0.01, 0.2), 3))}}}
    if kind == "remove":
        a = {"pos": {"i": rp.randint(0, 5)}, "collect": rp.random() < 0.5}
        if rp.random() < 0.5:
            a["liq"] = {"f": f"liq:{name}#{a['pos']['i']}", "x": str(round(rp.uniform(0.1, 1.3), 2))}
        return {"op": "uni.remove", "m": name, "a": a}
    if kind == "collect":
        return {"op": "uni.collect", "m": name, "a": {"pos": {"i": rp.randint(0, 5)}}}
    if kind == "buy":
        return {"op": "uni.buy", "m": name, "a": {"amount": {"f": f"wallet:{b}", "x": str(round(rp.uniform(0, 0.05), 3))}}}
    if kind == "sell":
        return {"op": "uni.sell", "m": name, "a": {"amount": {"f": f"wallet:{b}", "x": str(round(rp.uniform(0, 0.3), 3))}}}
    if kind == "swap":
        f, t = (b, q) if rp.random() < 0.5 else (q, b)
        return {"op": "uni.swap", "m": name, "a": {"from": f, "to": t, "amount": {"f": f"wallet:{f}", "x": str(round(rp.uniform(0.001, 0.1), 3))}}}
    if kind == "even":
        return {"op": "uni.even_rebalance", "m": name, "a": {}}
    if kind == "remove_all":
        return {"op": "uni.remove_all", "m": name, "a": {}}
    lo, hi = rng_ticks()
    return {"op": "uni.add_by_value", "m": name, "a": {"lo": lo, "hi": hi, "value": {"f": f"wallet:{q}", "x": str(round(rp.uniform(0.01, 0.2), 3))}}}


def random_uni_read(rp, mw, cur_tick):
    """One read-only call of the market's public API (reads are operations too: they must not change any state, the
    process-wide Decimal context included)."""
    sp = spacing_of(mw["fee"])
    kind = rp.choice(["balance", "position_status", "estimate_liquidity", "estimate_liquidity", "estimate_amount", "price_to_tick", "tick_to_price", "library"])
    if kind == "library":  # module-level helper functions (range finder, greeks, indicators, metrics, formatting ...)
        return {"op": "lib.read_helpers", "a": {"which": LH.pick(rp)}, "m": mw["name"]}
    lo = (int(cur_tick) // sp) * sp - rp.randint(1, 8) * sp
    hi = lo + rp.randint(2, 20) * sp
    if kind == "balance":
        o = {"op": "uni.read_balance", "a": {}}
    elif kind == "position_status":
        o = {"op": "uni.read_position_status", "a": {"pos": {"i": rp.randint(0, 3), "lo0": lo, "hi0": hi}}}
    elif kind == "estimate_liquidity":
        o = {"op": "uni.estimate_liquidity", "a": {"value": {"abs": rp.choice(["1", "250.5", "10000"])}, "pos": {"i": rp.randint(0, 3), "lo0": lo, "hi0": hi}}}
    elif kind == "estimate_amount":
        o = {"op": "uni.estimate_amount", "a": {"value": {"abs": rp.choice(["1", "250.5", "10000"])}, "lo": lo, "hi": hi}}
    elif kind == "price_to_tick":
        o = {"op": "uni.price_to_tick", "a": {"price": rp.choice(["0.5", "1800.25", "27000", "0.0004"])}}
    else:
        o = {"op": "uni.tick_to_price", "a": {"tick": int(cur_tick) + rp.randint(-500, 500)}}
    o["m"] = mw["name"]
    return o
