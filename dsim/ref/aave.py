"""Aave v3 reference rules (DESIGN appendix A.3) in exact Fractions, written from the property texts C10-C13 and the
protocol rules - shared by the four Aave oracles.

All numbers come from the scenario (`world`): indices, rates, prices, risk parameters. Position state is read from the
real market only as (scaled amount, collateral flag) per token - never through the views under test.
"""
from decimal import Decimal, localcontext
from fractions import Fraction

import pandas as pd

SECONDS_IN_A_YEAR = 31536000
BAND = Fraction(1, 10**9)  # three-valued accept/reject band around a threshold (DESIGN 2.6)


def F(x) -> Fraction:
    if isinstance(x, Fraction):
        return x
    if isinstance(x, Decimal):
        return Fraction(x)
    if isinstance(x, str):
        return Fraction(Decimal(x[2:] if x.startswith("D:") else x))
    if isinstance(x, float):
        return Fraction(Decimal(repr(x)))
    return Fraction(x)


def to_dec(fr, prec=50) -> Decimal:
    if fr is None:
        return None
    with localcontext() as ctx:
        ctx.prec = prec
        return Decimal(fr.numerator) / Decimal(fr.denominator)


def fstr(fr, digits=40):
    if fr is None:
        return None
    if isinstance(fr, Fraction):
        return format(to_dec(fr, digits + 5), f".{digits}g")
    return fr


def grid_rows(start, n, interval):
    """Bars of the run: (label, index of the first raw minute in the bin). Both the market frame and the price frame
    are resampled with .resample(interval).first(), bins aligned to midnight."""
    iv = interval if interval[0].isdigit() else "1" + interval
    k = int(pd.Timedelta(iv) / pd.Timedelta("1min"))
    start = pd.Timestamp(start)
    if k == 1:
        return [(start + pd.Timedelta(minutes=i), i) for i in range(n)]
    out = []
    last = None
    for i in range(n):
        ts = start + pd.Timedelta(minutes=i)
        mins = ts.hour * 60 + ts.minute
        lab = ts.normalize() + pd.Timedelta(minutes=(mins // k) * k)
        if lab != last:
            out.append((lab, i))
            last = lab
    return out


class State:
    """Scaled position book: sup[token] = [scaled, collateral flag], debt[token] = scaled (insertion ordered)."""

    def __init__(self, sup=None, debt=None):
        self.sup = sup if sup is not None else {}
        self.debt = debt if debt is not None else {}

    def copy(self):
        return State({k: list(v) for k, v in self.sup.items()}, dict(self.debt))


def read_state(market) -> State:
    """(scaled amount, flag) per token. Reads the position dicts themselves (named by the properties' anchors) so that
    observing never warms or resets a memoised view; falls back to the public accessors."""
    st = State()
    sup = getattr(market, "_supplies", None)
    bor = getattr(market, "_borrows", None)
    if isinstance(sup, dict) and isinstance(bor, dict):
        for k, v in sup.items():
            st.sup[k.name] = [F(v.base_amount), bool(v.collateral)]
        for k, v in bor.items():
            st.debt[k.name] = F(v.base_amount)
        return st
    for k in market.supply_keys:
        s = market.get_supply(k)
        st.sup[k.name] = [F(s.base_amount), bool(s.collateral)]
    for k in market.borrow_keys:
        st.debt[k.name] = F(market.get_borrow(k).base_amount)
    return st


class AaveRef:
    def __init__(self, world, mw):
        self.world, self.mw = world, mw
        self.tokens = [t.upper() for t in mw["tokens"]]
        self.rows = grid_rows(world["start"], int(world["n"]), world.get("interval", "1min"))
        self.nbars = len(self.rows)
        self.labels = [r[0] for r in self.rows]
        self.risk = {}
        for t in self.tokens:
            r = mw["risk"][t]
            self.risk[t] = {
                "ltv": Fraction(int(r["ltv"]), 10000),
                "lt": Fraction(int(r["lt"]), 10000),
                "bonus": Fraction(int(r["bonus"]) - 10000, 10000),
                "collateral": bool(r["collateral"]),
                "borrow": bool(r["borrow"]),
            }
        self._cache = {}
        self.stress = None

    # ------------------------------------------------------------------------------------------ scenario numbers
    def _series(self, col, t, bar, default):
        key = (col, t, bar)
        v = self._cache.get(key)
        if v is None:
            raw = self.rows[bar][1]
            if col == "price":
                if t == "USD":
                    v = Fraction(1)
                else:
                    v = F(self.world["prices"][t][raw])
            else:
                s = self.mw.get(col, {}).get(t)
                v = F(s[raw]) if s is not None else Fraction(default)
            self._cache[key] = v
        return v

    def Is(self, t, bar):
        return self._series("liquidity_index", t, bar, 1)

    def Ib(self, t, bar):
        return self._series("variable_borrow_index", t, bar, 1)

    def P(self, t, bar):
        v = self._series("price", t, bar, 1)
        if self.stress:
            v = v * self.stress.get(t, 1)  # a what-if price vector (aave.stress_read)
        return v

    def rate_s(self, t, bar):
        return self._series("liquidity_rate", t, bar, 0)

    def rate_b(self, t, bar):
        return self._series("variable_borrow_rate", t, bar, 0)

    @staticmethod
    def apy(rate: Fraction) -> Decimal:
        """(1 + r/N)^N - 1 at 90 significant digits (the exact rational has ~10^9 digits)."""
        with localcontext() as ctx:
            ctx.prec = 90
            r = Decimal(rate.numerator) / Decimal(rate.denominator)
            return (1 + r / SECONDS_IN_A_YEAR) ** SECONDS_IN_A_YEAR - 1

    # ------------------------------------------------------------------------------------------ definitions (A.3)
    def sup_amount(self, st, t, bar):
        return st.sup[t][0] * self.Is(t, bar) if t in st.sup else Fraction(0)

    def debt_amount(self, st, t, bar):
        return st.debt[t] * self.Ib(t, bar) if t in st.debt else Fraction(0)

    def sup_values(self, st, bar):
        return {t: v[0] * self.Is(t, bar) * self.P(t, bar) for t, v in st.sup.items()}

    def coll_values(self, st, bar):
        return {t: v[0] * self.Is(t, bar) * self.P(t, bar) for t, v in st.sup.items() if v[1]}

    def debt_values(self, st, bar):
        return {t: v * self.Ib(t, bar) * self.P(t, bar) for t, v in st.debt.items()}

    def total_debt(self, st, bar):
        return sum(self.debt_values(st, bar).values(), Fraction(0))

    def total_coll(self, st, bar):
        return sum(self.coll_values(st, bar).values(), Fraction(0))

    def total_sup(self, st, bar):
        return sum(self.sup_values(st, bar).values(), Fraction(0))

    def lt_sum(self, st, bar):
        return sum((v * self.risk[t]["lt"] for t, v in self.coll_values(st, bar).items()), Fraction(0))

    def ltv_sum(self, st, bar):
        return sum((v * self.risk[t]["ltv"] for t, v in self.coll_values(st, bar).items()), Fraction(0))

    def hf(self, st, bar):
        """Health factor; None = infinite (no debt)."""
        d = self.total_debt(st, bar)
        if d == 0:
            return None
        return self.lt_sum(st, bar) / d

    def max_ltv(self, st, bar):
        c = self.total_coll(st, bar)
        return None if c == 0 else self.ltv_sum(st, bar) / c

    def lt_weighted(self, st, bar):
        c = self.total_coll(st, bar)
        return None if c == 0 else self.lt_sum(st, bar) / c

    def net_value(self, st, bar):
        return self.total_sup(st, bar) - self.total_debt(st, bar)

    # ------------------------------------------------------------------------------------------ limits
    def max_borrow(self, st, t, bar):
        """Largest legal borrow amount of token t (A.3), None when no borrow is legal at all."""
        if not self.risk[t]["borrow"]:
            return None
        c = self.total_coll(st, bar)
        if c <= 0:
            return None
        ml = self.max_ltv(st, bar)
        if not ml:
            return None
        h = self.hf(st, bar)
        if h is not None and h <= 1:
            return None
        lim = (c * ml - self.total_debt(st, bar)) / self.P(t, bar)
        return lim if lim > 0 else None

    def max_withdraw(self, st, t, bar):
        """Largest legal withdrawal of token t (A.3); None when t is not supplied."""
        if t not in st.sup:
            return None
        bal = self.sup_amount(st, t, bar)
        if not st.sup[t][1]:
            return bal
        d = self.total_debt(st, bar)
        if d == 0:
            return bal
        lt = self.risk[t]["lt"]
        spare = self.lt_sum(st, bar) - d  # >= 0 iff HF >= 1
        if spare < 0:
            return Fraction(0)
        if lt == 0:
            return bal
        return min(bal, spare / (self.P(t, bar) * lt))

    # verdicts: "accept" | "reject" | "either", plus the cause that decides
    def verdict_borrow(self, st, t, x, bar):
        if x is None:
            return "either", "amount_none"
        x = F(x)
        if x <= 0:
            return "either", "nonpositive_amount"
        if not self.risk[t]["borrow"]:
            return "reject", "borrowing_disabled"
        c = self.total_coll(st, bar)
        if c == 0:
            return "reject", "no_collateral"
        ml = self.max_ltv(st, bar)
        if ml == 0:
            return "reject", "ltv_zero"
        h = self.hf(st, bar)
        if h is not None:
            if h <= 1 - BAND:
                return "reject", "hf_not_above_1"
            if h <= 1 + BAND:
                return "either", "hf_in_band"
        need = (self.total_debt(st, bar) + x * self.P(t, bar)) / ml
        if need > c * (1 + BAND):
            return "reject", "ltv_cover"
        if need < c * (1 - BAND):
            return "accept", "covered"
        return "either", "ltv_cover_in_band"

    def verdict_withdraw(self, st, t, x, bar):
        if t not in st.sup:
            return "either", "not_supplied"
        bal = self.sup_amount(st, t, bar)
        if x is None:
            x = bal
        x = F(x)
        if x <= 0:
            return "either", "nonpositive_amount"
        if x > bal * (1 + BAND):
            return "reject", "beyond_balance"
        over = x > bal * (1 - BAND)
        if not st.sup[t][1]:
            return ("either", "balance_in_band") if (over and x > bal) else ("accept", "non_collateral")
        d = self.total_debt(st, bar)
        if d == 0:
            return ("either", "balance_in_band") if (over and x > bal) else ("accept", "no_debt")
        after = self.lt_sum(st, bar) - min(x, bal) * self.P(t, bar) * self.risk[t]["lt"]
        if after < d * (1 - BAND):
            return "reject", "hf_below_1"
        if after > d * (1 + BAND) and not (over and x > bal):
            return "accept", "hf_ok"
        return "either", "hf_in_band"

    def verdict_flag(self, st, t, flag, bar):
        if t not in st.sup:
            return "either", "not_supplied"
        if st.sup[t][1] == bool(flag):
            return "accept", "no_change"
        if flag:
            # enabling: HF can only rise; whether a token whose risk flag forbids collateral use must be refused is
            # not stated by the property -> no demand there
            return ("accept", "enable") if self.risk[t]["collateral"] else ("either", "enable_disallowed_token")
        d = self.total_debt(st, bar)
        if d == 0:
            return "accept", "no_debt"
        after = self.lt_sum(st, bar) - self.sup_amount(st, t, bar) * self.P(t, bar) * self.risk[t]["lt"]
        if after < d * (1 - BAND):
            return "reject", "hf_below_1"
        if after > d * (1 + BAND):
            return "accept", "hf_ok"
        return "either", "hf_in_band"

    # ------------------------------------------------------------------------------------------ liquidation step
    def liquidation_expected_seize(self, c, d, repay, bar):
        return repay * self.P(d, bar) / self.P(c, bar) * (1 + self.risk[c]["bonus"])

    def apply_liquidation(self, st, c, d, seize, repay, bar):
        st.sup[c][0] -= seize / self.Is(c, bar)
        st.debt[d] -= repay / self.Ib(d, bar)


_REFS = {}


def ref_for(sim, market) -> AaveRef:
    """One AaveRef per (sim, market name), built from the scenario only."""
    name = market.market_info.name
    key = (id(sim), name)
    r = getattr(sim, "_aave_refs", None)
    if r is None:
        r = sim._aave_refs = {}
    if name not in r:
        mw = next(m for m in sim.world["markets"] if m["name"] == name)
        r[name] = AaveRef(sim.world, mw)
    return r[name]


def close(a: Fraction, b: Fraction, rel: Fraction, abs_: Fraction = Fraction(0)) -> bool:
    if a == b:
        return True
    return abs(a - b) <= rel * max(abs(a), abs(b)) + abs_


class Ledger:
    """C10 reference: per token a list of lots (amount at entry, index at entry); balance = sum lot * I_now / I_entry.
    Reductions (withdraw / repay / repay with collateral) shrink every lot pro rata."""

    def __init__(self):
        self.lots = {}  # token -> list of [amount, index_at_entry]

    def balance(self, t, index_now):
        return sum((a * index_now / i for a, i in self.lots.get(t, ())), Fraction(0))

    def add(self, t, amount, index_now):
        self.lots.setdefault(t, []).append([F(amount), index_now])

    def reduce(self, t, amount, index_now):
        """Remove `amount` (at today's index); returns the balance left. amount >= balance empties the token."""
        bal = self.balance(t, index_now)
        amount = F(amount)
        if bal == 0 or amount >= bal:
            self.lots.pop(t, None)
            return Fraction(0)
        keep = 1 - amount / bal
        for lot in self.lots[t]:
            lot[0] *= keep
        return bal - amount

    def clear(self, t):
        self.lots.pop(t, None)

    def tokens(self):
        return [t for t, l in self.lots.items() if l]
