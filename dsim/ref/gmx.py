"""Reference rules for GMX v1 (GLP) and GMX v2 (GM) mint / redeem - DESIGN Appendix A.6.

Written from the protocol rules (Vault.buyUSDG / sellUSDG / VaultUtils.getFeeBasisPoints / GlpManager add- and
removeLiquidity for v1; ExecuteDepositUtils / ExecuteWithdrawalUtils / SwapPricingUtils for v2), not from demeter.

v1 works on integers exactly as the EVM does (every `div` is a floor); an `*_exact` twin of each amount function
returns the same chain *without* any floor as a Fraction (used for the "round-down steps never round up" check).
v2 works on Fractions built from the exact binary value of the float inputs.
"""
from fractions import Fraction

# ------------------------------------------------------------------------------------------------------ GMX v1
BASIS_POINTS_DIVISOR = 10_000
PRICE_PRECISION = 10**30
USDG_DECIMALS = 18
GLP_DECIMALS = 18
MINT_BURN_FEE_BPS = 25  # property text: "base (25 bp)"
TAX_BPS = 60  # property text: "tax (60 bp)"
MAX_FEE_BPS = MINT_BURN_FEE_BPS + TAX_BPS


class V1State:
    """One bar's vault / GLP manager state in raw on-chain integers."""

    def __init__(self, glp_supply, aum, usdg_supply, weights, usdg, price, decimals):
        self.glp_supply = int(glp_supply)  # GLP wei
        self.aum = int(aum)  # USD * 1e30
        self.usdg_supply = int(usdg_supply)  # USDG wei (total)
        self.weights = {k: int(v) for k, v in weights.items()}
        self.usdg = {k: int(v) for k, v in usdg.items()}  # USDG wei debt per token
        self.price = {k: int(v) for k, v in price.items()}  # USD * 1e30 per whole token
        self.decimals = {k: int(v) for k, v in decimals.items()}

    @property
    def total_weights(self):
        return sum(self.weights.values())

    def target(self, token):
        return target_usdg(self.weights[token], self.usdg_supply, self.total_weights)

    def aum_in_usdg(self):
        return self.aum * 10**USDG_DECIMALS // PRICE_PRECISION


def target_usdg(weight: int, usdg_supply: int, total_weights: int) -> int:
    """Vault.getTargetUsdgAmount: weight * usdg.totalSupply / totalTokenWeights (0 when supply is 0)."""
    if usdg_supply == 0 or total_weights == 0:
        return 0
    return weight * usdg_supply // total_weights


def fee_basis_points(initial: int, delta: int, target: int, increment: bool, fee: int = MINT_BURN_FEE_BPS, tax: int = TAX_BPS):
    """VaultUtils.getFeeBasisPoints with dynamic fees. Returns (bps, branch, capped)."""
    nxt = initial + delta if increment else (0 if delta > initial else initial - delta)
    if target == 0:
        return fee, "target0", False
    d0 = abs(initial - target)
    d1 = abs(nxt - target)
    if d1 < d0:  # the action improves the balance: rebate
        rebate = tax * d0 // target
        return (0 if rebate > fee else fee - rebate), "rebate", False
    avg = (d0 + d1) // 2
    capped = avg > target
    if capped:
        avg = target
    return fee + tax * avg // target, "tax", capped


def in_frontier_band(initial: int, delta: int, target: int, increment: bool, band_wei: int) -> bool:
    if target == 0:
        return False
    nxt = initial + delta if increment else (0 if delta > initial else initial - delta)
    return abs(abs(nxt - target) - abs(initial - target)) <= band_wei


def fee_candidates(initial: int, delta: int, target: int, increment: bool, band_wei: int):
    """Fees the rule can yield when the improvement test |next - target| < |initial - target| is only decided to within
    `band_wei` (an implementation that keeps the sub-wei fraction of weight*supply/totalWeights moves that frontier by
    less than one wei on each side). Away from the frontier this is the single rule value."""
    bps, branch, capped = fee_basis_points(initial, delta, target, increment)
    if target == 0:
        return [bps]
    nxt = initial + delta if increment else (0 if delta > initial else initial - delta)
    d0, d1 = abs(initial - target), abs(nxt - target)
    if abs(d1 - d0) > band_wei:
        return [bps]
    rebate = TAX_BPS * d0 // target
    avg = min((d0 + d1) // 2, target)
    return sorted({0 if rebate > MINT_BURN_FEE_BPS else MINT_BURN_FEE_BPS - rebate, MINT_BURN_FEE_BPS + TAX_BPS * avg // target})


def adjust_for_decimals(amount: int, dec_div: int, dec_mul: int) -> int:
    """Vault.adjustForDecimals: amount * 10**decimals(mul) / 10**decimals(div)."""
    return amount * 10**dec_mul // 10**dec_div


def _clamp_fee(bps: int) -> int:
    return max(0, min(MAX_FEE_BPS, bps))


def mint_glp(st: V1State, token: str, amount_wei: int, fee_shift: int = 0, fee_override=None) -> dict:
    """GlpManager._addLiquidity -> Vault.buyUSDG. amount_wei in the token's own smallest unit."""
    d = st.decimals[token]
    price = st.price[token]
    usdg_delta = adjust_for_decimals(amount_wei * price // PRICE_PRECISION, d, USDG_DECIMALS)
    bps, branch, capped = fee_basis_points(st.usdg[token], usdg_delta, st.target(token), True)
    used = _clamp_fee((bps if fee_override is None else fee_override) + fee_shift)
    after_fee = amount_wei * (BASIS_POINTS_DIVISOR - used) // BASIS_POINTS_DIVISOR
    usdg = adjust_for_decimals(after_fee * price // PRICE_PRECISION, d, USDG_DECIMALS)
    aum_usdg = st.aum_in_usdg()
    glp = usdg if aum_usdg == 0 else usdg * st.glp_supply // aum_usdg
    return {"usdg_delta": usdg_delta, "fee_bps": bps, "fee_used": used, "branch": branch, "capped": capped, "usdg": usdg, "glp_wei": glp}


def mint_glp_exact(st: V1State, token: str, amount_wei: int, fee_bps: int) -> Fraction:
    """Same chain with no floor at all: an upper bound of every correct round-down implementation."""
    d = st.decimals[token]
    usdg = Fraction(amount_wei * (BASIS_POINTS_DIVISOR - fee_bps), BASIS_POINTS_DIVISOR) * st.price[token] / PRICE_PRECISION
    usdg = usdg * 10**USDG_DECIMALS / 10**d
    aum_usdg = Fraction(st.aum * 10**USDG_DECIMALS, PRICE_PRECISION)
    return usdg if aum_usdg == 0 else usdg * st.glp_supply / aum_usdg


def redeem_glp(st: V1State, token: str, glp_wei: int, fee_shift: int = 0, fee_override=None) -> dict:
    """GlpManager._removeLiquidity -> Vault.sellUSDG. Returns the token amount out in the token's smallest unit."""
    d = st.decimals[token]
    price = st.price[token]
    usdg = glp_wei * st.aum_in_usdg() // st.glp_supply
    redemption = adjust_for_decimals(usdg * PRICE_PRECISION // price, USDG_DECIMALS, d)
    bps, branch, capped = fee_basis_points(st.usdg[token], usdg, st.target(token), False)
    used = _clamp_fee((bps if fee_override is None else fee_override) + fee_shift)
    out = redemption * (BASIS_POINTS_DIVISOR - used) // BASIS_POINTS_DIVISOR
    return {"usdg": usdg, "fee_bps": bps, "fee_used": used, "branch": branch, "capped": capped, "redemption": redemption, "out_wei": out,
            "drains": usdg > st.usdg[token]}


def redeem_glp_exact(st: V1State, token: str, glp_wei: int, fee_bps: int) -> Fraction:
    d = st.decimals[token]
    usdg = Fraction(glp_wei * st.aum * 10**USDG_DECIMALS, PRICE_PRECISION * st.glp_supply)
    red = usdg * PRICE_PRECISION / st.price[token] * 10**d / 10**USDG_DECIMALS
    return red * (BASIS_POINTS_DIVISOR - fee_bps) / BASIS_POINTS_DIVISOR


def reward_per_bar(tokens_per_interval: Fraction, glp_held: Fraction, glp_supply_wei: int) -> Fraction:
    """Pro rata share of the distributor's emission over one bar of 60 s: interval * 60 * held / supply."""
    return Fraction(tokens_per_interval) * 60 * Fraction(glp_held) / glp_supply_wei


# ------------------------------------------------------------------------------------------------------ GMX v2
class V2Config:
    """Market configuration (all Fractions of the exact float values the market was configured with)."""

    def __init__(self, f_pos, f_neg, dep_fee_pos, dep_fee_neg, wd_fee_pos, wd_fee_neg, exponent=2):
        self.f_pos = Fraction(f_pos)
        self.f_neg = Fraction(f_neg)
        self.dep_fee_pos = Fraction(dep_fee_pos)
        self.dep_fee_neg = Fraction(dep_fee_neg)
        self.wd_fee_pos = Fraction(wd_fee_pos)
        self.wd_fee_neg = Fraction(wd_fee_neg)
        self.exponent = int(exponent)

    def adjusted(self):
        """MarketUtils.getAdjustedSwapImpactFactors: the positive factor never exceeds the negative one."""
        return (min(self.f_pos, self.f_neg), self.f_neg)


class V2State:
    def __init__(self, long_amount, short_amount, virt_long, virt_short, pool_value, supply, impact_pool, long_price, short_price):
        F = Fraction
        self.long_amount, self.short_amount = F(long_amount), F(short_amount)
        # None: the market has no virtual inventory (empty cells in the data)
        self.virt_long, self.virt_short = (None, None) if virt_long is None or virt_short is None else (F(virt_long), F(virt_short))
        self.pool_value, self.supply, self.impact_pool = F(pool_value), F(supply), F(impact_pool)
        self.long_price, self.short_price = F(long_price), F(short_price)


def _impact(cfg: V2Config, a0, b0, a1, b1):
    """SwapPricingUtils._getPriceImpactUsd for pool USD (a0,b0) -> (a1,b1). Returns (usd, crossover?)."""
    d0, d1 = abs(a0 - b0), abs(a1 - b1)
    f_pos, f_neg = cfg.adjusted()
    e = cfg.exponent
    same_side = (a0 <= b0) == (a1 <= b1)
    if same_side:
        positive = d1 < d0
        f = f_pos if positive else f_neg
        mag = abs(f * d0**e - f * d1**e)
        return (mag if positive else -mag), False
    return f_pos * d0**e - f_neg * d1**e, True


def _deposit_impacts(cfg: V2Config, st: V2State, long_usd, short_usd):
    a0, b0 = st.long_amount * st.long_price, st.short_amount * st.short_price
    real, cross = _impact(cfg, a0, b0, a0 + long_usd, b0 + short_usd)
    if st.virt_long is None:  # no virtual inventory: the pool's own balances decide alone
        return (real, cross), (real, cross), max(a0 + long_usd, b0 + short_usd)
    va, vb = st.virt_long * st.long_price, st.virt_short * st.short_price
    virt, vcross = _impact(cfg, va, vb, va + long_usd, vb + short_usd)
    scale = max(a0 + long_usd, b0 + short_usd, va + long_usd, vb + short_usd)
    return (real, cross), (virt, vcross), scale


def deposit_impact(cfg: V2Config, st: V2State, long_usd, short_usd):
    """Price impact in USD of adding (long_usd, short_usd) to the pool; a negative impact is the worse of the real
    pool and the virtual inventory. Returns (impact, info)."""
    (real, cross), (virt, vcross), scale = _deposit_impacts(cfg, st, long_usd, short_usd)
    if real >= 0 or virt >= real:
        return real, {"crossover": cross, "virtual": False, "scale": scale}
    return virt, {"crossover": vcross, "virtual": True, "scale": scale}


def _deposit_eval(cfg: V2Config, st: V2State, L, S, imp, modes=None) -> dict:
    """ExecuteDepositUtils for a given total impact. `modes[side]` forces how a side's share is treated ("pos"/"neg");
    by default it follows the sign of the share."""
    lv, sv = L * st.long_price, S * st.short_price
    out = {"paid_usd": lv + sv, "gm": Fraction(0), "impact": imp, "capped_positive_usd": Fraction(0), "capped": False,
           "reverts": False, "long_fee": Fraction(0), "short_fee": Fraction(0)}
    for side, amt, val, p_in, p_out in (("long", L, lv, st.long_price, st.short_price), ("short", S, sv, st.short_price, st.long_price)):
        if amt <= 0:
            continue
        share = imp * val / (lv + sv)
        mode = (modes or {}).get(side) or ("pos" if share > 0 else "neg")
        fee_factor = cfg.dep_fee_pos if mode == "pos" else cfg.dep_fee_neg
        fee = amt * fee_factor
        after = amt - fee
        out[side + "_fee"] = fee
        if mode == "pos":  # paid in the opposite token out of its impact pool, never more than the pool holds
            pos_amt = max(share, Fraction(0)) / p_out
            if pos_amt > st.impact_pool:
                pos_amt = st.impact_pool
                out["capped"] = True
            out["capped_positive_usd"] += pos_amt * p_out
            out["gm"] += st.supply * (pos_amt * p_out) / st.pool_value
        else:  # less of the deposit mints
            after -= max(-share, Fraction(0)) / p_in
            if after < 0:
                out["reverts"] = True  # uint underflow on chain
        out["gm"] += st.supply * (after * p_in) / st.pool_value
    return out


def deposit(cfg: V2Config, st: V2State, long_amount, short_amount) -> dict:
    """ExecuteDepositUtils: per side, fee by sign of that side's share of the impact; positive impact is paid in the
    opposite token capped by the impact pool; negative impact reduces the amount that mints."""
    L, S = Fraction(long_amount), Fraction(short_amount)
    lv, sv = L * st.long_price, S * st.short_price
    if lv + sv == 0:
        out = _deposit_eval(cfg, st, Fraction(0), Fraction(0), Fraction(0))
        out.update(crossover=False, virtual=False, scale=Fraction(0))
        return out
    imp, info = deposit_impact(cfg, st, lv, sv)
    out = _deposit_eval(cfg, st, L, S, imp)
    out.update(info)
    return out


def deposit_candidates(cfg: V2Config, st: V2State, long_amount, short_amount, noise) -> list:
    """Every result the rule yields when each *sign test* on the price impact (is the pool's own impact negative, so that
    the virtual inventory is consulted? is a side's share positive, so that the positive fee factor and the impact-pool
    payout apply?) is only decided to within `noise` usd. Away from those knife edges this is [deposit(...)]."""
    L, S = Fraction(long_amount), Fraction(short_amount)
    lv, sv = L * st.long_price, S * st.short_price
    if lv + sv == 0:
        return [deposit(cfg, st, L, S)]
    (real, cross), (virt, vcross), scale = _deposit_impacts(cfg, st, lv, sv)
    impacts = []
    if real >= -noise:  # seen as non-negative: stands as it is
        impacts.append(real)
    if real < noise:  # seen as negative: the worse of the two
        impacts.append(min(real, virt))
    outs = []
    for imp in dict.fromkeys(impacts):
        options = []
        for side, amt, val in (("long", L, lv), ("short", S, sv)):
            if amt <= 0:
                options.append([(side, None)])
                continue
            share = imp * val / (lv + sv)
            options.append([(side, "pos"), (side, "neg")] if abs(share) <= noise else [(side, None)])
        for lo in options[0]:
            for so in options[1]:
                outs.append(_deposit_eval(cfg, st, L, S, imp, dict([lo, so])))
    return outs


def withdraw(cfg: V2Config, st: V2State, gm_amount) -> dict:
    """ExecuteWithdrawalUtils: USD value of the shares split by pool composition, each side less the withdrawal fee
    (charged at the negative-impact factor)."""
    g = Fraction(gm_amount)
    usd = st.pool_value * g / st.supply
    a, b = st.long_amount * st.long_price, st.short_amount * st.short_price
    long_gross = usd * a / (a + b) / st.long_price
    short_gross = usd * b / (a + b) / st.short_price
    lf, sf = long_gross * cfg.wd_fee_neg, short_gross * cfg.wd_fee_neg
    return {"usd": usd, "long_out": long_gross - lf, "short_out": short_gross - sf, "long_fee": lf, "short_fee": sf}
