"""C03 reference: exact (unrounded) valuation of wallet + every position at one bar's data, in Fractions.

Written from the property text C03/C01 and DESIGN appendix A.1-A.6, not from demeter:

  NV = sum wallet[t] * P[t]  +  sum_m value_m * (1 if quote_m == account quote else P[quote_m])

  Uniswap v3  position (L, pending0, pending1) at the bar's pool price (= previous bar's close tick, A.1):
              s = sqrtRatio(tick), a = sqrtRatio(lower), b = sqrtRatio(upper) as Q64.96 integers
              s <= a: (L*2^96*(b-a)/(a*b), 0);  a < s < b: (L*2^96*(b-s)/(s*b), L*(s-a)/2^96);  s >= b: (0, L*(b-a)/2^96)
              value in pool quote = base * p + quote, p = 1.0001^tick * 10^(d0-d1) (inverted when token0 is the quote)
  Aave v3     scaled supply * liquidity index * P  -  scaled debt * variable borrow index * P          (A.3)
  Squeeth     eth collateral * WETH  -  short * OSQTH * WETH   (data columns of the squeeth frame)     (A.4, C01)
              an LP position lent to a vault is counted once, with the vault
  Deribit     (cash + sum amount * round_half_up(mark, fee step)) * P[token], instruments absent from the hour row: 0 (A.5)
  GMX v1      glp * glp_price + reward * wavax_price / 1e30;   GMX v2: gm * poolValue / supply        (A.6)

Everything numeric comes from the scenario (`world`); the live objects are read only for *position state* through
public attributes (positions, vault, balance, glp_amount, amount, broker.assets; Aave scaled amounts as ref/aave.py
reads them).  get_market_balance / get_account_status are never called here.
"""
from decimal import Decimal, localcontext, ROUND_HALF_UP
from fractions import Fraction
import math

import pandas as pd

from ..sim import HarnessError
from ..canon import D

Q96 = 2**96
ONE_MIN = pd.Timedelta("1min")


def F(x) -> Fraction:
    if isinstance(x, Fraction):
        return x
    if isinstance(x, bool):
        raise HarnessError("bool where a number was expected")
    if isinstance(x, int):
        return Fraction(x)
    if isinstance(x, float):
        if math.isnan(x) or math.isinf(x):
            raise HarnessError(f"non-finite float {x!r} in position state")
        return Fraction(x)  # exact binary value
    if isinstance(x, Decimal):
        if not x.is_finite():
            raise HarnessError(f"non-finite Decimal {x!r} in position state")
        return Fraction(x)
    if isinstance(x, str):
        return Fraction(D(x))
    try:  # numpy scalars
        import numpy as np

        if isinstance(x, np.integer):
            return Fraction(int(x))
        if isinstance(x, np.floating):
            return F(float(x))
    except ImportError:  # pragma: no cover
        pass
    raise HarnessError(f"cannot convert {type(x).__name__} to Fraction")


def fstr(fr, digits=30):
    if fr is None:
        return None
    if isinstance(fr, Fraction):
        with localcontext() as ctx:
            ctx.prec = digits + 10
            return format(Decimal(fr.numerator) / Decimal(fr.denominator), f".{digits}g")
    return fr


# ------------------------------------------------------------------------------------------------ Uniswap tick math
_SQRT_CACHE = {}


def sqrt_ratio_x96(tick: int) -> int:
    """sqrt(1.0001^tick) * 2^96 as the Q64.96 integer the protocol stores (rounded up, like TickMath)."""
    tick = int(tick)
    v = _SQRT_CACHE.get(tick)
    if v is None:
        with localcontext() as ctx:
            ctx.prec = 130
            r = (Decimal("1.0001") ** tick).sqrt() * Q96
            v = int(r.to_integral_value(rounding="ROUND_CEILING"))
        _SQRT_CACHE[tick] = v
    return v


def pool_price(tick: int, d0: int, d1: int, token0_is_quote: bool) -> Fraction:
    """price of the base token in quote tokens (human units) at `tick`"""
    s = sqrt_ratio_x96(tick)
    atomic = Fraction(s * s, Q96 * Q96)  # token1 per token0, smallest units
    human = atomic * Fraction(10) ** (d0 - d1)
    return 1 / human if token0_is_quote else human


def pool_price_decimal(tick, d0, d1, token0_is_quote, prec=48) -> Decimal:
    p = pool_price(tick, d0, d1, token0_is_quote)
    with localcontext() as ctx:
        ctx.prec = prec
        return Decimal(p.numerator) / Decimal(p.denominator)


def position_amounts(L: int, lower: int, upper: int, s: int, d0: int, d1: int):
    """(amount0, amount1) in human units of liquidity L in [lower, upper) at sqrt price s (Q64.96)."""
    if L == 0:
        return Fraction(0), Fraction(0)
    a, b = sqrt_ratio_x96(lower), sqrt_ratio_x96(upper)
    if a > b:
        a, b = b, a
    L = Fraction(L)
    if s <= a:
        return L * Q96 * (b - a) / (a * b) / 10**d0, Fraction(0)
    if s < b:
        return L * Q96 * (b - s) / (s * b) / 10**d0, L * (s - a) / Q96 / 10**d1
    return Fraction(0), L * (b - a) / Q96 / 10**d1


# ------------------------------------------------------------------------------------------------ the valuer
class Snap:
    """One observation: containers {cid: (quantity, value in account quote)}, net value, wallet, row."""

    __slots__ = ("row", "c", "nv", "wallet", "extra")

    def __init__(self, row):
        self.row = row
        self.c = {}
        self.nv = Fraction(0)
        self.wallet = {}
        self.extra = {}

    def put(self, cid, qty, value):
        self.c[cid] = (qty, value)
        self.nv += value


class FrozenValuer:
    def __init__(self, world):
        self.world = world
        self.start = pd.Timestamp(world["start"])
        self.n = int(world["n"])
        if world.get("interval", "1min") != "1min":
            raise HarnessError("C03 worlds run at the 1-minute interval")
        self.quote = world.get("quote", "USD")
        self.mw = {}
        for mw in world["markets"]:
            self.mw[mw["name"]] = mw
        self.kinds = {k: v["kind"] for k, v in self.mw.items()}
        self.decimals = {k.upper(): int(v) for k, v in world.get("tokens", {}).items()}
        self._prices = None
        if world.get("prices") is not None:
            self._prices = {k.upper(): v for k, v in world["prices"].items()}
            self._pcache = {}
        else:  # account prices come from the first market, a uniswap pool; account quote = its quote token
            m0 = world["markets"][0]
            if m0["kind"] != "uni":
                raise HarnessError("world without prices must start with a uniswap market")
            self.quote = m0["quote"].upper()
            self._price_pool = m0
        self.uni = {}
        for name, mw in self.mw.items():
            if mw["kind"] == "uni":
                t0, t1, q = mw["token0"].upper(), mw["token1"].upper(), mw["quote"].upper()
                ticks = mw["closeTick"]
                if any(t is None for t in ticks):
                    raise HarnessError("C03 worlds carry a close tick on every row")
                self.uni[name] = {"t0": t0, "t1": t1, "q": q, "t0q": q == t0, "d0": self.decimals[t0], "d1": self.decimals[t1],
                                  "ticks": [int(t) for t in ticks], "open0": int(mw["openTick"][0]) if mw.get("openTick") else int(ticks[0])}
        self.sq_pool = {}  # squeeth market name -> pool market name
        for name, mw in self.mw.items():
            if mw["kind"] == "squeeth":
                self.sq_pool[name] = mw["pool"]["name"] if isinstance(mw["pool"], dict) else mw["pool"]
        self.drb_hours = {}
        for name, mw in self.mw.items():
            if mw["kind"] == "deribit":
                self.drb_hours[name] = {pd.Timestamp(h["t"]): h for h in mw["hours"]}
        self._glp_price = {}

    # ---------------------------------------------------------------------------------------------- rows and prices
    def row_of(self, sim) -> int:
        if sim.bar < 0 or sim.snapshot is None:
            return 0
        ts = pd.Timestamp(sim.snapshot.timestamp)
        r = (ts - self.start) / ONE_MIN
        if r != int(r) or not (0 <= r < self.n):
            raise HarnessError(f"bar timestamp {ts} is not a row of the world")
        return int(r)

    def time_of(self, row):
        return self.start + row * ONE_MIN

    def uni_tick(self, name, row) -> int:
        """the tick behind the pool's price column at `row`: the previous row's close (row 0: the opening tick)"""
        u = self.uni[name]
        return u["open0"] if row == 0 else u["ticks"][row - 1]

    def uni_price(self, name, row) -> Fraction:
        u = self.uni[name]
        return pool_price(self.uni_tick(name, row), u["d0"], u["d1"], u["t0q"])

    def price(self, token, row) -> Fraction:
        token = token.upper()
        if token == self.quote or (token == "USD" and self.quote == "USD"):
            return Fraction(1)
        if self._prices is None:
            mw = self._price_pool
            u = self.uni[mw["name"]]
            base = u["t1"] if u["t0q"] else u["t0"]
            if token == base:
                return self.uni_price(mw["name"], row)
            raise HarnessError(f"no account price for {token}")
        key = (token, row)
        v = self._pcache.get(key)
        if v is None:
            col = self._prices.get(token)
            if col is None:
                raise HarnessError(f"no account price for {token}")
            v = self._pcache[key] = F(col[row])
        return v

    def quote_factor(self, market_quote, row) -> Fraction:
        return Fraction(1) if market_quote.upper() == self.quote else self.price(market_quote, row)

    # ---------------------------------------------------------------------------------------------- snapshot
    def snapshot(self, sim) -> Snap:
        row = self.row_of(sim)
        sn = Snap(row)
        for tok, asset in sim.broker.assets.items():
            bal = F(asset.balance)
            sn.wallet[tok.name] = bal
            sn.put(("wallet", tok.name), bal, bal * self.price(tok.name, row))
        lent = {}  # pool name -> set of position keys counted with a squeeth vault
        for name, kind in self.kinds.items():
            if kind == "squeeth":
                m = sim.markets[name]
                for v in m.vault.values():
                    if v.uni_nft_id is not None:
                        lent.setdefault(self.sq_pool[name], set()).add((int(v.uni_nft_id.lower_tick), int(v.uni_nft_id.upper_tick)))
        for name, kind in self.kinds.items():
            m = sim.markets[name]
            getattr(self, "_snap_" + kind)(sn, sim, name, m, row, lent)
        return sn

    def _snap_uni(self, sn, sim, name, m, row, lent):
        u = self.uni[name]
        s = sqrt_ratio_x96(self.uni_tick(name, row))
        p = self.uni_price(name, row)
        qf = self.quote_factor(u["q"], row)
        for key, pos in m.positions.items():
            lo, hi = int(key.lower_tick), int(key.upper_tick)
            L = int(pos.liquidity)
            if L != pos.liquidity:
                raise HarnessError("non-integer liquidity")
            a0, a1 = position_amounts(L, lo, hi, s, u["d0"], u["d1"]) if L >= 0 else tuple(-x for x in position_amounts(-L, lo, hi, s, u["d0"], u["d1"]))
            p0, p1 = F(pos.pending_amount0), F(pos.pending_amount1)
            counted = (not pos.transferred) or ((lo, hi) in lent.get(name, ()))

            def val(x0, x1):
                base, quote = (x1, x0) if u["t0q"] else (x0, x1)
                return (base * p + quote) * qf if counted else Fraction(0)

            sn.put(("uni", name, lo, hi, "liq"), Fraction(L), val(a0, a1))
            sn.put(("uni", name, lo, hi, "pend0"), p0, val(p0, Fraction(0)))
            sn.put(("uni", name, lo, hi, "pend1"), p1, val(Fraction(0), p1))
            sn.extra[("uni", name, lo, hi)] = {"a0": a0, "a1": a1, "p0": p0, "p1": p1, "L": L, "transferred": bool(pos.transferred), "counted": counted,
                                               "v0": Fraction(abs(L) * Q96, s) / 10 ** u["d0"], "v1": Fraction(abs(L) * s, Q96) / 10 ** u["d1"]}

    def _aave_state(self, m):
        sup = getattr(m, "_supplies", None)
        bor = getattr(m, "_borrows", None)
        if isinstance(sup, dict) and isinstance(bor, dict):
            return ({k.name: F(v.base_amount) for k, v in sup.items()}, {k.name: F(v.base_amount) for k, v in bor.items()})
        return ({k.name: F(m.get_supply(k).base_amount) for k in m.supply_keys}, {k.name: F(m.get_borrow(k).base_amount) for k in m.borrow_keys})

    def _snap_aave(self, sn, sim, name, m, row, lent):
        mw = self.mw[name]
        sup, debt = self._aave_state(m)
        for t in sorted(sup):
            idx = F(mw["liquidity_index"][t][row])
            amt = sup[t] * idx
            sn.put(("aave", name, t, "supply"), sup[t], amt * self.price(t, row))
            sn.extra[("aave", name, t, "supply")] = amt
        for t in sorted(debt):
            idx = F(mw["variable_borrow_index"][t][row])
            amt = debt[t] * idx
            sn.put(("aave", name, t, "debt"), debt[t], -amt * self.price(t, row))
            sn.extra[("aave", name, t, "debt")] = amt

    def _snap_squeeth(self, sn, sim, name, m, row, lent):
        mw = self.mw[name]
        weth, osq = F(mw["WETH"][row]), F(mw["OSQTH"][row])
        for key, v in sorted(m.vault.items(), key=lambda kv: kv[0].id):
            coll, short = F(v.collateral_amount), F(v.osqth_short_amount)
            sn.put(("sq", name, int(key.id), "coll"), coll, coll * weth)
            sn.put(("sq", name, int(key.id), "short"), short, -short * osq * weth)

    def reported_rebase(self, sim, sn) -> Fraction:
        """reported NV - this valuation: the oSQTH inside LP positions held by vaults is reported at the index price
        nf * TWAP(ETH) / 1e4 instead of the pool price (controller._getEffectiveCollateral); float TWAP."""
        out = Fraction(0)
        for name, pool in self.sq_pool.items():
            m = sim.markets[name]
            mw = self.mw[name]
            row = sn.row
            lo_row = max(0, row - 6)
            xs = [float(D(mw["WETH"][i])) for i in range(lo_row, row + 1)]
            twap = math.exp(sum(math.log(x) for x in xs) / len(xs))
            index = F(mw["norm_factor"][row]) * Fraction(twap) / 10000
            weth, osq = F(mw["WETH"][row]), F(mw["OSQTH"][row])
            for v in m.vault.values():
                if v.uni_nft_id is None:
                    continue
                e = sn.extra.get(("uni", pool, int(v.uni_nft_id.lower_tick), int(v.uni_nft_id.upper_tick)))
                if e is None:
                    continue
                out += (e["a1"] + e["p1"]) * (index - osq) * weth
        return out

    def _snap_deribit(self, sn, sim, name, m, row, lent):
        mw = self.mw[name]
        tok = mw["token"].upper()
        step = Decimal("0.000001") if tok == "ETH" else Decimal("0.00000001")
        pf = self.price(tok, row)
        cash = F(m.balance)
        sn.put(("drb", name, "cash"), cash, cash * pf)
        hour = self.drb_hours[name].get(self.time_of(row).floor("1h"))
        for inst in sorted(m.positions):
            amt = F(m.positions[inst].amount)
            r = None if hour is None else hour["rows"].get(inst)
            if r is None:
                mark = Fraction(0)
            else:
                with localcontext() as ctx:
                    ctx.prec = 60
                    mark = Fraction(D(r["mark"]).quantize(step, rounding=ROUND_HALF_UP))
            sn.put(("drb", name, "opt", inst), amt, amt * mark * pf)

    def glp_price(self, name, row) -> Fraction:
        """the glp_price cell of the data file: aum / 1e12 / supply written with 16 significant digits"""
        key = (name, row)
        v = self._glp_price.get(key)
        if v is None:
            mw = self.mw[name]
            glp, aum = int(mw["glp"][row]), int(mw["aum"][row])
            with localcontext() as ctx:
                ctx.prec = 35
                cell = format((Decimal(aum) / Decimal(10**12) / Decimal(glp)) if glp else Decimal(0), ".16g")
            v = self._glp_price[key] = Fraction(Decimal(cell))
        return v

    def _snap_gmx1(self, sn, sim, name, m, row, lent):
        mw = self.mw[name]
        glp, reward = F(m.glp_amount), F(m.reward)
        sn.put(("gmx1", name, "glp"), glp, glp * self.glp_price(name, row))
        sn.put(("gmx1", name, "reward"), reward, reward * Fraction(int(mw["price"]["WAVAX"][row]), 10**30))

    def _snap_gmx2(self, sn, sim, name, m, row, lent):
        mw = self.mw[name]
        gm = F(float(m.amount))
        pv, supply = Fraction(float(mw["poolValue"][row])), Fraction(float(mw["marketTokensSupply"][row]))
        sn.put(("gmx2", name, "gm"), gm, gm * pv / supply)
