"""C14 - Squeeth vaults: 150 % collateral rule, TWAP pricing, liquidation amounts.

Real: SqueethMarket.open_deposit_mint(_by_collat_rate) / deposit / deposit_uni_position / withdraw_uni_position /
burn_and_withdraw / liquidate / update -> liquidate -> _reduce_debt -> _liquidate / get_twap_price /
get_vault_status / get_collat_ratio_and_liq_price, together with the real WETH/oSQTH UniLpMarket, inside the real
Actuator.run bar loop.
Oracle: dsim/ref/squeeth.py (DESIGN Appendix A.4) evaluated on my own copy of the frames and on the public vault /
position / wallet state: three-valued accept/reject at the 1.5x frontier and the 0.5 ETH floor, accepted => safe on
the real post-state, liquidated iff unsafe at bar end, reduce-debt and liquidation amounts, non-negativity, wallet
deltas.
"""
import math
from decimal import Decimal
from fractions import Fraction

import pandas as pd

from ..sim import Sim, Oracle, HarnessError
from ..worlds import uni as U  # noqa: F401  (registers the uni builder and ops)
from ..worlds import squeeth as S
from ..ref import squeeth as Ref
from ..ref.squeeth import F
from .. import rng as R
from .. import donors as DN

ID = "C14"

# ---- tolerances ---------------------------------------------------------------------------------------------------
BAND = Ref.BAND  # 1e-11 relative where the TWAP enters (float math.log/pow in calc_twap_price: about 1e-14 at worst)
EXACT = Fraction(1, 10**30)  # "exact elsewhere": demeter computes with 35-digit Decimals; 1e-30 relative is rounding
LP_TOL = Fraction(1, 10**12)  # LP token amounts: Q64.96 integer sqrt prices vs my 60-digit sqrt (relative to the
#                               position's size); far below the 1e-11 band, far above the ~1e-28 representation error
SNAP = Fraction(1, 10**5)  # Asset.sub empties a wallet whose balance is within 1e-5 (relative) of the amount taken


def _frac(x):
    return F(x) if not isinstance(x, Fraction) else x


def _close(a, b, tol, scale=None):
    a, b = _frac(a), _frac(b)
    if a == b:
        return True
    s = max(abs(a), abs(b)) if scale is None else max(abs(a), abs(b), abs(_frac(scale)))
    return abs(a - b) <= tol * s


def _f(x):
    if isinstance(x, Fraction):
        return format(Decimal(x.numerator) / Decimal(x.denominator), ".30g")
    return x


# =================================================================================================== generation
PHASES = ["before_bar", "trigger", "on_bar", "on_bar", "after_bar"]
ORDER = ["initialize", "before_bar", "trigger", "on_bar", "after_bar", "notify"]
EPS = ["1e-2", "1e-3", "1e-4", "1e-6", "1e-7", "1e-8", "3e-9", "1e-10", "1e-12", "-1e-12", "-1e-10", "-3e-9", "-1e-8",
       "-1e-7", "-1e-6", "-1e-4", "-1e-3", "-1e-2"]
DEPOSITS = ["0.5", "0.50000001", "0.6", "1", "2", "5", "10", "25", "0.4999999", "0.3", "0.75"]


def _rate(rp):
    r = rp.random()
    if r < 0.45:
        return str(Decimal("1.5") * (1 + Decimal(rp.choice(EPS))))
    return rp.choice(["1.6", "1.75", "2", "2", "2.5", "3", "5", "1.51", "1.2", "1.0", "1.499"])


def generate(seed: int, tier: str = "quick") -> dict:
    rw = R.sub(seed, "world")
    rp = R.sub(seed, "program")
    rf = R.sub(seed, "faults")
    n = rw.choice([8, 10, 12, 16, 20, 24, 30, 40] if tier == "quick" else [10, 16, 24, 40, 60, 80])
    start = pd.Timestamp("2023-08-13 00:00:00") + pd.Timedelta(minutes=rw.randint(0, 2000))
    still = rw.random() < 0.5
    # a history longer than a day (5-minute bars): "the trailing seven minutes" are seven minutes of THAT day
    two_days = R.sub(seed, "two_days").random() < 0.03
    if two_days:
        n, still = 1440 + R.sub(seed, "two_days_n").choice([25, 60, 120]), False
    p0 = math.exp(rw.uniform(math.log(700), math.log(4500)))
    vol = 0.0 if still else rw.choice([0.0002, 0.001, 0.004, 0.01])
    if two_days:
        vol = R.sub(seed, "two_days_vol").choice([0.0005, 0.001, 0.002])
    eth = S.gen_eth_path(rw, n, p0, vol)
    nf0 = rw.uniform(0.15, 0.95)
    prem0 = rw.uniform(-0.02, 0.08)
    t0 = S.tick_of_osqth_price(nf0 * p0 / 1e4 * (1 + prem0))
    sp = S.POOL_SPACING

    program, faults = [], []

    def add(bar, op, m, a, phase=None):
        phase = "initialize" if bar < 0 else (phase or rp.choice(PHASES))
        program.append({"bar": bar, "phase": phase, "op": op, "m": m, "a": a})

    # ---- vault plans
    nv = rp.choice([1, 1, 1, 2, 2, 3])
    plans = []
    used_ranges = set()
    for j in range(nv):
        b0 = rp.randint(-1, max(0, n // 3))
        dep = rp.choice(DEPOSITS)
        rate = _rate(rp)
        with_lp = rp.random() < 0.45
        pos_arg = None
        if with_lp:
            style = rp.random()
            w = rp.choice([1, 2, 4, 8, 20, 60])
            if style < 0.6:
                lo = (t0 // sp) * sp - rp.randint(0, w) * sp
            elif style < 0.8:
                lo = (t0 // sp) * sp + rp.randint(1, 6) * sp  # range above the current tick: one-sided
            else:
                lo = (t0 // sp) * sp - (w + rp.randint(1, 6)) * sp  # range below: the other side
            hi = lo + w * sp
            while (lo, hi) in used_ranges:
                lo, hi = lo - sp, hi + sp
            used_ranges.add((lo, hi))
            a = {"lo": lo, "hi": hi, "base": {"f": "wallet:OSQTH", "x": str(round(rp.uniform(0.05, 0.9), 3))},
                 "quote": rp.choice(["0.2", "1", "3", "10", "0"])}
            lb = rp.randint(-1, b0)
            add(lb, "uni.add_by_tick", "pool", a, phase="before_bar" if lb == b0 and b0 >= 0 else None)
            pos_arg = {"lo": lo, "hi": hi}
        how = rp.random()
        lp_in_open = with_lp and rp.random() < 0.5
        open_phase = None if b0 < 0 else rp.choice(["trigger", "on_bar", "after_bar"])
        if how < 0.55:
            a = {"deposit": dep, "rate": rate}
            if lp_in_open:
                a["pos"] = pos_arg
            add(b0, "sq.open_deposit_mint_by_collat_rate", "sq", a, phase=open_phase)
            r0 = float(rate)
        else:
            eps = rp.choice(EPS + ["0.1", "0.5", "1", "-0.2"])
            a = {"deposit": dep, "mint": {"frontier": {"eps": eps}}}
            if lp_in_open:
                a["pos"] = pos_arg
            add(b0, "sq.open_deposit_mint", "sq", a, phase=open_phase)
            r0 = 1.5 * (1 + float(eps))
        if with_lp and not lp_in_open:
            lb2 = rp.randint(max(b0, 0), min(n - 1, max(b0, 0) + 3))
            add(lb2, "sq.deposit_uni_position", "sq", {"vault": {"i": j}, "pos": pos_arg}, phase="after_bar")
        plans.append({"bar": b0, "r0": r0, "lp": with_lp})

    # ---- other operations
    nother = rp.choice([0, 1, 2, 3, 4, 6, 9, 14])
    for _ in range(nother):
        b = rp.randint(0, n - 1)
        v = {"i": rp.randint(0, nv - 1)}
        k = rp.random()
        if k < 0.16:  # mint more, on the frontier or a share of the current debt
            mint = {"frontier": {"eps": rp.choice(EPS + ["0.05", "0.3"])}} if rp.random() < 0.7 else \
                {"f": f"sqshort:sq#{v['i']}", "x": rp.choice(["0.01", "0.1", "0.5", "2"])}
            a2 = {"vault": v, "deposit": rp.choice(["0", "0", "0.1", "1"]), "mint": mint}
            if rp.random() < 0.2:  # an LP position handed in with the same call, on a vault that already exists
                a2["pos"] = {"i": rp.randint(0, 3), "any": rp.random() < 0.3}
            add(b, "sq.open_deposit_mint", "sq", a2)
        elif k < 0.24:
            add(b, "sq.deposit", "sq", {"vault": v, "amount": rp.choice(["0.01", "0.1", "0.5", "2", {"f": "wallet:WETH", "x": "1.5"}])})
        elif k < 0.46:  # collateral withdrawal: frontier, floor, share, all, more than all; with or without burning
            r = rp.random()
            if r < 0.45:
                wd = {"frontier": {"eps": rp.choice(EPS + ["0.05", "0.3"])}}
            elif r < 0.7:
                wd = {"floor": {"eps": rp.choice(EPS)}}
            else:
                wd = {"f": f"sqcoll:sq#{v['i']}", "x": rp.choice(["0.01", "0.2", "0.5", "1", "3"])}
            burn = rp.choice(["0", "0", "0", {"f": f"sqshort:sq#{v['i']}", "x": rp.choice(["0.1", "0.5", "1", "1.5"])}])
            add(b, "sq.burn_and_withdraw", "sq", {"vault": v, "burn": burn, "withdraw": wd})
        elif k < 0.52:  # burn only
            add(b, "sq.burn_and_withdraw", "sq", {"vault": v, "burn": {"f": f"sqshort:sq#{v['i']}", "x": rp.choice(["0.05", "0.3", "1"])}, "withdraw": "0"})
        elif k < 0.62:
            add(b, "sq.withdraw_uni_position", "sq", {"vault": v, "pos": {"vault": v["i"]} if rp.random() < 0.85 else {"i": rp.randint(0, 3), "any": True}})
        elif k < 0.67:
            add(b, "sq.deposit_uni_position", "sq", {"vault": v, "pos": {"i": rp.randint(0, 3), "any": rp.random() < 0.3}})
        elif k < 0.72:
            add(b, "sq.liquidate", "sq", {"vault": v})
        elif k < 0.77:
            add(b, "sq.read_twap", "sq", {"token": rp.choice(["WETH", "WETH", "OSQTH"]), "back": rp.choice([0, 0, 1, 3, 8, 20])})
        elif k < 0.82:
            add(b, "sq.read_collat_ratio", "sq", {"vault": v})
        elif k < 0.86:
            add(b, "sq.read_vault_status", "sq", {"vault": v})
        elif k < 0.88:
            add(b, "sq.read_balance", "sq", {})
        elif k < 0.92:
            add(b, "sq.buy_squeeth", "sq", {"osqth": rp.choice(["1", "10", "100"])} if rp.random() < 0.5 else {"eth": rp.choice(["0.1", "1"])})
        elif k < 0.95:
            add(b, "sq.sell_squeeth", "sq", {"osqth": {"f": "wallet:OSQTH", "x": rp.choice(["0.1", "0.5", "1.2"])}})
        elif k < 0.975:  # unknown vault
            add(b, "sq.burn_and_withdraw", "sq", {"vault": {"id": 77}, "burn": "0", "withdraw": "1"})
        else:  # new vault at the floor
            add(b, "sq.open_deposit_mint", "sq", {"deposit": rp.choice(["0.5", "0.49999999", "0.500000001"]), "mint": {"frontier": {"eps": "0.2"}}})

    # ---- hostile history, placed relative to the vault plans
    first_open = max(0, min(p["bar"] for p in plans))
    nf_jumps, prem_jumps, osq_spikes = [], [], []
    heavy = False
    nfault = rf.choice([0, 1, 1, 2, 2, 3, 4])
    for _ in range(nfault):
        kind = rf.choice(["price_shock", "price_shock", "twap_spike", "twap_spike", "nf_drift", "lp_one_sided", "lp_fees_pending"])
        if first_open + 1 > n - 1:
            break
        b = rf.randint(first_open + 1, n - 1)
        if kind == "price_shock":
            plan = rf.choice(plans)
            delta = rf.choice([-0.3, -0.01, -1e-4, -1e-6, 1e-6, 1e-4, 1e-3, 0.01, 0.05, 0.2, 0.6, 1.5, 4.0])
            f = max(plan["r0"], 0.2) / 1.5 * (1 + delta)
            for j in range(b, n):
                eth[j] *= f
            faults.append({"kind": kind, "bar": b, "factor": f})
        elif kind == "twap_spike":
            g = rf.choice([1.02, 1.3, 1.8, 3.0, 0.97, 0.7, 0.4])
            eth[b] *= g
            if rf.random() < 0.4:
                osq_spikes.append((max(b - 1, 0), g))
            faults.append({"kind": kind, "bar": b, "factor": g})
        elif kind == "nf_drift":
            g = rf.choice([1 + 3e-9, 1 + 1e-7, 1 + 1e-5, 1.001, 1.05, 1.3, 2.0, 0.9, 1 - 1e-6])
            nf_jumps.append((b, g))
            faults.append({"kind": kind, "bar": b, "factor": g})
        elif kind == "lp_one_sided":
            g = rf.choice([0.4, 0.7, 0.9, 1.15, 1.5, 2.5])
            prem_jumps.append((b, g))
            faults.append({"kind": kind, "bar": b, "factor": g})
        else:
            heavy = True
            faults.append({"kind": kind, "bar": 0})
    nf_jumps = list(dict(nf_jumps).items())
    prem_jumps = list(dict(prem_jumps).items())
    osq_spikes = list(dict(osq_spikes).items())

    mw = S.gen_squeeth_market(
        rw, "sq", n, {"WETH": eth}, pool_name="pool", nf0=nf0, nf_jumps=nf_jumps, premium0=prem0,
        premium_vol=0.0 if still else None, premium_jumps=prem_jumps, osqth_spikes=osq_spikes, heavy_fees=heavy,
    )
    if still:
        pass
    markets = S.split_markets(mw)
    world = {
        "start": str(start), "n": n, "interval": "1min", "tokens": {"WETH": 18, "OSQTH": 18},
        "assets": {"WETH": rw.choice(["30", "100", "1000"]), "OSQTH": rw.choice(["0", "40", "400", "4000"])},
        "quote": "USD", "prices": S.squeeth_price_columns(mw), "markets": markets,
    }
    # resampled runs: the same history on 2- or 5-minute bars (squeeth frame and pool price resampled with 'first');
    # the TWAP window stays seven minutes of time, i.e. 4 rows / 2 rows
    k = rw.choice([1, 1, 1, 1, 1, 2, 5])
    if two_days:
        k = 5
        rl = R.sub(seed, "two_days_reads")
        for _ in range(3):
            program.append({"bar": rl.randint(1440, n - 1), "phase": rl.choice(PHASES), "op": "sq.read_twap", "m": "sq",
                            "a": {"token": rl.choice(["WETH", "OSQTH"]), "back": rl.choice([0, 0, 1, 3])}})
        faults.append({"kind": "history_longer_than_a_day", "bar": 0})
    if k > 1 and n >= 3 * k:
        world["interval"] = f"{k}min"
        labels = DN.bar_times(world)
        bar_of = {}
        for b, t in enumerate(labels):
            bar_of[t] = b
        for o in program:
            if o["bar"] >= 0:
                ts = pd.Timestamp(world["start"]) + pd.Timedelta(minutes=o["bar"])
                m_ = ts.hour * 60 + ts.minute
                o["bar"] = bar_of[ts.normalize() + pd.Timedelta(minutes=(m_ // k) * k)]
        faults.append({"kind": f"resampled_{k}min", "bar": 0})
    program.sort(key=lambda o: (o["bar"], ORDER.index(o["phase"])))
    return {"property": ID, "seed": seed, "world": world, "program": program, "faults": faults}


# =================================================================================================== frontier amounts
def _ref_of(sim) -> Ref.RefWorld:
    ref = getattr(sim, "_c14_ref", None)
    if ref is None:
        sq = next(m for m in sim.world["markets"] if m["kind"] == "squeeth")
        md = sim.mdata[sq["name"]]
        k = DN.interval_minutes(sim.world)
        firsts = None
        if k > 1:
            start = pd.Timestamp(sim.world["start"])
            firsts = [DN.minute_of(sim.world, max(t, start)) for t in DN.bar_times(sim.world)]
        ref = sim._c14_ref = Ref.RefWorld(md["mw"], md["pool_mw"], firsts, k)
    return ref


def _lp_state(pool, pos):
    if pos is None:
        return None
    p = pool.positions.get(pos)
    if p is None:
        return {"lo": pos.lower_tick, "hi": pos.upper_tick, "liquidity": 0, "pending0": Decimal(0), "pending1": Decimal(0), "missing": True, "transferred": False}
    return {"lo": pos.lower_tick, "hi": pos.upper_tick, "liquidity": int(p.liquidity), "pending0": Decimal(p.pending_amount0),
            "pending1": Decimal(p.pending_amount1), "missing": False, "transferred": bool(p.transferred)}


def _q18(fr: Fraction) -> Decimal:
    if fr <= 0:
        return Decimal(0)
    return Decimal(int(fr * 10**18)) / Decimal(10**18)


def resolve_frontier(sim, m, kind, vk, spec, ctx):
    """Amount that puts the vault at 1.5x(1+eps) / at the 0.5(1+eps) ETH floor, from my reference TWAP and the public state."""
    ref = _ref_of(sim)
    i = max(sim.bar, 0)
    v = m.vault.get(vk) if vk is not None else None
    coll = F(v.collateral_amount) if v is not None else Fraction(0)
    short = F(v.osqth_short_amount) if v is not None else Fraction(0)
    pos = v.uni_nft_id if v is not None else None
    k = ref.index_factor(i)
    if kind == "mint":
        coll += F(ctx.get("deposit") or 0) if (ctx.get("deposit") or 0) > 0 else 0
        if ctx.get("pos") is not None and pos is None:
            pos = ctx["pos"]
        C = ref.collateral(coll, _lp_state(m.squeeth_uni_pool, pos), i)
        eps = F(spec["frontier"]["eps"])
        target_short = C / (Ref.CR * (1 + eps)) / k
        return _q18(target_short - short)
    if kind == "withdraw":
        burn = F(ctx.get("burn") or 0)
        short_after = short - min(max(burn, 0), short)
        C = ref.collateral(coll, _lp_state(m.squeeth_uni_pool, pos), i)
        if "floor" in spec:
            keep = Ref.MIN_COLLATERAL * (1 + F(spec["floor"]["eps"]))
        else:
            keep = Ref.CR * (1 + F(spec["frontier"]["eps"])) * short_after * k
        return _q18(C - keep)
    raise HarnessError(f"frontier amount for {kind}")


S.FRONTIER_RESOLVER[0] = resolve_frontier


# =================================================================================================== oracle
class VaultOracle(Oracle):
    def start(self, sim):
        sq = next(m for m in sim.world["markets"] if m["kind"] == "squeeth")
        self.name = sq["name"]
        self.m = sim.markets[self.name]
        self.pool = self.m.squeeth_uni_pool
        self.ref = _ref_of(sim)
        self.pre = None
        self.faults = sim.scenario.get("faults", [])
        self.update_seen = 0
        sim.sq_call = None
        orig = self.m.update
        oracle = self

        def observed_update():
            pre = oracle.snapshot(sim)
            n_act = len(sim.actuator.actions)
            orig()
            post = oracle.snapshot(sim)
            oracle.update_seen += 1
            oracle.check_bar_end(sim, pre, post, sim.actuator.actions[n_act:])

        self.m.update = observed_update

    # ------------------------------------------------------------------------------------------- observation
    def snapshot(self, sim):
        m = self.m
        vaults = {}
        for k, v in m.vault.items():
            vaults[k.id] = {
                "coll": Decimal(v.collateral_amount), "short": Decimal(v.osqth_short_amount), "nft": v.uni_nft_id,
                "lp": _lp_state(self.pool, v.uni_nft_id),
            }
        w = sim.wallet()
        positions = {k: _lp_state(self.pool, k) for k in self.pool.positions.keys()}
        return {"i": max(sim.bar, 0), "vaults": vaults, "weth": Decimal(w.get("WETH", 0)), "osqth": Decimal(w.get("OSQTH", 0)), "positions": positions}

    def evaluate(self, coll, short, lp, i):
        C = self.ref.collateral(coll, lp, i)
        D = self.ref.debt(short, i)
        return C, D

    def _fault_probes(self, sim, i, lp):
        for f in self.faults:
            if f["kind"] == "twap_spike" and i - 6 <= f["bar"] <= i - 1:
                sim.count("fault:twap_spike_in_window_not_current")
            elif f["kind"] == "twap_spike" and f["bar"] == i - 7:
                sim.count("fault:twap_spike_just_outside_window")
            elif f["kind"] == "price_shock" and f["bar"] <= i <= f["bar"] + 6:
                sim.count("fault:price_shock_in_window")
            elif f["kind"] == "nf_drift" and f["bar"] == i:
                sim.count("fault:nf_drift")
        if lp is not None and not lp.get("missing"):
            a0, a1 = self.ref.lp_amounts(lp["liquidity"], lp["lo"], lp["hi"], i)
            if lp["liquidity"] > 0 and (a0 == 0 or a1 == 0):
                sim.count("fault:lp_one_sided")
            if lp["pending0"] > 0 or lp["pending1"] > 0:
                sim.count("fault:lp_fees_pending")

    def _spot_probe(self, sim, coll, short, lp, i, verdict):
        """spot-safe-but-TWAP-unsafe and the converse (what a spot-price implementation would have decided)."""
        if short <= 0:
            return
        k_spot = self.ref.nf(i) * self.ref.eth[i] / Ref.INDEX_SCALE
        e, o = self.ref.lp_redeem(lp, i)
        spot = Ref.ratio_verdict(F(coll) + e + o * k_spot, F(short) * k_spot)
        if verdict == "unsafe" and spot == "safe":
            sim.count("probe:spot_safe_but_twap_unsafe")
        if verdict == "safe" and spot == "unsafe":
            sim.count("probe:twap_safe_but_spot_unsafe")

    def _nonneg(self, sim, snap, where, pre=None):
        """vault amounts never go negative; reported where a field *becomes* negative (not again on every later step)."""
        for vid, v in snap["vaults"].items():
            before = (pre or {"vaults": {}})["vaults"].get(vid, {"coll": 0, "short": 0})
            if v["coll"] < 0 and before["coll"] >= 0:
                sim.violate("c14.nonneg", f"{where}:collateral_amount_negative", vault=vid, collateral_amount=v["coll"], short=v["short"])
            if v["short"] < 0 and before["short"] >= 0:
                sim.violate("c14.nonneg", f"{where}:osqth_short_amount_negative", vault=vid, short=v["short"])

    # ------------------------------------------------------------------------------------------- operations
    def before_op(self, sim, op):
        sim.sq_call = None
        self.pre = self.snapshot(sim)

    def after_op(self, sim, op, outcome):
        pre, post = self.pre, self.snapshot(sim)
        call = sim.sq_call
        kind = call["kind"] if (call and op["op"].startswith("sq.")) else op["op"]
        self._nonneg(sim, post, kind, pre)
        if not op["op"].startswith("sq.") or call is None or outcome["status"] == "skipped":
            return
        ok = outcome["status"] == "ok"
        h = getattr(self, "_op_" + kind, None)
        if h is not None:
            h(sim, call, pre, post, ok, outcome)

    # -- helpers
    def _wallet_sub(self, sim, site, token, before, after, amt):
        before, after, amt = F(before), F(after), F(amt)
        if _close(after, before - amt, EXACT, before):
            return
        if after == 0 and before > 0 and abs(before - amt) < SNAP * before:
            sim.count("probe:wallet_snapped_to_zero")
            return
        sim.violate("c14.wallet", f"{site}:{token}_wallet_delta", before=_f(before), after=_f(after), stated=_f(amt))

    def _wallet_add(self, sim, site, token, before, after, amt):
        before, after, amt = F(before), F(after), F(amt)
        if not _close(after, before + amt, EXACT, before):
            sim.violate("c14.wallet", f"{site}:{token}_wallet_delta", before=_f(before), after=_f(after), stated=_f(amt))

    def _vault_is(self, sim, site, post, vid, coll, short, nft):
        v = post["vaults"].get(vid)
        if v is None:
            sim.violate("c14.vault_delta", f"{site}:vault_missing", vault=vid)
            return
        if not _close(v["coll"], coll, EXACT, 1):
            sim.violate("c14.vault_delta", f"{site}:collateral_amount", vault=vid, got=v["coll"], want=_f(_frac(coll)))
        if not _close(v["short"], short, EXACT, 1):
            sim.violate("c14.vault_delta", f"{site}:osqth_short_amount", vault=vid, got=v["short"], want=_f(_frac(short)))
        if v["nft"] != nft:
            sim.violate("c14.vault_delta", f"{site}:uni_nft_id", vault=vid, got=str(v["nft"]), want=str(nft))

    def _others_unchanged(self, sim, site, pre, post, vid):
        for k, v in pre["vaults"].items():
            if k != vid and post["vaults"].get(k) != v:
                sim.violate("c14.vault_delta", f"{site}:other_vault_changed", vault=k)

    def _post_state_safe(self, sim, site, post, vid, i):
        """after an accepted mint / collateral withdrawal / LP withdrawal the vault, when it has debt, is >= 1.5x, >= 0.5 ETH"""
        v = post["vaults"].get(vid)
        if v is None or v["short"] <= 0:
            return
        C, D = self.evaluate(v["coll"], v["short"], v["lp"], i)
        if Ref.ratio_verdict(C, D) == "unsafe":
            sim.violate("c14.accept", f"{site}:post_state_below_1.5x", vault=vid, collateral=_f(C), debt=_f(D), ratio=_f(C / D))
        if Ref.floor_verdict(C) == "dust":
            sim.violate("c14.accept", f"{site}:post_state_below_0.5_eth", vault=vid, collateral=_f(C))

    def _verdict(self, sim, kind, coll, short, lp, i):
        C, D = self.evaluate(coll, short, lp, i)
        v = Ref.vault_verdict(C, F(short), D)
        cause = None
        if v == "reject":
            cause = "ratio" if Ref.ratio_verdict(C, D) == "unsafe" else "dust"
        self._fault_probes(sim, i, lp)
        if F(short) > 0:
            self._spot_probe(sim, coll, short, lp, i, Ref.ratio_verdict(C, D))
        return v, cause, C, D

    def _judge(self, sim, kind, verdict, cause, ok, relevant, preconditions_ok, outcome, C, D, has_lp):
        """three-valued accept/reject. relevant: the request is a mint / collateral withdrawal / LP withdrawal."""
        sim.count(f"probe:{kind}:{verdict}:{'accepted' if ok else 'rejected'}")
        if not ok and verdict == "reject":
            sim.count(f"probe:{kind}_rejected_by_{cause}")
        if verdict == "either":
            sim.count("probe:request_inside_band")
        sim.state(("op", kind, verdict, cause, ok, has_lp, bool(relevant)))
        if ok and verdict == "reject" and relevant:
            sim.violate("c14.accept", f"{kind}:accepted_unsafe:{cause}", collateral=_f(C), debt=_f(D), ratio=_f(C / D) if D else None)
        if (not ok) and verdict == "accept" and preconditions_ok:
            sim.violate("c14.reject", f"{kind}:rejected_safe", collateral=_f(C), debt=_f(D), ratio=_f(C / D) if D else None,
                        exc=outcome.get("exc"), msg=outcome.get("msg"))

    def _lp_deposit_ok(self, pre, vault_pre, pos):
        p = pre["positions"].get(pos)
        return p is not None and p["liquidity"] > 0 and not p["transferred"] and vault_pre["nft"] is None

    # -- open_deposit_mint / by collateral rate
    def _op_open_deposit_mint(self, sim, call, pre, post, ok, outcome, mint=None, kind="open_deposit_mint"):
        i = pre["i"]
        vk, dep, pos = call["vk"], call["deposit"], call["pos"]
        mint = call["mint"] if mint is None else mint
        new = vk is None
        if new:
            pv = {"coll": Decimal(0), "short": Decimal(0), "nft": None, "lp": None}
        else:
            pv = pre["vaults"].get(vk.id)
            if pv is None:
                sim.count("probe:unknown_vault")
                return
        dep_eff = dep if dep > 0 else Decimal(0)
        mint_eff = mint if mint > 0 else Decimal(0)
        pre_ok = dep_eff == 0 or F(dep_eff) * (1 + SNAP) < F(pre["weth"])
        lp, nft = pv["lp"], pv["nft"]
        if pos is not None:
            if self._lp_deposit_ok(pre, pv, pos):
                lp, nft = dict(pre["positions"][pos]), pos
            else:
                pre_ok = False
                sim.count("probe:lp_deposit_precondition_fails")
        coll2, short2 = F(pv["coll"]) + F(dep_eff), F(pv["short"]) + F(mint_eff)
        verdict, cause, C, D = self._verdict(sim, kind, coll2, short2, lp, i)
        if pos is not None and not self._lp_deposit_ok(pre, pv, pos):
            verdict_for_accept = verdict  # an accepted request would be judged on what it asked for
        self._judge(sim, kind, verdict, cause, ok, mint_eff > 0, pre_ok, outcome, C, D, lp is not None)
        if not ok:
            return
        res = outcome.get("result")
        vid = res[0].id if res is not None else (vk.id if vk else None)
        if new:
            if vid in pre["vaults"]:
                sim.violate("c14.vault_delta", f"{kind}:new_vault_id_reused", vault=vid)
        elif vid != vk.id:
            sim.violate("c14.vault_delta", f"{kind}:wrong_vault_returned", got=vid, want=vk.id)
        if res is not None and not _close(res[1], mint, EXACT):
            sim.violate("c14.vault_delta", f"{kind}:returned_mint_amount", got=res[1], want=mint)
        self._vault_is(sim, kind, post, vid, coll2, short2, nft)
        self._others_unchanged(sim, kind, pre, post, vid)
        self._wallet_sub(sim, kind, "WETH", pre["weth"], post["weth"], dep_eff)
        self._wallet_add(sim, kind, "OSQTH", pre["osqth"], post["osqth"], mint_eff)
        if mint_eff > 0:
            self._post_state_safe(sim, kind, post, vid, i)

    def _op_open_deposit_mint_by_collat_rate(self, sim, call, pre, post, ok, outcome):
        i = pre["i"]
        kind = "open_deposit_mint_by_collat_rate"
        rate, dep = F(call["rate"]), F(call["deposit"])
        if rate <= 0:
            return
        expected = dep / rate / self.ref.index_factor(i)
        if ok:
            stated = outcome["result"][1]
            if not _close(stated, expected, BAND):
                sim.violate("c14.twap", f"{kind}:mint_amount_for_rate", got=stated, want=_f(expected), rate=_f(rate))
            mint = Decimal(stated)
        else:
            mint = Decimal(expected.numerator) / Decimal(expected.denominator)
        self._op_open_deposit_mint(sim, call, pre, post, ok, outcome, mint=mint, kind=kind)

    def _op_deposit(self, sim, call, pre, post, ok, outcome):
        if not ok:
            return
        vk, amt = call["vk"], call["deposit"]
        pv = pre["vaults"].get(vk.id)
        if pv is None:
            sim.violate("c14.vault_delta", "deposit:accepted_on_unknown_vault", vault=vk.id)
            return
        self._vault_is(sim, "deposit", post, vk.id, F(pv["coll"]) + F(amt), pv["short"], pv["nft"])
        self._others_unchanged(sim, "deposit", pre, post, vk.id)
        self._wallet_sub(sim, "deposit", "WETH", pre["weth"], post["weth"], amt)
        self._wallet_add(sim, "deposit", "OSQTH", pre["osqth"], post["osqth"], 0)

    def _op_burn_and_withdraw(self, sim, call, pre, post, ok, outcome):
        kind = "burn_and_withdraw"
        i = pre["i"]
        vk, burn, wd = call["vk"], call["burn"], call["withdraw"]
        pv = pre["vaults"].get(vk.id)
        if pv is None:
            sim.count("probe:unknown_vault")
            if ok:
                sim.violate("c14.vault_delta", f"{kind}:accepted_on_unknown_vault", vault=vk.id)
            return
        b = min(F(burn), F(pv["short"])) if burn > 0 else Fraction(0)
        w = min(F(wd), F(pv["coll"])) if wd > 0 else Fraction(0)
        pre_ok = b == 0 or b * (1 + SNAP) < F(pre["osqth"])
        if F(pv["coll"]) < 0:
            pre_ok = False
        coll2, short2 = F(pv["coll"]) - w, F(pv["short"]) - b
        verdict, cause, C, D = self._verdict(sim, kind, coll2, short2, pv["lp"], i)
        self._judge(sim, kind, verdict, cause, ok, w > 0, pre_ok, outcome, C, D, pv["lp"] is not None)
        if not ok:
            return
        if wd > 0 and F(wd) > F(pv["coll"]):
            sim.count("probe:withdraw_clamped_to_collateral")
        if burn > 0 and F(burn) > F(pv["short"]):
            sim.count("probe:burn_clamped_to_debt")
        self._vault_is(sim, kind, post, vk.id, coll2, short2, pv["nft"])
        self._others_unchanged(sim, kind, pre, post, vk.id)
        self._wallet_sub(sim, kind, "OSQTH", pre["osqth"], post["osqth"], b)
        self._wallet_add(sim, kind, "WETH", pre["weth"], post["weth"], w)
        if w > 0:
            self._post_state_safe(sim, kind, post, vk.id, i)

    def _op_withdraw_uni_position(self, sim, call, pre, post, ok, outcome):
        kind = "withdraw_uni_position"
        i = pre["i"]
        vk, pos = call["vk"], call["pos"]
        pv = pre["vaults"].get(vk.id)
        if pv is None or pv["nft"] is None or pv["nft"] != pos:
            sim.count("probe:lp_withdraw_precondition_fails")
            if ok:
                sim.violate("c14.vault_delta", f"{kind}:accepted_without_that_lp", vault=vk.id, pos=str(pos))
            return
        p = pre["positions"].get(pos)
        pre_ok = p is not None and p["transferred"]
        verdict, cause, C, D = self._verdict(sim, kind, pv["coll"], pv["short"], None, i)
        self._judge(sim, kind, verdict, cause, ok, True, pre_ok, outcome, C, D, True)
        if not ok:
            return
        self._vault_is(sim, kind, post, vk.id, pv["coll"], pv["short"], None)
        self._others_unchanged(sim, kind, pre, post, vk.id)
        self._wallet_add(sim, kind, "WETH", pre["weth"], post["weth"], 0)
        self._wallet_add(sim, kind, "OSQTH", pre["osqth"], post["osqth"], 0)
        pp = post["positions"].get(pos)
        if pp is None or pp["transferred"] or pp["liquidity"] != p["liquidity"]:
            sim.violate("c14.vault_delta", f"{kind}:position_not_returned_intact", pos=str(pos))
        self._post_state_safe(sim, kind, post, vk.id, i)

    def _op_deposit_uni_position(self, sim, call, pre, post, ok, outcome):
        kind = "deposit_uni_position"
        vk, pos = call["vk"], call["pos"]
        pv = pre["vaults"].get(vk.id)
        if not ok:
            return
        if pv is None or not self._lp_deposit_ok(pre, pv, pos):
            sim.violate("c14.vault_delta", f"{kind}:accepted_without_precondition", vault=vk.id, pos=str(pos))
            return
        self._vault_is(sim, kind, post, vk.id, pv["coll"], pv["short"], pos)
        self._others_unchanged(sim, kind, pre, post, vk.id)
        self._wallet_add(sim, kind, "WETH", pre["weth"], post["weth"], 0)
        self._wallet_add(sim, kind, "OSQTH", pre["osqth"], post["osqth"], 0)
        sim.count("probe:lp_deposited")

    def _op_buy_squeeth(self, sim, call, pre, post, ok, outcome):
        if post["vaults"] != pre["vaults"]:
            sim.violate("c14.vault_delta", f"{call['kind']}:vault_changed_by_long_trade")

    _op_sell_squeeth = _op_buy_squeeth

    def _op_liquidate(self, sim, call, pre, post, ok, outcome):
        vk = call["vk"]
        pv = pre["vaults"].get(vk.id)
        if pv is None:
            return
        sim.count("probe:liquidate_called_by_strategy")
        n_new = outcome.get("new_actions", 0)
        acts = sim.actuator.actions[len(sim.actuator.actions) - n_new:] if n_new else []
        self._check_vault_liquidation(sim, "liquidate_op", vk.id, pre, post, acts, pre["i"], op_ok=ok, outcome=outcome)
        self._others_unchanged(sim, "liquidate_op", pre, post, vk.id)

    # -- reads
    def _op_read_twap(self, sim, call, pre, post, ok, outcome):
        if not ok:
            sim.violate("c14.twap", f"get_twap_price:{call['token']}:raised", exc=outcome.get("exc"), msg=outcome.get("msg"))
            return
        i = pre["i"] - int(call.get("back", 0))
        want = self.ref.twap_eth(i) if call["token"] == "WETH" else self.ref.twap_osq(i)
        sim.count("probe:twap_read")
        if call.get("back"):
            sim.count("probe:twap_read_as_of_an_earlier_bar")
        if len(set(self.ref.eth[j] for j in self.ref.window(i))) > 1:
            sim.count("probe:twap_read_window_not_flat")
        if not _close(outcome["result"], want, BAND):
            sim.violate("c14.twap", f"get_twap_price:{call['token']}", bar=i, got=outcome["result"], want=_f(want),
                        rows=len(self.ref.window(i)))

    def _op_read_collat_ratio(self, sim, call, pre, post, ok, outcome):
        pv = pre["vaults"].get(call["vk"].id)
        if pv is None or not ok:
            return
        C, D = self.evaluate(pv["coll"], pv["short"], pv["lp"], pre["i"])
        got = outcome["result"][0]
        want = C / D if D > 0 else Fraction(0)
        if not _close(got, want, BAND):
            sim.violate("c14.read", "get_collat_ratio_and_liq_price:ratio", got=got, want=_f(want))

    def _op_read_vault_status(self, sim, call, pre, post, ok, outcome):
        pv = pre["vaults"].get(call["vk"].id)
        if pv is None or not ok:
            return
        is_safe, is_dust = outcome["result"]
        if pv["short"] <= 0:
            if not is_safe or is_dust:
                sim.violate("c14.read", "get_vault_status:debt_free_vault", got=[is_safe, is_dust])
            return
        C, D = self.evaluate(pv["coll"], pv["short"], pv["lp"], pre["i"])
        r, f = Ref.ratio_verdict(C, D), Ref.floor_verdict(C)
        if (r == "safe" and not is_safe) or (r == "unsafe" and is_safe):
            sim.violate("c14.read", "get_vault_status:is_safe", got=is_safe, ratio=_f(C / D))
        if (f == "ok" and is_dust) or (f == "dust" and not is_dust):
            sim.violate("c14.read", "get_vault_status:is_dust", got=is_dust, collateral=_f(C))

    # ------------------------------------------------------------------------------------------- bar end
    def check_bar_end(self, sim, pre, post, actions):
        i = pre["i"]
        excess_total = Fraction(0)
        ambiguous_wallet = False
        for vid in pre["vaults"]:
            acts = [a for a in actions if getattr(a, "vault_id", None) == vid]
            ex = self._check_vault_liquidation(sim, "bar_end", vid, pre, post, acts, i)
            if ex is None:
                ambiguous_wallet = True
            else:
                excess_total += ex
        for vid in post["vaults"]:
            if vid not in pre["vaults"]:
                sim.violate("c14.liquidation", "bar_end:vault_appeared", vault=vid)
        self._nonneg(sim, post, "bar_end", pre)
        if not ambiguous_wallet:
            if not _close(post["osqth"], F(pre["osqth"]) + excess_total, LP_TOL, max(F(pre["osqth"]), excess_total, 1)):
                sim.violate("c14.wallet", "bar_end:OSQTH_wallet_delta", before=pre["osqth"], after=post["osqth"], excess=_f(excess_total))
        if post["weth"] != pre["weth"]:
            sim.violate("c14.wallet", "bar_end:WETH_wallet_delta", before=pre["weth"], after=post["weth"])

    def _check_vault_liquidation(self, sim, where, vid, pre, post, acts, i, op_ok=None, outcome=None):
        """Returns the oSQTH excess this vault must have sent to the wallet (None if undetermined)."""
        pv, qv = pre["vaults"][vid], post["vaults"].get(vid)
        if qv is None:
            sim.violate("c14.liquidation", f"{where}:vault_vanished", vault=vid)
            return Fraction(0)
        rd = [a for a in acts if type(a).__name__ == "ReduceDebtAction"]
        lq = [a for a in acts if type(a).__name__ == "LiquidationAction"]
        touched = (qv != pv) or bool(rd) or bool(lq)
        has_lp = pv["nft"] is not None
        short = F(pv["short"])
        if short <= 0:
            verdict = "safe"
            C = D = Fraction(0)
        else:
            C, D = self.evaluate(pv["coll"], pv["short"], pv["lp"], i)
            verdict = Ref.ratio_verdict(C, D)
            self._fault_probes(sim, i, pv["lp"])
            self._spot_probe(sim, pv["coll"], pv["short"], pv["lp"], i, verdict)
        ratio = _f(C / D) if D else None
        if op_ok is not None:  # strategy-called liquidate(): accepted iff unsafe
            if verdict == "safe" and op_ok:
                sim.violate("c14.liquidation", f"{where}:safe_vault_liquidated", vault=vid, ratio=ratio)
                return None
            if verdict == "unsafe" and not op_ok:
                sim.violate("c14.liquidation", f"{where}:unsafe_vault_not_liquidated", vault=vid, ratio=ratio, exc=outcome.get("exc"), msg=outcome.get("msg"))
                return None
            if not op_ok:
                return Fraction(0) if not touched else None
        if verdict == "safe":
            sim.state(("bar", "safe", has_lp, "none", "none"))
            if touched:
                sim.violate("c14.liquidation", f"{where}:safe_vault_liquidated", vault=vid, ratio=ratio,
                            before={k: str(v) for k, v in pv.items() if k != "lp"}, after={k: str(v) for k, v in qv.items() if k != "lp"})
                return None
            return Fraction(0)
        if verdict == "band":
            sim.count("probe:bar_end_ratio_inside_band")
            sim.state(("bar", "band", has_lp, "?", "?"))
            return None
        # ---- must be liquidated
        sim.count("probe:vault_unsafe_at_bar_end")
        if not touched:
            sim.violate("c14.liquidation", f"{where}:unsafe_vault_not_liquidated", vault=vid, ratio=ratio, collateral=_f(C), debt=_f(D))
            return Fraction(0)
        t_osq = self.ref.twap_osq(i)
        k = self.ref.index_factor(i)
        coll_scale = max(abs(C), Ref.MIN_COLLATERAL)
        excess = Fraction(0)
        step1 = "none"
        ambiguous = False
        if has_lp:
            lp = pv["lp"]
            eth_r, osq_r = self.ref.lp_redeem(lp, i)
            s0, s1 = self.ref.lp_scale(lp["liquidity"], lp["lo"], lp["hi"])
            s0, s1 = s0 + F(lp["pending0"]), s1 + F(lp["pending1"])
            m1 = Ref.reduce_debt(pv["coll"], short, eth_r, osq_r, t_osq)
            excess = m1["excess"]
            if len(rd) != 1:
                sim.violate("c14.liquidation", f"{where}:reduce_debt:action_count", vault=vid, got=len(rd))
                return None
            a = rd[0]
            if a.position != pv["nft"]:
                sim.violate("c14.liquidation", f"{where}:reduce_debt:wrong_position", vault=vid)
            detail = dict(vault=vid, lp_eth=_f(eth_r), lp_osqth=_f(osq_r), short_before=_f(short), eth_collateral=pv["coll"])
            for name, got, want, scale in (("withdrawn_eth_amount", a.withdrawn_eth_amount, eth_r, s0),
                                           ("withdrawn_osqth_amount", a.withdrawn_osqth_amount, osq_r, s1)):
                if not _close(got, want, LP_TOL, scale):
                    sim.violate("c14.liquidation", f"{where}:reduce_debt:{name}", got=got, want=_f(want), **detail)
                    return None  # everything after it is computed from the redeemed amounts; no consequential classes
            chk = [
                ("burn_amount", a.burn_amount, m1["burn"], LP_TOL, s1),
                ("excess", a.excess, m1["excess"], LP_TOL, s1),
                ("short_amount_after", a.short_amount_after, m1["short"], LP_TOL, max(s1, short)),
            ]
            bounty_payable = m1["bounty"] <= m1["collateral_gross"] * (1 - BAND)
            bad = False
            if bounty_payable:
                chk.append(("bounty", a.bounty, m1["bounty"], BAND, m1["bounty"]))
                chk.append(("collateral_after", a.collateral_after, m1["collateral"], BAND, max(m1["collateral_gross"], m1["bounty"])))
            else:
                sim.count("probe:reduce_debt_bounty_exceeds_vault_collateral")
                if F(a.bounty) > m1["bounty"] * (1 + BAND):
                    bad = True
                    sim.violate("c14.liquidation", f"{where}:reduce_debt:bounty_above_2pct", got=a.bounty, want=_f(m1["bounty"]), **detail)
                if F(a.collateral_after) < 0:
                    bad = True
                    sim.violate("c14.nonneg", f"{where}:reduce_debt:collateral_amount_negative", collateral_after=a.collateral_after,
                                bounty=a.bounty, **detail)
            for name, got, want, tol, scale in chk:
                if not _close(got, want, tol, scale):
                    bad = True
                    sim.violate("c14.liquidation", f"{where}:reduce_debt:{name}", got=got, want=_f(want), **detail)
            if bad:
                return None  # the later steps start from a different state; do not report consequences as new classes
            if qv["nft"] is not None:
                sim.violate("c14.liquidation", f"{where}:reduce_debt:lp_still_in_vault", vault=vid)
            pp = post["positions"].get(pv["nft"])
            if pp is not None and (pp["liquidity"] != 0 or pp["pending0"] != 0 or pp["pending1"] != 0):
                sim.violate("c14.liquidation", f"{where}:reduce_debt:lp_not_fully_redeemed", vault=vid)
            S1, gross, C1 = m1["short"], m1["collateral_gross"], m1["collateral"]
            if abs(osq_r - short) <= LP_TOL * max(s1, short):
                ambiguous = True  # whether any debt is left is inside the LP tolerance
            if not bounty_payable:
                ambiguous = True  # the property does not say what the bounty is when the vault cannot pay 2 %
            v2 = "safe" if S1 <= 0 else Ref.ratio_verdict(C1, S1 * k)
            step1 = "saved" if v2 == "safe" else ("band" if v2 == "band" else "continued")
        else:
            if rd:
                sim.violate("c14.liquidation", f"{where}:reduce_debt:without_lp", vault=vid)
            S1, gross, C1 = short, F(pv["coll"]), F(pv["coll"])
            v2 = "unsafe"
        if ambiguous or v2 == "band":
            sim.count("probe:liquidation_step_ambiguous")
            sim.state(("bar", "unsafe", has_lp, step1, "?"))
            return None if ambiguous else excess
        if v2 == "safe":
            sim.count("probe:lp_saved_vault")
            sim.state(("bar", "unsafe", has_lp, "saved", "none"))
            if lq:
                sim.violate("c14.liquidation", f"{where}:liquidated_after_debt_reduction_made_it_safe", vault=vid)
                return excess
            if not _close(qv["short"], S1, LP_TOL, max(short, 1)):
                sim.violate("c14.liquidation", f"{where}:saved:osqth_short_amount", vault=vid, got=qv["short"], want=_f(S1))
            if not _close(qv["coll"], C1, BAND, coll_scale):
                sim.violate("c14.liquidation", f"{where}:saved:collateral_amount", vault=vid, got=qv["coll"], want=_f(C1))
            return excess
        # ---- step 2
        m2 = Ref.liquidation(gross, S1, t_osq)
        sim.state(("bar", "unsafe", has_lp, step1, m2["mode"] if not m2["ambiguous"] else "?"))
        if len(lq) != 1:
            sim.violate("c14.liquidation", f"{where}:liquidation:action_count", vault=vid, got=len(lq), ratio=ratio)
            return excess
        if m2["ambiguous"]:
            sim.count("probe:liquidation_half_full_inside_band")
            return excess
        sim.count("probe:liquidation_" + m2["mode"])
        a = lq[0]
        tol_short = LP_TOL if has_lp else EXACT
        for name, got, want, tol, scale in [
            ("liquidate_amount", a.liquidate_amount, m2["x"], tol_short, short),
            ("collateral_to_pay", a.collateral_to_pay, m2["pay"], BAND, coll_scale),
            ("short_amount_after", a.short_amount_after, m2["short"], tol_short, short),
            ("collateral_after", a.collateral_after, m2["collateral"], BAND, coll_scale),
        ]:
            if not _close(got, want, tol, scale):
                sim.violate("c14.liquidation", f"{where}:liquidation:{m2['mode']}:{name}", vault=vid, got=got, want=_f(want),
                            short_before=_f(S1), collateral_before=_f(gross), twap_osqth=_f(t_osq))
        if not _close(qv["short"], m2["short"], tol_short, short):
            sim.violate("c14.liquidation", f"{where}:liquidation:{m2['mode']}:vault_short", vault=vid, got=qv["short"], want=_f(m2["short"]))
        if not _close(qv["coll"], m2["collateral"], BAND, coll_scale):
            sim.violate("c14.liquidation", f"{where}:liquidation:{m2['mode']}:vault_collateral", vault=vid, got=qv["coll"], want=_f(m2["collateral"]))
        return excess

    # ------------------------------------------------------------------------------------------- end of run
    def finish(self, sim):
        if sim.crash is None:
            if self.update_seen != len(sim.actuator.account_status):
                raise HarnessError(f"update observed {self.update_seen} times, {len(sim.actuator.account_status)} bars")
            return
        where = "/".join(sim.crash_where[-2:])
        name = type(sim.crash).__name__
        if any(w.startswith("market.py:") for w in sim.crash_where) and name in ("DemeterError", "KeyError", "AssertionError", "InvalidOperation"):
            sim.violate("c14.crash", f"bar_loop:{name}@{where}", msg=str(getattr(sim.crash, "message", sim.crash))[:200])
        else:
            raise HarnessError(f"run crashed outside the vault rules: {name} {sim.crash} @ {where}")


# =================================================================================================== execution
def execute(scenario) -> Sim:
    S.FRONTIER_RESOLVER[0] = resolve_frontier
    sim = Sim(scenario, VaultOracle())
    return sim.run()


def abstract(scenario, sim):
    return sim.states


def nontrivial(state) -> bool:
    if state[0] == "op":
        return state[2] != "accept" or state[5]
    return state[1] != "safe"


RULE = (
    "one case = one vault-rule evaluation inside a seeded run of the real bar loop: either an operation request "
    "(kind, reference verdict accept/reject/either, cause ratio/dust, outcome, LP collateral present, request is a "
    "mint/withdrawal) or a bar-end check of one vault (reference verdict safe/band/unsafe, LP present, reduce-debt "
    "result none/saved/continued, liquidation mode half/full/capped); distinct_nontrivial counts the distinct abstract "
    "cases that are not a plain 'accept without LP' / 'safe at bar end'"
)
BUDGET = {"quick": {"runs": 3000, "wall": 55}, "thorough": {"runs": 120000, "wall": 1100}}
LEVEL = "exploration"
ASSUMPTIONS = [
    "bars of 1, 2 or 5 minutes (the frame and the pool price resampled with 'first'): the seven-minute window is the rows with timestamp in [t-6min, t] of the (resampled) squeeth frame - at most 7, 4 or 2 rows, fewer at the start of the data",
    "three-valued verdicts: inside a relative band of 1e-11 around the 1.5x frontier, the 0.5 ETH floor and the half/full liquidation switch either answer is accepted (float log/pow in the TWAP)",
    "'must accept' is only demanded when every other precondition visibly holds (vault exists, wallet covers the amount with a 1e-5 margin, LP is in the pool, not lent, has liquidity)",
    "Asset.sub empties a wallet whose balance is within 1e-5 (relative) of the amount taken; such a debit is accepted as 'the stated amount'",
    "withdrawals and burns larger than the vault's collateral / debt are clamped to it; the clamped amount is the stated amount",
    "when 2 % of the redeemed LP value exceeds the vault's ETH after redemption the bounty amount is unspecified (the contract reverts); only non-negativity and bounty <= 2 % are demanded there",
    "rejected operations are not compared with their pre-state here (C04's subject); whatever state they leave is the next pre-state",
    "negative amounts and raw Uniswap operations on a position that is lent to a vault are not generated",
    "LP amounts are computed with the v3 closed form at the pool's bar price (previous close) from my copy of the tick series; pending amounts and liquidity are read from the public position state",
]
LEVEL_TEXT = (
    "seeded exploration: generated ETH / norm-factor / oSQTH-pool histories (still and volatile, price shocks sized to "
    "the vault's ratio, one-bar TWAP spikes inside and just outside the window, norm-factor steps down to 3e-9, pool "
    "moves that make LP collateral one-sided, heavy pool fees) x scripted programs (1-3 vaults with and without LP "
    "collateral, mints and withdrawals placed at 1.5x(1 +- 10^-k) and at the 0.5 ETH floor, burns, LP deposits and "
    "withdrawals, strategy-called liquidate, reads) run through the real bar loop; every request and every bar end "
    "of every vault is compared with the reference rules. Sampling, not proof."
)
LEVEL_NOTE = (
    "trusted: my reading of the property and of the controller rules (DESIGN appendix A.4), the reach of the generator "
    "(reach_probes / faults_fired in the evidence), Python Decimal/Fraction; histories are synthetic frames in the "
    "loader's output format; the pool's fee accrual is taken from the public position state (C08's subject)"
)
TECHNIQUE = "deterministic simulation with hostile histories; reference-model oracle with three-valued frontier verdicts"
