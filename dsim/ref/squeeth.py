"""Reference rules of the Squeeth controller (DESIGN Appendix A.4), written from the property text and the protocol,
not from /repo.  Everything is computed from the scenario's raw numbers (my own copy of the frames) and from amounts
handed in by the caller (public vault state); nothing here imports demeter.

  TWAP(x)(i)   = exp(mean(ln x[j])) over the rows j with timestamp in [t_i - 6 min, t_i]   (<= 7 one-minute rows)
  debt (ETH)   = short * nf_i * TWAP(ETH)(i) / 1e4
  collateral   = ETH + LP_ETH + LP_oSQTH * nf_i * TWAP(ETH)(i) / 1e4      (LP amounts include pending amounts)
  safe         iff short == 0 or collateral * 2 >= debt * 3;   dust iff short > 0 and collateral < 0.5
  bar end, per unsafe vault:
    (1) LP: redeem everything, burn b = min(oSQTH, short), excess oSQTH -> wallet, ETH -> collateral,
        bounty = 0.02 * (oSQTH * TWAP(oSQTH) + ETH) leaves the collateral
    (2) still unsafe: bounty returned; x = short/2, pay = x * TWAP(oSQTH) * 1.1; if collateral - pay < 0.5: x = short,
        pay recomputed; if pay > collateral: x = short, pay = collateral; short -= x; collateral -= pay
"""
from decimal import Decimal, localcontext
from fractions import Fraction

WINDOW_MINUTES = 7  # "trailing seven-minute window ending at the current bar": rows t-6 .. t
CR = Fraction(3, 2)  # 1.5x
MIN_COLLATERAL = Fraction(1, 2)  # 0.5 ETH
REDUCE_DEBT_BOUNTY = Fraction(2, 100)
LIQUIDATION_BONUS = Fraction(11, 10)
INDEX_SCALE = 10**4
# three-valued verdicts: relative band around a threshold in which either answer is fine. The only float arithmetic on the
# way is math.log / math.pow in calc_twap_price: worst case about 2e-14 relative, largest deviation seen over 5,600 generated
# runs 2.7e-15. 1e-11 leaves three orders of magnitude; the frontier requests at +-1e-10 are judged.
BAND = Fraction(1, 10**11)
PREC = 60


def F(x) -> Fraction:
    if isinstance(x, Fraction):
        return x
    if isinstance(x, float):
        return Fraction(Decimal(repr(x)))
    if isinstance(x, str):
        return Fraction(Decimal(x[2:] if x.startswith("D:") else x))
    return Fraction(x)


def _dec(fr: Fraction) -> Decimal:
    with localcontext() as ctx:
        ctx.prec = PREC
        return Decimal(fr.numerator) / Decimal(fr.denominator)


def geo_mean(xs) -> Fraction:
    """exp(mean(ln x)) in 60-digit Decimal arithmetic."""
    xs = list(xs)
    if len(set(xs)) == 1:
        return F(xs[0])
    with localcontext() as ctx:
        ctx.prec = PREC
        s = sum((_dec(F(x)).ln() for x in xs), Decimal(0))
        return Fraction((s / len(xs)).exp())


class RefWorld:
    """My own copy of the squeeth frame and of the pool's price path."""

    def __init__(self, sq_mw: dict, pool_mw: dict, first_minute_of_bar=None, bar_minutes: int = 1):
        """first_minute_of_bar: for a resampled run, the raw minute index at which each bar (bin) starts; the squeeth
        frame and the pool's price column are resampled with 'first', so bar b carries the values of that minute.
        bar_minutes: distance between two bar labels (the window is a span of time, not a number of rows)."""
        eth = _ffill([None if x is None else F(x) for x in sq_mw["WETH"]])
        osq = _ffill([None if x is None else F(x) for x in sq_mw["OSQTH"]])
        nf_ = _ffill([None if x is None else F(x) for x in sq_mw["norm_factor"]])
        ticks = _ffill([None if t is None else int(t) for t in pool_mw["closeTick"]])
        opens = pool_mw.get("openTick") or ticks
        first = opens[0] if opens[0] is not None else ticks[0]
        # the pool's price at minute i is the previous minute's close (first minute: its open)
        price_tick = [int(first)] + ticks[:-1]
        idx = list(range(len(eth))) if first_minute_of_bar is None else list(first_minute_of_bar)
        self.eth = [eth[i] for i in idx]
        self.osq = [osq[i] for i in idx]
        self.nf_ = [nf_[i] for i in idx]
        self.price_tick = [price_tick[i] for i in idx]
        self.bar_minutes = int(bar_minutes)
        self.n = len(self.eth)
        self._twap = {}
        self._sqrt = {}

    def window(self, i):
        back = (WINDOW_MINUTES - 1) // self.bar_minutes  # rows with t_i - 6 min <= t <= t_i on a bar_minutes grid
        return range(max(0, i - back), i + 1)

    def twap_eth(self, i) -> Fraction:
        return self._tw("eth", self.eth, i)

    def twap_osq(self, i) -> Fraction:
        return self._tw("osq", self.osq, i)

    def _tw(self, name, series, i):
        k = (name, i)
        if k not in self._twap:
            self._twap[k] = geo_mean(series[j] for j in self.window(i))
        return self._twap[k]

    def nf(self, i) -> Fraction:
        return self.nf_[i]

    def index_factor(self, i) -> Fraction:
        """ETH value of one oSQTH at the index price: nf * TWAP(ETH) / 1e4."""
        return self.nf(i) * self.twap_eth(i) / INDEX_SCALE

    def debt(self, short, i) -> Fraction:
        return F(short) * self.index_factor(i)

    def sqrt_at(self, tick) -> Fraction:
        if tick not in self._sqrt:
            with localcontext() as ctx:
                ctx.prec = PREC
                self._sqrt[tick] = Fraction(Decimal("1.0001") ** (Decimal(int(tick)) / 2))
        return self._sqrt[tick]

    def lp_amounts(self, liquidity, lo, hi, i):
        """(WETH, oSQTH) held by liquidity L on [lo, hi] at the pool price of bar i (A.1; token0 = WETH, token1 = oSQTH,
        both 18 decimals)."""
        L = Fraction(int(liquidity))
        if L == 0:
            return Fraction(0), Fraction(0)
        s, a, b = self.sqrt_at(self.price_tick[i]), self.sqrt_at(lo), self.sqrt_at(hi)
        if s <= a:
            a0, a1 = L * (b - a) / (a * b), Fraction(0)
        elif s < b:
            a0, a1 = L * (b - s) / (s * b), L * (s - a)
        else:
            a0, a1 = Fraction(0), L * (b - a)
        return a0 / 10**18, a1 / 10**18

    def lp_scale(self, liquidity, lo, hi):
        """magnitudes of a position (for tolerances on its token amounts): (WETH scale, oSQTH scale)."""
        L = Fraction(int(liquidity))
        a, b = self.sqrt_at(lo), self.sqrt_at(hi)
        return L * (b - a) / (a * b) / 10**18, L * (b - a) / 10**18

    def lp_redeem(self, lp, i):
        """(WETH, oSQTH) obtained by redeeming the whole position incl. pending amounts. lp = dict(liquidity, lo, hi,
        pending0, pending1) or None."""
        if lp is None:
            return Fraction(0), Fraction(0)
        a0, a1 = self.lp_amounts(lp["liquidity"], lp["lo"], lp["hi"], i)
        return a0 + F(lp["pending0"]), a1 + F(lp["pending1"])

    def collateral(self, eth_collateral, lp, i) -> Fraction:
        e, o = self.lp_redeem(lp, i)
        return F(eth_collateral) + e + o * self.index_factor(i)


def _ffill(xs):
    out, last = [], None
    for x in xs:
        if x is None:
            x = last
        out.append(x)
        last = x
    return out


# ------------------------------------------------------------------------------------------------- verdicts
def rel_margin(value: Fraction, threshold: Fraction) -> Fraction:
    """(value - threshold) / threshold; threshold > 0."""
    return (value - threshold) / threshold


def ratio_verdict(collateral: Fraction, debt: Fraction, band=BAND) -> str:
    """'safe' | 'unsafe' | 'band' for the 1.5x rule (debt > 0)."""
    if debt <= 0:
        return "safe"
    m = rel_margin(collateral * 2, debt * 3)
    if m > band:
        return "safe"
    if m < -band:
        return "unsafe"
    return "band"


def floor_verdict(collateral: Fraction, band=BAND) -> str:
    """'ok' | 'dust' | 'band' for the 0.5 ETH floor."""
    m = rel_margin(collateral, MIN_COLLATERAL)
    if m >= band:
        return "ok"
    if m < -band:
        return "dust"
    return "band"


def vault_verdict(collateral: Fraction, short: Fraction, debt: Fraction, band=BAND) -> str:
    """'accept' (must be accepted as far as the vault rules go) | 'reject' (must be rejected) | 'either'."""
    if short <= 0:
        return "accept"
    r, f = ratio_verdict(collateral, debt, band), floor_verdict(collateral, band)
    if r == "unsafe" or f == "dust":
        return "reject"
    if r == "safe" and f == "ok":
        return "accept"
    return "either"


# ------------------------------------------------------------------------------------------------- bar end
def reduce_debt(eth_collateral, short, lp_eth, lp_osq, twap_osq):
    """Step (1). Returns dict(burn, excess, bounty, short, collateral (bounty taken out), collateral_gross)."""
    eth_collateral, short, lp_eth, lp_osq = F(eth_collateral), F(short), F(lp_eth), F(lp_osq)
    burn = min(lp_osq, short)
    bounty = REDUCE_DEBT_BOUNTY * (lp_osq * twap_osq + lp_eth)
    gross = eth_collateral + lp_eth
    return {
        "burn": burn, "excess": lp_osq - burn, "bounty": bounty, "short": short - burn,
        "collateral": gross - bounty, "collateral_gross": gross,
    }


def liquidation(collateral, short, twap_osq, band=BAND):
    """Step (2) on an ETH-only vault. Returns dict(x, pay, short, collateral, mode in half|full|capped, ambiguous).
    ambiguous: the half/full decision (collateral - pay vs 0.5 ETH) lies inside the band; the full/capped decision is
    continuous in its outcome and needs no band."""
    collateral, short = F(collateral), F(short)
    x = short / 2
    pay = x * twap_osq * LIQUIDATION_BONUS
    mode = "half"
    left = collateral - pay
    ambiguous = abs(left - MIN_COLLATERAL) <= band * max(abs(collateral), pay, MIN_COLLATERAL)
    if left < MIN_COLLATERAL:
        x = short
        pay = x * twap_osq * LIQUIDATION_BONUS
        mode = "full"
    if pay > collateral:
        x, pay, mode = short, collateral, "capped"
    return {"x": x, "pay": pay, "short": short - x, "collateral": collateral - pay, "mode": mode, "ambiguous": ambiguous}
