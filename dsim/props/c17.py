"""C17 - GMX mint / redeem: fees bounded and rule-based, amounts follow value per share, round trips never profit,
rewards pro rata, no more shares redeemed than held.

Real: GmxMarket.buy_glp / sell_glp / get_fee_basis_points / _update_fee and GmxV2Market.deposit / withdraw (+ gmx_v2 utils)
inside the real Actuator bar loop. Oracle: dsim/ref/gmx.py (DESIGN A.6), evaluated after every operation and every bar
from the scenario's own numbers and the markets' public state.
"""
from decimal import Decimal, ROUND_DOWN, Context
from fractions import Fraction

import pandas as pd

from ..sim import Sim, Oracle, HarnessError
from ..canon import D
from ..worlds import gmx as G
from ..ref import gmx as R
from .. import rng as RNG

ID = "C17"

# ---- tolerances (each from the property text / DESIGN C17 "Tol")
FEE_TOL_BPS = 1  # "equals the Vault's fee-basis-points rule ... to within one basis point"
FLOOR_UNITS = 1  # "1 wei-unit on floor steps": every round-down step may differ by one unit of its own quantity
FRONTIER_BAND_WEI = 2  # the rule's improvement test compares two distances to the target; each carries the target's floor step,
#                         so within 2 USDG-wei of the frontier either branch is accepted (three-valued verdict)
V1_REWARD_REL = Fraction(4, 2**52)  # the emission (`interval`) is a float64 column; read_csv's fast float parser is accurate to 1 ulp
DEC_BAND = Fraction(1, 10**30)  # demeter computes in Decimal with 35 significant digits; 5 digits of head-room
V2_REL = Fraction(1, 10**12)  # "1e-12 relative on v2 floats"
V2_CANCEL_ULPS = 64  # float64 cancellation in |f*d0^2 - f*d1^2| and in d = |A - B|: absolute error <= a few ulps of f*max(A,B)^2
V2_HOLD_BAND = Fraction(1, 10**9)  # accept/reject either way when the requested GM is within 1e-9 of the (float) holding
EPS64 = Fraction(1, 2**52)

PHASE_ORDER = ["initialize", "before_bar", "trigger", "on_bar", "after_bar", "notify"]
V2_POOLS = [("WETH", "USDC"), ("WETH", "USDC"), ("WBTC", "USDC"), ("WAVAX", "USDC.E"), ("BTC.B", "USDC"),
            ("WETH", "WETH"), ("WBTC", "WBTC")]  # the last two: single-token pools, both sides paid from / into one wallet entry
CRASH_TYPES = ("TypeError", "AttributeError", "KeyError", "InvalidOperation", "ZeroDivisionError", "DivisionByZero", "IndexError",
               "ValueError", "OverflowError", "NameError", "DivisionUndefined")


# ====================================================================================================== generation
_WIDE = Context(prec=120)


def _dec_str(x: Decimal, decimals: int) -> str:
    return format(Decimal(x).quantize(Decimal(1).scaleb(-decimals), rounding=ROUND_DOWN, context=_WIDE), "f")


def generate(seed: int, tier: str = "quick") -> dict:
    rw = RNG.sub(seed, "world")
    rp = RNG.sub(seed, "program")
    rf = RNG.sub(seed, "faults")
    mode = rw.choice(["v1"] * 6 + ["v2"] * 3 + ["both"])
    interval = rw.choice(["1min"] * 6 + ["2min", "5min"]) if mode == "v1" else "1min"
    k = int(pd.Timedelta(interval) / pd.Timedelta("1min"))
    nbars = rw.choice([2, 3, 4, 6, 8, 12, 20] if tier == "quick" else [2, 3, 4, 6, 8, 12, 20, 40, 80])
    n = nbars * k
    start = pd.Timestamp("2023-08-13 00:00:00") + pd.Timedelta(minutes=60 * rw.randint(0, 20) + k * rw.randint(0, 7))
    extra = rw.sample(["USDC", "USDC.E", "BTC.B", "WBTC", "MIM"], rw.randint(1, 5))
    if not any(G.GLP_CATALOGUE[t] != 18 for t in extra):
        extra.append(rw.choice(["USDC", "USDC.E", "BTC.B", "WBTC"]))
    toks = {"WETH": 18, "WAVAX": 18}
    for t in extra:
        toks[t] = G.GLP_CATALOGUE[t]
    pool2 = rw.choice(V2_POOLS)
    if mode != "v1":
        for t in pool2:
            toks.setdefault(t, G.GLP_CATALOGUE[t])
    prices = G.gen_gmx_prices(rw, n, list(toks))
    markets = []
    if mode in ("v1", "both"):
        markets.append(G.gen_gmx1_market(rw, "glp0", n, prices, tokens=dict(toks)))
        rr = RNG.sub(seed, "again")
        if rr.random() < 0.2:
            markets[-1]["registered_again"] = rr.sample(sorted(markets[-1]["tokens"]), rr.choice([1, 2]))
    if mode in ("v2", "both"):
        markets.append(G.gen_gmx2_market(rw, "gm0", n, prices, long=pool2[0], short=pool2[1], config=G.gen_gmx2_config(rw),
                                         no_virtual_inventory=RNG.sub(seed, "novirt").random() < 0.2))
    wealth = rw.choice(["rich"] * 6 + ["modest"] * 2 + ["whale"])
    assets = {}
    for t, d in toks.items():
        usd = 10 ** {"rich": rw.uniform(6, 10), "modest": rw.uniform(2.5, 5), "whale": rw.uniform(10.5, 12)}[wealth]
        assets[t] = _dec_str(Decimal(repr(usd)) / D(prices[t][0]), d)
    world = {"start": str(start), "n": n, "interval": interval, "tokens": toks, "assets": assets, "quote": "USD", "prices": prices, "markets": markets}
    labels, rows, _ = G.bar_labels(world)
    nb = len(labels)
    program, faults = [], []
    for mw in markets:
        if mw["kind"] == "gmx1":
            _gen_v1(rp, rf, mw, nb, rows, program, faults)
        else:
            _gen_v2(rp, rf, mw, nb, rows, program, faults)
    program.sort(key=lambda o: (o["bar"], PHASE_ORDER.index(o["phase"])))
    sc = {"property": ID, "seed": seed, "world": world, "program": program, "faults": faults}
    rd = RNG.sub(seed, "direct_drive")
    if interval == "1min" and rd.random() < 0.08:
        # the market driven without Actuator.run(): every bar's status carries its data row; in half of these runs the caller
        # stamps the statuses with its own clock, a few seconds off the index of the data frame
        sc["opts"] = {"drive": "direct"}
        if rd.random() < 0.5 and mode == "v1":  # (the GM market always looks its own row up by the status's timestamp)
            sc["opts"]["direct_stamp_offset_s"] = rd.choice([7, 30])
        sc["program"] = [o for o in program if o["phase"] in ("initialize", "before_bar", "on_bar", "after_bar")]
        faults.append({"kind": "market_driven_without_the_actuator"})
    return sc


def _slot(rp, nb):
    b = -1 if rp.random() < 0.07 else rp.randint(0, nb - 1)
    phase = "initialize" if b == -1 else rp.choice(["before_bar", "trigger", "on_bar", "on_bar", "after_bar"])
    return b, phase


def _v1_aimed_usdg(rp, st, tok):
    """USDG delta (wei) aimed at the fee rule's branch frontiers of `tok` at this state."""
    target, init = st.target(tok), st.usdg[tok]
    diff = abs(init - target)
    kind = rp.choice(["tiny", "frac", "frac", "to_target", "mirror", "mirror_eps", "beyond", "random", "random", "drain"])
    if kind == "tiny":
        return int(10 ** rp.uniform(12, 18)), kind
    if kind == "random" or diff == 0:
        return int(10 ** rp.uniform(18, 24.5)), "random"
    if kind == "frac":
        return int(diff * rp.uniform(0.05, 0.95)), kind
    if kind == "to_target":
        return diff, kind
    if kind == "mirror":
        return 2 * diff, kind
    if kind == "mirror_eps":
        return int(2 * diff * (1 + rp.choice([-1, 1]) * 10 ** rp.uniform(-9, -5))), kind
    if kind == "drain":
        return int(init * rp.uniform(1.01, 3)) + 10**18, kind
    return int(diff * rp.uniform(2.5, 12)), kind


def _tok_amount(st, tok, usdg_wei) -> str:
    amt = Decimal(usdg_wei) * 10**12 / Decimal(st.price[tok])
    return _dec_str(amt, st.decimals[tok])


def _gen_v1(rp, rf, mw, nb, rows, program, faults):
    name = mw["name"]
    toks = list(mw["tokens"])
    non18 = [t for t in toks if mw["tokens"][t] != 18]
    nops = rp.choice([2, 3, 4, 6, 8, 12])

    def pick_token():
        return rp.choice(non18) if rp.random() < 0.45 else rp.choice(toks)

    def emit(b, phase, opname, a):
        program.append({"bar": b, "phase": phase, "op": opname, "m": name, "a": a})

    for _ in range(nops):
        b, phase = _slot(rp, nb)
        st = G.v1_state(mw, rows[max(b, 0)][0])
        kind = rp.choice(["buy"] * 4 + ["sell"] * 3 + ["round_trip"] * 4 + ["cross"] * 3 + ["fee"] * 3 + ["read", "oversell", "oversell", "wallet"])
        tok = pick_token()
        if kind == "buy":
            usdg, _k = _v1_aimed_usdg(rp, st, tok)
            emit(b, phase, "gmx1.buy_glp", {"token": tok, "amount": {"abs": _tok_amount(st, tok, usdg)}})
        elif kind == "wallet":
            x = rf.choice(["0.25", "1", "1", "1.5", "0"])
            if x == "1.5":
                faults.append({"kind": "reject:wallet_short", "bar": b})
            emit(b, phase, "gmx1.buy_glp", {"token": tok, "amount": {"f": f"wallet:{tok}", "x": x}})
        elif kind == "sell":
            x = rp.choice(["0.1", "0.5", "0.9", "1", None, "0.333333333333333333"])
            emit(b, phase, "gmx1.sell_glp", {"token": tok, "amount": None if x is None else {"f": f"held:{name}", "x": x}})
        elif kind == "oversell":
            faults.append({"kind": "reject:sell_beyond_holding", "bar": b})
            spec = rf.choice([{"f": f"held:{name}", "x": "1.5"}, {"f": f"held:{name}", "x": "1", "plus": "0.000000000000000001"},
                              {"f": f"held:{name}", "x": "1", "plus": "5"}, {"f": f"held:{name}", "x": "10", "plus": "1"}])
            emit(b, phase, "gmx1.sell_glp", {"token": tok, "amount": spec})
        elif kind == "round_trip":
            faults.append({"kind": "same_bar_round_trip", "bar": b})
            usdg, _k = _v1_aimed_usdg(rp, st, tok)
            emit(b, phase, "gmx1.buy_glp", {"token": tok, "amount": {"abs": _tok_amount(st, tok, usdg)}})
            emit(b, phase, "gmx1.sell_glp", {"token": tok, "amount": {"f": f"lastmint:{name}", "x": rp.choice(["1", "1", "1", "0.5", "0.123456789"])}})
        elif kind == "cross":
            # buy with one token, redeem the minted GLP into another: the sell leg's USDG delta is aimed at tok's frontiers
            src = rp.choice(toks)
            usdg, _k = _v1_aimed_usdg(rp, st, tok)
            emit(b, phase, "gmx1.buy_glp", {"token": src, "amount": {"abs": _tok_amount(st, src, usdg)}})
            emit(b, phase, "gmx1.sell_glp", {"token": tok, "amount": {"f": f"lastmint:{name}", "x": "1"}})
        elif kind == "fee":
            usdg, _k = _v1_aimed_usdg(rp, st, tok)
            emit(b, phase, "gmx1.fee_bps", {"token": tok, "usdg": {"abs": _dec_str(Decimal(usdg) / 10**18, 18)}, "increase": rp.random() < 0.5})
        else:
            emit(b, phase, "gmx1.read_balance", {})


def _gen_v2(rp, rf, mw, nb, rows, program, faults):
    name = mw["name"]
    nops = rp.choice([2, 3, 4, 6, 8, 12])

    def emit(b, phase, opname, a):
        program.append({"bar": b, "phase": phase, "op": opname, "m": name, "a": a})

    def amounts(st, long_usd, short_usd):
        a = {}
        if long_usd:
            a["long"] = {"abs": _dec_str(Decimal(repr(float(long_usd / st.long_price))), 18)}
        if short_usd:
            a["short"] = {"abs": _dec_str(Decimal(repr(float(short_usd / st.short_price))), 6)}
        return a

    def aimed(st):
        A, B = st.long_amount * st.long_price, st.short_amount * st.short_price
        diff = abs(A - B)
        light_long = A <= B
        kind = rp.choice(["small", "small", "improve", "improve", "to_balance", "crossover", "crossover", "worsen", "both", "both", "random"])
        if kind == "small":
            v = Fraction(repr(10 ** rp.uniform(0, 4)))
            side = rp.choice(["long", "short", "both"])
            return amounts(st, v if side != "short" else 0, v if side != "long" else 0)
        if kind == "random" or diff == 0:
            v = Fraction(repr(10 ** rp.uniform(2, 8)))
            return amounts(st, v * Fraction(repr(rp.random())), v * Fraction(repr(rp.random())))
        if kind == "improve":
            v = diff * Fraction(repr(rp.uniform(0.05, 0.95)))
        elif kind == "to_balance":
            v = diff
        elif kind == "crossover":
            v = diff * Fraction(repr(rp.uniform(1.2, 4)))
        elif kind == "worsen":
            v = max(diff, Fraction(1000)) * Fraction(repr(rp.uniform(0.01, 2)))
            return amounts(st, 0 if light_long else v, v if light_long else 0)
        else:  # both sides, net effect anywhere
            v = diff * Fraction(repr(rp.uniform(0.1, 3)))
            w = diff * Fraction(repr(rp.uniform(0.1, 3)))
            return amounts(st, v, w)
        return amounts(st, v if light_long else 0, 0 if light_long else v)

    for _ in range(nops):
        b, phase = _slot(rp, nb)
        st = G.v2_state(mw, rows[max(b, 0)][0])
        kind = rp.choice(["deposit"] * 4 + ["withdraw"] * 3 + ["round_trip"] * 4 + ["read", "overdraw", "overdraw", "wallet", "zero"])
        if kind == "deposit":
            emit(b, phase, "gmx2.deposit", aimed(st))
        elif kind == "wallet":
            x = rf.choice(["0.25", "1", "1.5"])
            if x == "1.5":
                faults.append({"kind": "reject:wallet_short", "bar": b})
            side = rp.choice(["long", "short", "both"])
            a = {}
            if side != "short":
                a["long"] = {"f": f"wallet:{mw['long']}", "x": x}
            if side != "long":
                a["short"] = {"f": f"wallet:{mw['short']}", "x": x}
            emit(b, phase, "gmx2.deposit", a)
        elif kind == "zero":
            emit(b, phase, "gmx2.deposit", {})
        elif kind == "withdraw":
            x = rp.choice(["0.1", "0.5", "0.9", "1", None, "0.3333333333333333"])
            emit(b, phase, "gmx2.withdraw", {"amount": None if x is None else {"f": f"held:{name}", "x": x}})
        elif kind == "overdraw":
            faults.append({"kind": "reject:withdraw_beyond_holding", "bar": b})
            spec = rf.choice([{"f": f"held:{name}", "x": "1.5"}, {"f": f"held:{name}", "x": "1", "plus": "5"},
                              {"f": f"held:{name}", "x": "1.000001", "plus": "0.001"}, {"f": f"held:{name}", "x": "10", "plus": "1"}])
            emit(b, phase, "gmx2.withdraw", {"amount": spec})
        elif kind == "round_trip":
            faults.append({"kind": "same_bar_round_trip", "bar": b})
            emit(b, phase, "gmx2.deposit", aimed(st))
            emit(b, phase, "gmx2.withdraw", {"amount": {"f": f"lastmint:{name}", "x": rp.choice(["1", "1", "1", "0.5"])}})
        else:
            emit(b, phase, "gmx2.read_balance", {})


# ====================================================================================================== oracle
def _f(x):
    if isinstance(x, Fraction):
        return format(Decimal(x.numerator) / Decimal(x.denominator), ".30g")
    return x


def _dcls(d):
    return "d18" if int(d) == 18 else "non18"


def _fr(x) -> Fraction:
    if isinstance(x, Fraction):
        return x
    if isinstance(x, float):
        return Fraction(x)
    return Fraction(Decimal(x)) if not isinstance(x, Decimal) else Fraction(x)


class GmxOracle(Oracle):
    def start(self, sim):
        self.labels, self.rows, self.k = G.bar_labels(sim.world)
        self.kinds = {mw["name"]: mw["kind"] for mw in sim.world["markets"]}
        self.mw = {mw["name"]: mw for mw in sim.world["markets"]}
        self.hist = []  # my own record of executed GMX operations
        self.pre = None
        self.reward_expected = {n: [Fraction(0), Fraction(0)] for n, kd in self.kinds.items() if kd == "gmx1"}  # [lo, hi] accumulated
        self.pre_update = {}
        self.negative = {n: False for n in self.kinds}
        self.bars_seen = 0

    # ------------------------------------------------------------------------------------------------ helpers
    def row(self, sim):
        b = max(sim.bar, 0)
        if b >= len(self.rows):
            return None
        return self.rows[b][0]

    def holding(self, sim, name):
        m = sim.markets[name]
        return Fraction(Decimal(m.glp_amount)) if self.kinds[name] == "gmx1" else Fraction(float(m.amount))

    def snapshot(self, sim):
        return {"wallet": dict(sim.wallet()), "held": {n: self.holding(sim, n) for n in self.kinds},
                "reward": {n: Fraction(Decimal(sim.markets[n].reward)) for n, kd in self.kinds.items() if kd == "gmx1"}}

    # ------------------------------------------------------------------------------------------------ bar hooks
    def phase(self, sim, bar, phase, pos):
        if phase == "before_bar" and pos == "begin":
            self.bars_seen += 1
            if bar < len(self.labels) and pd.Timestamp(sim.snapshot.timestamp) != self.labels[bar]:
                sim.violate("c17.grid", "bar_label", bar=bar, got=sim.snapshot.timestamp, want=self.labels[bar])
        if phase == "on_bar" and pos == "end":
            self.pre_update = {n: (Fraction(Decimal(sim.markets[n].reward)), Fraction(Decimal(sim.markets[n].glp_amount))) for n in self.reward_expected}
        elif phase == "after_bar" and pos == "begin":
            for n, (rew0, glp) in self.pre_update.items():
                self._check_reward(sim, bar, n, rew0, glp)
            self.pre_update = {}

    def _check_reward(self, sim, bar, name, rew0, glp):
        m = sim.markets[name]
        mw = self.mw[name]
        row = self.rows[bar][0]
        got = Fraction(Decimal(m.reward)) - rew0
        per_min = R.reward_per_bar(G.v1_interval(mw, row), glp, int(mw["glp"][row]))
        # the rule is stated per bar of the data; whether a resampled (k-minute) bar pays 1x or kx that is not stated
        allowed = [per_min] if self.k == 1 else [per_min, per_min * self.k]
        scale = max(abs(Fraction(Decimal(m.reward))), abs(per_min) * self.k)
        ok = any(abs(got - e) <= DEC_BAND * scale + V1_REWARD_REL * abs(e) for e in allowed)
        sim.count("probe:reward_bar_with_holding" if glp > 0 else "probe:reward_bar_without_holding")
        if glp != 0 and per_min != 0:
            sim.state(("v1", "reward", "held_pos" if glp > 0 else "held_neg", self.k > 1))
        if not ok:
            sim.violate("c17.v1_reward", "update:pro_rata", bar=bar, got=_f(got), want=_f(per_min), glp_held=_f(glp), supply=mw["glp"][row], interval=mw["interval"][row])
        if glp >= 0 and got < 0:
            sim.violate("c17.v1_reward", "update:negative_reward", bar=bar, got=_f(got))
        lo_hi = self.reward_expected[name]
        lo_hi[0] += min(allowed) if per_min >= 0 else max(allowed)
        lo_hi[1] += max(allowed) if per_min >= 0 else min(allowed)

    # ------------------------------------------------------------------------------------------------ op hooks
    def before_op(self, sim, op):
        self.pre = self.snapshot(sim)

    def after_op(self, sim, op, outcome):
        name = op.get("m")
        if name not in self.kinds or outcome["status"] == "skipped":
            return
        call = getattr(sim, "_gmx", {}).get("call") or {}
        post = self.snapshot(sim)
        row = self.row(sim)
        if row is None:
            return
        ok = outcome["status"] == "ok"
        res = outcome.get("result")
        rec = {"bar": sim.bar, "phase": op["phase"], "m": name, "kind": call.get("op"), "ok": ok, "call": call, "result": res}
        short = op["op"].split(".")[1]
        if not ok and outcome.get("exc") in CRASH_TYPES:
            sim.violate("c17.crash_in_op", f"{short}:{outcome['exc']}", msg=outcome.get("msg"), call={k: str(v) for k, v in call.items()})
        if self.kinds[name] == "gmx1":
            st = G.v1_state(self.mw[name], row)
            if call.get("op") == "buy":
                self._v1_buy(sim, st, name, call, ok, res, post, rec)
            elif call.get("op") == "sell":
                self._v1_sell(sim, st, name, call, ok, res, post, rec)
            elif call.get("op") == "fee" and ok:
                self._v1_fee(sim, st, call, res)
            elif call.get("op") == "read" and ok:
                sim.count("probe:v1_balance_read")
                if Fraction(Decimal(res.glp)) != post["held"][name] or Fraction(Decimal(res.reward)) != post["reward"][name]:
                    sim.violate("c17.v1_bookkeeping", "get_market_balance:holding_mismatch", glp=res.glp, reward=res.reward)
        else:
            st = G.v2_state(self.mw[name], row)
            cfg = G.v2_config(self.mw[name])
            if call.get("op") == "deposit":
                self._v2_deposit(sim, cfg, st, name, call, ok, res, post, rec)
            elif call.get("op") == "withdraw":
                self._v2_withdraw(sim, cfg, st, name, call, ok, res, post, rec)
            elif call.get("op") == "read" and ok:
                sim.count("probe:v2_balance_read")
                if abs(Fraction(Decimal(res.gm_amount)) - post["held"][name]) > V2_REL * abs(post["held"][name]):
                    sim.violate("c17.v2_bookkeeping", "get_market_balance:holding_mismatch", gm=res.gm_amount)
        # holdings never negative (reported at the transition)
        h = post["held"][name]
        floor = 0 if self.kinds[name] == "gmx1" else -V2_REL * max(abs(self.pre["held"][name]), abs(_fr(call.get("amount") or 0)), 1)
        if h < floor and not self.negative[name]:
            self.negative[name] = True
            sim.violate("c17.negative_holding", f"{short}:holding_negative", holding=_f(h), before=_f(self.pre["held"][name]))
        elif h >= floor:
            self.negative[name] = False
        self.hist.append(rec)

    # ------------------------------------------------------------------------------------------------ v1
    def _v1_buy(self, sim, st, name, call, ok, res, post, rec):
        tok, amt = call["token"], call["amount"]
        d = st.decimals[tok]
        dc = _dcls(d)
        w0 = self.pre["wallet"].get(tok, Decimal(0))
        wei = int(amt * 10**d)
        ref = R.mint_glp(st, tok, wei)
        dev = _devclass(st, tok)
        sim.state(("v1", "buy", ref["branch"], ref["capped"], dc, dev, ok))
        if not ok:
            if amt > w0:
                sim.count("fault:reject:wallet_short")
            return
        sim.count("probe:v1_buy_" + ref["branch"])
        sim.count("probe:v1_buy_" + dc)
        if ref["capped"]:
            sim.count("probe:v1_capped_average_diff")
        if _on_frontier(st, tok, ref["usdg_delta"], True):
            sim.count("probe:v1_next_diff_equals_initial_diff")
        got = Fraction(Decimal(res)) * 10**R.GLP_DECIMALS
        rec["minted"] = Fraction(Decimal(res))
        rec["paid"] = Fraction(amt)
        cands = R.fee_candidates(st.usdg[tok], ref["usdg_delta"], st.target(tok), True, FRONTIER_BAND_WEI)
        if len(cands) > 1:
            sim.count("probe:v1_inside_frontier_band")
        lo = min(R.mint_glp(st, tok, wei, +FEE_TOL_BPS, c)["glp_wei"] for c in cands)
        hi = max(R.mint_glp(st, tok, wei, -FEE_TOL_BPS, c)["glp_wei"] for c in cands)
        aum_usdg = st.aum_in_usdg()
        ratio = Fraction(st.glp_supply, aum_usdg) if aum_usdg else Fraction(1)
        # one unit per floor step: after-fee token wei, USDG before and after the decimals adjustment, GLP wei
        unit_usdg = Fraction(st.price[tok], R.PRICE_PRECISION) * 10 ** max(0, 18 - d) + 10 ** max(0, 18 - d) + 1
        slack = FLOOR_UNITS * (unit_usdg * ratio + 1)
        detail = dict(token=tok, decimals=d, amount=str(amt), got_glp_wei=_f(got), want_glp_wei=ref["glp_wei"], fee_bps=ref["fee_bps"],
                      branch=ref["branch"], lo=lo, hi=hi, glp_supply=st.glp_supply, aum=st.aum, price=st.price[tok])
        if got < lo - slack or got > hi + slack:
            sim.violate("c17.v1_mint_amount", f"buy_glp:mint_amount:{ref['branch']}:{dc}", **detail)
        else:
            if got.denominator != 1:
                sim.violate("c17.v1_round_down", f"buy_glp:fractional_glp_wei:{dc}", **detail)
            elif (not R.in_frontier_band(st.usdg[tok], ref["usdg_delta"], st.target(tok), True, FRONTIER_BAND_WEI) and _integral_fee(st, tok, ref)
                  and abs(got - ref["glp_wei"]) <= slack and max(hi - ref["glp_wei"], ref["glp_wei"] - lo) > 2 * slack):
                # (the last condition: one basis point of this amount is well above the floor-step slack, so "within the
                #  slack of the reference" means the same whole-bp fee was applied and only the rounding direction is left)
                exact = R.mint_glp_exact(st, tok, wei, ref["fee_bps"])
                sim.count("probe:v1_round_down_checked")
                if got > exact * (1 + DEC_BAND):
                    sim.violate("c17.v1_round_down", f"buy_glp:rounded_up:{dc}", exact=_f(exact), **detail)
        # bookkeeping: wallet pays exactly the amount, the holding grows by exactly what was returned
        w1 = post["wallet"].get(tok, Decimal(0))
        snapped = w1 == 0 and w0 != 0 and abs((w0 - amt) / w0) < Decimal("0.00001")
        if not snapped and not _dec_eq(Fraction(w0) - Fraction(w1), Fraction(amt), w0, w1):
            sim.violate("c17.v1_bookkeeping", "buy_glp:wallet_delta", token=tok, amount=str(amt), before=w0, after=w1)
        if not _dec_eq(post["held"][name] - self.pre["held"][name], Fraction(Decimal(res)), post["held"][name], self.pre["held"][name]):
            sim.violate("c17.v1_bookkeeping", "buy_glp:glp_delta", returned=res, before=_f(self.pre["held"][name]), after=_f(post["held"][name]))
        for t, v in post["wallet"].items():
            if t != tok and v != self.pre["wallet"].get(t, Decimal(0)):
                sim.violate("c17.v1_bookkeeping", "buy_glp:other_token_changed", token=t)

    def _v1_sell(self, sim, st, name, call, ok, res, post, rec):
        tok = call["token"]
        d = st.decimals[tok]
        dc = _dcls(d)
        held0 = self.pre["held"][name]
        g = held0 if call["amount"] is None else Fraction(call["amount"])
        beyond = g > held0
        if beyond:
            sim.count("fault:reject:sell_beyond_holding")
            sim.state(("v1", "sell", "beyond_holding", dc, ok))
            if ok:
                sim.violate("c17.over_redemption", "sell_glp:beyond_holding", token=tok, glp=_f(g), held=_f(held0), token_out=res)
            return
        if g < 0:
            return
        glp_wei = g * 10**R.GLP_DECIMALS
        if glp_wei.denominator != 1:
            return
        glp_wei = int(glp_wei)
        ref = R.redeem_glp(st, tok, glp_wei)
        sim.state(("v1", "sell", ref["branch"], ref["capped"], ref["drains"], dc, _devclass(st, tok), ok, call["amount"] is None))
        if not ok:
            sim.count("probe:v1_sell_within_holding_rejected")
            return
        sim.count("probe:v1_sell_" + ref["branch"])
        sim.count("probe:v1_sell_" + dc)
        if ref["drains"]:
            sim.count("probe:v1_sell_exceeds_token_usdg")
        if ref["capped"]:
            sim.count("probe:v1_capped_average_diff")
        if _on_frontier(st, tok, ref["usdg"], False):
            sim.count("probe:v1_next_diff_equals_initial_diff")
        got = Fraction(Decimal(res)) * 10**d
        cands = R.fee_candidates(st.usdg[tok], ref["usdg"], st.target(tok), False, FRONTIER_BAND_WEI)
        if len(cands) > 1:
            sim.count("probe:v1_inside_frontier_band")
        lo = min(R.redeem_glp(st, tok, glp_wei, +FEE_TOL_BPS, c)["out_wei"] for c in cands)
        hi = max(R.redeem_glp(st, tok, glp_wei, -FEE_TOL_BPS, c)["out_wei"] for c in cands)
        # one unit per floor step: USDG wei (in token wei), redemption, decimals adjustment, after-fee amount
        slack = FLOOR_UNITS * (3 + Fraction(R.PRICE_PRECISION * 10**d, st.price[tok] * 10**18))
        detail = dict(token=tok, decimals=d, glp=_f(g), got_out_wei=_f(got), want_out_wei=ref["out_wei"], fee_bps=ref["fee_bps"], branch=ref["branch"],
                      lo=lo, hi=hi, glp_supply=st.glp_supply, aum=st.aum, price=st.price[tok])
        if got < lo - slack or got > hi + slack:
            sim.violate("c17.v1_redeem_amount", f"sell_glp:redeem_amount:{ref['branch']}:{dc}", **detail)
        elif (not R.in_frontier_band(st.usdg[tok], ref["usdg"], st.target(tok), False, FRONTIER_BAND_WEI) and _integral_fee(st, tok, ref)
              and abs(got - ref["out_wei"]) <= slack and max(hi - ref["out_wei"], ref["out_wei"] - lo) > 2 * slack):
            exact = R.redeem_glp_exact(st, tok, glp_wei, ref["fee_bps"])
            sim.count("probe:v1_round_down_checked")
            if got > exact * (1 + DEC_BAND):
                sim.violate("c17.v1_round_down", f"sell_glp:rounded_up:{dc}", exact=_f(exact), **detail)
        w0, w1 = self.pre["wallet"].get(tok, Decimal(0)), post["wallet"].get(tok, Decimal(0))
        if not _dec_eq(Fraction(w1) - Fraction(w0), Fraction(Decimal(res)), w0, w1):
            sim.violate("c17.v1_bookkeeping", "sell_glp:wallet_delta", token=tok, returned=res, before=w0, after=w1)
        if not _dec_eq(held0 - post["held"][name], g, held0, post["held"][name]):
            sim.violate("c17.v1_bookkeeping", "sell_glp:glp_delta", glp=_f(g), before=_f(held0), after=_f(post["held"][name]))
        # same-bar round trip token -> GLP -> same token
        prev = self.hist[-1] if self.hist else None
        if (prev and prev["ok"] and prev["kind"] == "buy" and prev["m"] == name and prev["bar"] == sim.bar and prev["phase"] == rec["phase"]
                and prev["call"]["token"] == tok and prev.get("minted", 0) > 0 and 0 < g <= prev["minted"]):
            bound = prev["paid"] * g / prev["minted"]
            out = Fraction(Decimal(res))
            sim.count("probe:v1_round_trip")
            sim.state(("v1", "round_trip", dc, ref["branch"], g == prev["minted"]))
            if out > bound * (1 + DEC_BAND):
                sim.violate("c17.round_trip", f"v1:buy_sell_same_token:{dc}", token=tok, paid=_f(prev["paid"]), share=_f(g / prev["minted"]), returned=_f(out))

    def _v1_fee(self, sim, st, call, res):
        tok, delta, inc = call["token"], call["usdg_wei"], call["increase"]
        bps, branch, capped = R.fee_basis_points(st.usdg[tok], delta, st.target(tok), inc)
        got = _fr(res)
        sim.count("probe:v1_fee_" + branch)
        sim.state(("v1", "fee", branch, capped, inc, _devclass(st, tok)))
        site = f"get_fee_basis_points:{branch}:{'increase' if inc else 'decrease'}"
        detail = dict(token=tok, usdg_delta=delta, initial=st.usdg[tok], target=st.target(tok), got=_f(got), want=bps)
        if got < 0 or got > R.MAX_FEE_BPS:
            sim.violate("c17.v1_fee_range", site, **detail)
        cands = R.fee_candidates(st.usdg[tok], delta, st.target(tok), inc, FRONTIER_BAND_WEI)
        if len(cands) > 1:
            sim.count("probe:v1_inside_frontier_band")
        if all(abs(got - c) > FEE_TOL_BPS for c in cands):
            sim.violate("c17.v1_fee_rule", site, **detail)

    # ------------------------------------------------------------------------------------------------ v2
    def _v2_tol_usd(self, cfg, ref):
        fmax = max(cfg.f_pos, cfg.f_neg)
        return V2_CANCEL_ULPS * EPS64 * fmax * ref["scale"] ** 2

    def _v2_deposit(self, sim, cfg, st, name, call, ok, res, post, rec):
        L, S = Fraction(float(call["long"])), Fraction(float(call["short"]))
        ref = R.deposit(cfg, st, L, S)
        imp = ref["impact"]
        sign = "pos" if imp > 0 else ("neg" if imp < 0 else "zero")
        sides = ("L" if L > 0 else "") + ("S" if S > 0 else "")
        sim.state(("v2", "deposit", sign, ref["capped"], ref["crossover"], ref["virtual"], sides, ref["reverts"], ok))
        wl0, ws0 = self.pre["wallet"].get(self.mw[name]["long"], Decimal(0)), self.pre["wallet"].get(self.mw[name]["short"], Decimal(0))
        if not ok:
            same = self.mw[name]["long"] == self.mw[name]["short"]
            if call["long"] > wl0 or call["short"] > ws0 or (same and call["long"] + call["short"] > wl0):
                sim.count("fault:reject:wallet_short")
            return
        sim.count("probe:v2_deposit_impact_" + sign)
        if ref["capped"]:
            sim.count("probe:v2_impact_capped_by_pool")
        if ref["crossover"]:
            sim.count("probe:v2_crossover_rebalance")
        if ref["virtual"]:
            sim.count("probe:v2_virtual_inventory_decides")
        got = Fraction(float(res.gm_amount))
        rec.update(minted=got, paid_usd=ref["paid_usd"], bonus_usd=ref["capped_positive_usd"], tol_usd=self._v2_tol_usd(cfg, ref))
        per_usd = st.supply / st.pool_value
        detail = dict(long=str(call["long"]), short=str(call["short"]), got_gm=_f(got), want_gm=_f(ref["gm"]), impact_usd=_f(imp),
                      capped=ref["capped"], impact_pool=_f(st.impact_pool), pool_value=_f(st.pool_value), supply=_f(st.supply))
        noise = self._v2_tol_usd(cfg, ref)
        cands = R.deposit_candidates(cfg, st, L, S, noise)
        if len(cands) > 1:
            sim.count("probe:v2_impact_sign_inside_noise_band")
        if any(c["reverts"] for c in cands):
            sim.count("probe:v2_negative_impact_exceeds_amount")
            if got < 0:
                sim.violate("c17.v2_mint_amount", "deposit:negative_mint", **detail)
        else:
            if all(abs(got - c["gm"]) > (V2_REL * (c["paid_usd"] + abs(c["impact"])) + noise) * per_usd for c in cands):
                sim.violate("c17.v2_mint_amount", f"deposit:gm_amount:{sign}:{'capped' if ref['capped'] else 'uncapped'}", **detail)
            gi = Fraction(float(res.price_impact_usd))
            if all(abs(gi - c["impact"]) > V2_REL * abs(c["impact"]) + noise for c in cands):
                sim.violate("c17.v2_price_impact", f"deposit:price_impact:{'crossover' if ref['crossover'] else 'same_side'}:{'virtual' if ref['virtual'] else 'pool'}",
                            got=_f(gi), **detail)
        # bookkeeping
        sides_ = [(self.mw[name]["long"], L, wl0), (self.mw[name]["short"], S, ws0)]
        if sides_[0][0] == sides_[1][0]:  # single-token pool: one wallet entry pays both sides
            sides_ = [(sides_[0][0], L + S, wl0)]
        for tokname, asked, w0 in sides_:
            w1 = post["wallet"].get(tokname, Decimal(0))
            paid = Fraction(w0) - Fraction(w1)
            snapped = w1 == 0 and w0 != 0 and abs(Fraction(w0) - asked) < Fraction(1, 10**5) * abs(Fraction(w0))
            if not snapped and abs(paid - asked) > V2_REL * asked + DEC_BAND * max(abs(Fraction(w0)), abs(Fraction(w1))):
                sim.violate("c17.v2_bookkeeping", "deposit:wallet_delta", token=tokname, asked=_f(asked), paid=_f(paid))
        dh = post["held"][name] - self.pre["held"][name]
        if abs(dh - got) > V2_REL * max(abs(got), abs(self.pre["held"][name])):
            sim.violate("c17.v2_bookkeeping", "deposit:gm_delta", returned=_f(got), delta=_f(dh))

    def _v2_withdraw(self, sim, cfg, st, name, call, ok, res, post, rec):
        held0 = self.pre["held"][name]
        g = held0 if call["amount"] is None else Fraction(float(call["amount"]))
        band = V2_HOLD_BAND * max(abs(held0), abs(g))
        if g > held0 + band:
            sim.count("fault:reject:withdraw_beyond_holding")
            sim.state(("v2", "withdraw", "beyond_holding", ok))
            if ok:
                sim.violate("c17.over_redemption", "withdraw:beyond_holding", gm=_f(g), held=_f(held0), long_out=res.long_amount, short_out=res.short_amount)
            return
        if g > held0 - band and g != held0:
            sim.count("probe:v2_withdraw_inside_holding_band")
            if not ok:
                return
        if g < 0:
            return
        sim.state(("v2", "withdraw", "within", ok, call["amount"] is None, g == held0))
        if not ok:
            sim.count("probe:v2_withdraw_within_holding_rejected")
            return
        ref = R.withdraw(cfg, st, g)
        sim.count("probe:v2_withdraw_ok")
        gl, gs = Fraction(float(res.long_amount)), Fraction(float(res.short_amount))
        detail = dict(gm=_f(g), got_long=_f(gl), want_long=_f(ref["long_out"]), got_short=_f(gs), want_short=_f(ref["short_out"]),
                      pool_value=_f(st.pool_value), supply=_f(st.supply))
        if abs(gl - ref["long_out"]) > V2_REL * abs(ref["long_out"]):
            sim.violate("c17.v2_redeem_amount", "withdraw:long_amount", **detail)
        if abs(gs - ref["short_out"]) > V2_REL * abs(ref["short_out"]):
            sim.violate("c17.v2_redeem_amount", "withdraw:short_amount", **detail)
        outs_ = [(self.mw[name]["long"], gl), (self.mw[name]["short"], gs)]
        if outs_[0][0] == outs_[1][0]:
            outs_ = [(outs_[0][0], gl + gs)]
        for tokname, out in outs_:
            w0, w1 = self.pre["wallet"].get(tokname, Decimal(0)), post["wallet"].get(tokname, Decimal(0))
            if abs(Fraction(w1) - Fraction(w0) - out) > V2_REL * abs(out) + DEC_BAND * max(abs(Fraction(w0)), abs(Fraction(w1))):
                sim.violate("c17.v2_bookkeeping", "withdraw:wallet_delta", token=tokname, returned=_f(out), delta=_f(Fraction(w1) - Fraction(w0)))
        if abs((held0 - post["held"][name]) - g) > V2_REL * max(abs(g), abs(held0)):
            sim.violate("c17.v2_bookkeeping", "withdraw:gm_delta", gm=_f(g), before=_f(held0), after=_f(post["held"][name]))
        # same-bar round trip deposit -> withdraw, valued at this bar's prices
        prev = self.hist[-1] if self.hist else None
        if (prev and prev["ok"] and prev["kind"] == "deposit" and prev["m"] == name and prev["bar"] == sim.bar and prev["phase"] == rec["phase"]
                and prev.get("minted", 0) > 0 and 0 < g <= prev["minted"] * (1 + V2_REL)):
            share = min(Fraction(1), g / prev["minted"])
            bound = (prev["paid_usd"] + prev["bonus_usd"]) * share
            out_usd = gl * st.long_price + gs * st.short_price
            positive = prev["bonus_usd"] > 0
            sim.count("probe:v2_round_trip_" + ("positive_impact" if positive else "non_positive_impact"))
            sim.state(("v2", "round_trip", positive, share == 1))
            if out_usd > bound * (1 + V2_REL) + prev["tol_usd"]:
                sim.violate("c17.round_trip", f"v2:deposit_withdraw:{'positive_impact' if positive else 'non_positive_impact'}",
                            paid_usd=_f(prev["paid_usd"]), capped_impact_usd=_f(prev["bonus_usd"]), share=_f(share), returned_usd=_f(out_usd))

    # ------------------------------------------------------------------------------------------------ end of run
    def finish(self, sim):
        if sim.crash is not None:
            name = type(sim.crash).__name__
            last = (getattr(sim, "crash_where", None) or ["?"])[-1]
            if last.split(":")[0] in ("gmx.py", "c17.py", "sim.py", "canon.py"):  # the harness' own code raised, not demeter
                raise HarnessError(f"harness code raised inside the bar loop: {name} at {last}: {sim.crash}")
            sim.violate("c17.crash", name + "@" + "/".join(getattr(sim, "crash_where", ["?"])[-1:]), msg=str(getattr(sim.crash, "message", sim.crash))[:200])
            return
        for n, (lo, hi) in self.reward_expected.items():
            got = Fraction(Decimal(sim.markets[n].reward))
            band = (DEC_BAND * max(1, self.bars_seen) + V1_REWARD_REL) * max(abs(lo), abs(hi), abs(got))
            if not (min(lo, hi) - band <= got <= max(lo, hi) + band):
                sim.violate("c17.v1_reward", "finish:not_additive", got=_f(got), want_lo=_f(lo), want_hi=_f(hi))


def _dec_eq(got: Fraction, want: Fraction, *operands) -> bool:
    """Equality up to the 35-significant-digit Decimal arithmetic the balances are kept in."""
    scale = max([abs(got), abs(want)] + [abs(Fraction(o)) for o in operands])
    return abs(got - want) <= DEC_BAND * scale


def _devclass(st, tok):
    t, i = st.target(tok), st.usdg[tok]
    if t == 0:
        return "target0"
    if i == t:
        return "on"
    return "under" if i < t else ("over" if i - t <= t else "far_over")


def _on_frontier(st, tok, delta, increment):
    t, i = st.target(tok), st.usdg[tok]
    if t == 0:
        return False
    nxt = i + delta if increment else max(0, i - delta)
    return abs(nxt - t) == abs(i - t) and delta != 0


def _integral_fee(st, tok, ref):
    """True when the fee rule yields a whole number of basis points without its own floor (so an implementation that keeps
    fractional basis points in the rebate must still land on exactly the reference amount)."""
    if ref["branch"] != "rebate":
        return True
    t = st.target(tok)
    d0 = abs(st.usdg[tok] - t)
    return (R.TAX_BPS * d0) % t == 0 or R.TAX_BPS * d0 > R.MINT_BURN_FEE_BPS * t


# ====================================================================================================== plugin
def execute(scenario) -> Sim:
    sim = Sim(scenario, GmxOracle())
    return sim.run()


def abstract(scenario, sim):
    return sim.states


def nontrivial(state) -> bool:
    return True


def after_truncate(scenario):
    labels, _, _ = G.bar_labels(scenario["world"])
    nb = len(labels)
    scenario["program"] = [o for o in scenario["program"] if o["bar"] < nb]
    return scenario


def shrink_candidates(scenario):
    import copy

    w = scenario["world"]
    used = {o.get("m") for o in scenario.get("program", [])}
    # 1. drop markets no remaining operation touches
    if len(w["markets"]) > 1:
        for mw in w["markets"]:
            if mw["name"] not in used:
                c = copy.deepcopy(scenario)
                c["world"]["markets"] = [x for x in c["world"]["markets"] if x["name"] != mw["name"]]
                yield c
    # 2. constant history: every row = the row of the first operation's bar
    n = int(w["n"])
    if scenario.get("program") and not scenario.get("_const"):
        labels, rows, _ = G.bar_labels(w)
        b = max(0, min(scenario["program"][0]["bar"], len(rows) - 1))
        r = rows[b][0]

        def const(o):
            if isinstance(o, dict):
                return {k: const(v) for k, v in o.items()}
            if isinstance(o, list) and len(o) == n and not (o and isinstance(o[0], dict)):
                return [o[r]] * n
            return o

        c = copy.deepcopy(scenario)
        c["world"]["markets"] = [const(m) for m in c["world"]["markets"]]
        c["world"]["prices"] = const(c["world"]["prices"])
        c["_const"] = True
        yield c
    # 3. 1-minute bars
    if w.get("interval", "1min") != "1min":
        c = copy.deepcopy(scenario)
        c["world"]["interval"] = "1min"
        yield c


RULE = (
    "one case = one GMX operation (buy_glp / sell_glp / get_fee_basis_points / deposit / withdraw), one same-bar round trip or one "
    "bar's reward accrual checked inside a seeded run of the real bar loop; distinct_nontrivial counts distinct abstract cases: "
    "v1 (operation, fee-rule branch rebate/tax/target0, average-diff capped, redemption exceeding the token's USDG, token decimals 18 / "
    "non-18, pool deviation under/on/over/far-over/target-0, accepted/rejected), v2 (operation, impact sign, impact capped by the pool, "
    "crossover, virtual inventory decides, sides deposited, beyond/within holding, accepted/rejected), round trips and reward bars"
)
BUDGET = {"quick": {"runs": 2400, "wall": 55}, "thorough": {"runs": 120000, "wall": 1100}}
LEVEL = "exploration"
ASSUMPTIONS = [
    "amounts are handed over in whole smallest units of the token (GLP: 18 decimals), non-negative; negative amounts belong to C04's rejection catalogue",
    "GMX v2 worlds run at the 1-minute interval only (GmxV2Market._resample calls a pandas API that does not exist); v1 worlds also at 2 and 5 minutes",
    "every *_usdg column has at least one value above int64 (as in the recorded files); an all-small column is inferred as int64 by read_csv and "
    "the market stops with Decimal(numpy.int64) - a loader-dtype accident outside the twenty properties",
    "the data carries one price per token, one AUM and one pool value (the contracts' min/max price and max-pnl variants coincide)",
    "the single impactPoolAmount figure of the v2 data is taken as the impact pool of whichever token a positive impact is paid in",
    "on a resampled (k-minute) v1 bar the reward may be 1x or kx the per-row emission: the property fixes the pro-rata share, not the time scaling",
    "a buy/deposit for more than the wallet holds, and wallet amounts within 1e-5 of the balance (Asset.sub snaps them), are outside the amount checks",
    "GMX v2 market configuration (impact and fee factors) is an input of the world, impact exponent fixed at 2 as on chain",
    "a v2 withdrawal within 1e-9 (relative) of the float holding may be accepted or rejected",
    "v1 pool limits of the Vault (poolAmount / bufferAmount / maxUsdgAmount reverts) are not modelled by demeter and not demanded",
]
LEVEL_TEXT = (
    "seeded exploration: thousands of generated GLP / GM pool histories (token weights incl. 0, USDG amount zero / under / exactly on / over / "
    "far over target, AUM/supply ratios 0.01-100, 6-, 8- and 18-decimal tokens, impact pool 0 ... 1e5, long-/short-heavy and exactly balanced "
    "pools, virtual inventory agreeing or not, alternative fee/impact configurations) x scripted programs (buys and sells aimed at the fee "
    "rule's frontiers, same-bar round trips, cross-token redemptions, oversize redemptions, wallet-short buys, reads) run through the real "
    "bar loop; every result is compared with an integer (v1) / exact-Fraction (v2) reference. Sampling, not proof."
)
LEVEL_NOTE = (
    "trusted: the oracle's reading of the GMX rules (DESIGN appendix A.6), the generator's reach (see reach_probes), Python int/Fraction/Decimal; "
    "histories are synthetic frames parsed by the loader's own read_csv call (v1) / float64 frames (v2)"
)
