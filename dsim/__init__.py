"""dsim - deterministic simulation with fault injection for zelos-alpha/demeter."""
