for p in C10 C11 C12 C13 C14 C15 C16 C17; do
  VERIF_SEED=101 timeout 1500 /venv/bin/python -m dsim.check $p --tier thorough --workers 5 --no-evidence 2>&1 | grep -v conda | grep -E "VIOLATION|HARNESS|KNOWN|done|oracle=" | cut -c1-600
done
