"""C08 - per-bar LP fee = volume x fee rate x in-range path fraction x liquidity share.

Real: Actuator.run bar loop, UniLpMarket.set_market_status (prev-close tracking, own-liquidity term, second refresh),
V3CoreLib.update_fee, uniswap.data.resample/fillna/_add_statistic_column.
Oracle: exact Fraction recomputation from my own copy of the raw series (DESIGN A.2).
"""
from decimal import Decimal
from fractions import Fraction

import pandas as pd

from ..sim import Sim, Oracle
from ..worlds import uni as U
from .. import rng as R

ID = "C08"
TOL = Fraction(1, 10**30)
MIN_TICK, MAX_TICK = -887272, 887272

TOKEN_SETS = [
    (("USDC", 6), ("WETH", 18)),
    (("WBTC", 8), ("WETH", 18)),
    (("WETH", 18), ("USDT", 6)),
    (("DAI", 18), ("WETH", 18)),
    (("WBTC", 8), ("USDC", 6)),
    (("WETH", 18), ("STETH", 18)),  # parity pair: ticks around 0
]


# --------------------------------------------------------------------------------------------------- generation
def generate(seed: int, tier: str = "quick") -> dict:
    rw = R.sub(seed, "world")
    rp = R.sub(seed, "program")
    rf = R.sub(seed, "faults")
    interval = rw.choice(["1min"] * 6 + ["2min", "5min", "15min"])
    k = int(pd.Timedelta(interval) / pd.Timedelta("1min"))
    nbars = rw.choice([3, 4, 6, 8, 12, 20, 30] if tier == "quick" else [3, 5, 8, 12, 20, 30, 60, 120])
    n = nbars * k
    start_min = rw.choice([0, 0, 0, 7, 30]) if k == 1 else rw.choice([0, 0, 1, k - 1])
    start = pd.Timestamp("2023-08-13 00:00:00") + pd.Timedelta(minutes=start_min + 60 * rw.randint(0, 20))
    t0, t1 = rw.choice(TOKEN_SETS)
    if rw.random() < 0.5:
        t0, t1 = t1, t0
    quote = rw.choice([t0[0], t1[0]])
    parity = "STETH" in (t0[0], t1[0])
    mw = U.gen_uni_market(rw, "uni0", n, t0, t1, quote, base_price=rw.uniform(0.985, 1.015) if parity else None)
    sp = U.spacing_of(mw["fee"])
    ticks = mw["closeTick"]
    # per-bar close ticks on the resampled grid (what the loop will see)
    grid = _grid(start, n, k)
    bars = sorted(set(grid))
    nb = len(bars)

    def close_of(bar):  # last raw tick in resampled bar
        idx = max(i for i, g in enumerate(grid) if g == bars[bar])
        return idx

    world = {
        "start": str(start),
        "n": n,
        "interval": interval,
        "tokens": {t0[0]: t0[1], t1[0]: t1[1]},
        "assets": {t0[0]: "1000000", t1[0]: "1000000"},
        "prices": None,
        "markets": [mw],
    }
    program = []
    faults = []
    npos = rp.choice([1, 1, 2, 2, 3, 4])
    ranges = []
    for j in range(npos):
        b = rp.randint(-1, max(-1, nb - 2))
        phase = "initialize" if b == -1 else rp.choice(["before_bar", "trigger", "on_bar", "on_bar", "after_bar"])
        cur = ticks[close_of(max(b, 0))]
        style = rp.random()
        if style < 0.08:
            lo, hi = _usable(MIN_TICK, sp, up=True), _round(cur + rp.randint(1, 20) * sp, sp)
        elif style < 0.16:
            lo, hi = _round(cur - rp.randint(1, 20) * sp, sp), _usable(MAX_TICK, sp, up=False)
        else:
            lo = _round(cur + rp.randint(-12, 4) * sp, sp)
            hi = lo + rp.randint(1, 16) * sp
        ranges.append((lo, hi))
        program.append(
            {
                "bar": b,
                "phase": phase,
                "op": "uni.add_by_tick",
                "m": "uni0",
                "a": {
                    "lo": lo,
                    "hi": hi,
                    "base": {"f": f"wallet:{_base(mw)}", "x": str(round(rp.uniform(0.01, 0.3), 4))},
                    "quote": {"f": f"wallet:{_quote(mw)}", "x": str(round(rp.uniform(0.01, 0.3), 4))},
                },
            }
        )
    # hostile history placed relative to the generated ranges
    nfault = rf.choice([0, 1, 1, 2, 3, 4])
    for _ in range(nfault):
        if nb < 2:
            break
        kind = rf.choice(["tick_on_bound", "tick_on_bound", "tick_jump", "tick_stationary", "zero_volume", "pool_liq_zero", "cross_in"] + (["tick_zero"] * 4 if parity else []))
        bar = rf.randint(1, nb - 1)
        i = close_of(bar)
        lo, hi = rf.choice(ranges)
        if kind == "tick_on_bound":
            ticks[i] = rf.choice([lo, hi, lo - 1, hi - 1, lo + 1, hi + 1])
        elif kind == "tick_jump":
            ticks[i] = rf.choice([lo - rf.randint(1, 50) * sp, hi + rf.randint(1, 50) * sp])
            if bar + 1 < nb and rf.random() < 0.5:
                ticks[close_of(bar + 1)] = rf.choice([lo - rf.randint(1, 50) * sp, hi + rf.randint(1, 50) * sp])
        elif kind == "cross_in":
            ticks[i] = rf.randint(lo, max(lo, hi - 1))
        elif kind == "tick_zero":
            ticks[i] = 0  # a close exactly on tick 0: the next bar's path starts at 0, which is a tick like any other
        elif kind == "tick_stationary":
            ticks[i] = ticks[close_of(bar - 1)]
        elif kind == "zero_volume":
            mw["inAmount0"][i] = "0"
            if rf.random() < 0.5:
                mw["inAmount1"][i] = "0"
        elif kind == "pool_liq_zero":
            mw["currentLiquidity"][i] = "0"
        faults.append({"kind": kind, "bar": bar})
    for i in range(len(ticks)):
        ticks[i] = max(MIN_TICK + 1, min(MAX_TICK - 1, ticks[i]))
    # other operations: same-bar writes on unrelated ranges, removes, collects, swaps
    nother = rp.choice([0, 1, 2, 3, 5, 8])
    for _ in range(nother):
        b = rp.randint(0, nb - 1)
        phase = rp.choice(["before_bar", "trigger", "on_bar", "on_bar", "after_bar"])
        kind = rp.choice(["add_unrelated", "add_unrelated", "remove_part", "remove_all_of", "collect", "buy", "sell", "add_same", "lend_out", "take_back", "add_then_refused", "read_balance", "read_balance"])
        cur = ticks[close_of(b)]
        if kind == "read_balance":
            # a read-only look at the market balance (or the whole account) in the middle of a bar
            program.append({"bar": b, "phase": rp.choice(["before_bar", "trigger", "on_bar"]), "op": rp.choice(["uni.read_balance", "c08.read_account"]), "m": "uni0", "a": {}})
            continue
        if kind == "add_then_refused":
            # an accepted liquidity change followed, in the same phase of the same bar, by a write the pool refuses: the
            # refused call must not take back what the accepted one earned (the bar's second status refresh)
            lo = _round(cur + rp.randint(-30, 10) * sp, sp)
            a = {"lo": lo, "hi": lo + rp.randint(1, 30) * sp, "base": {"f": f"wallet:{_base(mw)}", "x": "0.03"}, "quote": {"f": f"wallet:{_quote(mw)}", "x": "0.03"}}
            program.append({"bar": b, "phase": phase, "op": "uni.add_by_tick", "m": "uni0", "a": a})
            bad = rp.choice(["too_much", "unknown_position", "collect_unknown"])
            if bad == "too_much":
                a2 = {"lo": lo, "hi": lo + sp, "base": {"f": f"wallet:{_base(mw)}", "x": "3"}, "quote": {"f": f"wallet:{_quote(mw)}", "x": "3"}}
                program.append({"bar": b, "phase": phase, "op": "uni.add_by_tick", "m": "uni0", "a": a2})
            elif bad == "unknown_position":
                program.append({"bar": b, "phase": phase, "op": "uni.remove", "m": "uni0", "a": {"pos": {"lo": _round(880000, sp) - sp, "hi": _round(880000, sp)}}})
            else:
                program.append({"bar": b, "phase": phase, "op": "uni.collect", "m": "uni0", "a": {"pos": {"lo": _round(880000, sp) - sp, "hi": _round(880000, sp)}}})
            faults.append({"kind": "same_bar_write_then_refused_write", "bar": b})
            continue
        if kind == "add_unrelated":
            lo = _round(cur + rp.randint(-400, 400) * sp, sp)
            hi = lo + rp.randint(1, 30) * sp
            a = {"lo": lo, "hi": hi, "base": {"f": f"wallet:{_base(mw)}", "x": "0.02"}, "quote": {"f": f"wallet:{_quote(mw)}", "x": "0.02"}}
            program.append({"bar": b, "phase": phase, "op": "uni.add_by_tick", "m": "uni0", "a": a})
            faults.append({"kind": "same_bar_write", "bar": b})
        elif kind == "add_same":
            lo, hi = rp.choice(ranges)
            a = {"lo": lo, "hi": hi, "base": {"f": f"wallet:{_base(mw)}", "x": "0.05"}, "quote": {"f": f"wallet:{_quote(mw)}", "x": "0.05"}}
            program.append({"bar": b, "phase": phase, "op": "uni.add_by_tick", "m": "uni0", "a": a})
        elif kind == "remove_part":
            a = {"pos": {"i": rp.randint(0, 5)}, "liq": {"f": f"liq:uni0#{rp.randint(0, 5)}", "x": str(round(rp.uniform(0.1, 0.9), 3))}, "collect": rp.random() < 0.5}
            program.append({"bar": b, "phase": phase, "op": "uni.remove", "m": "uni0", "a": a})
        elif kind == "remove_all_of":
            a = {"pos": {"i": rp.randint(0, 5)}, "collect": rp.random() < 0.5}
            program.append({"bar": b, "phase": phase, "op": "uni.remove", "m": "uni0", "a": a})
        elif kind == "collect":
            program.append({"bar": b, "phase": phase, "op": "uni.collect", "m": "uni0", "a": {"pos": {"i": rp.randint(0, 5)}}})
        elif kind in ("lend_out", "take_back"):
            # a position handed to another market (e.g. as vault collateral) stays in the pool and keeps earning
            i_pos = rp.randint(0, 5)
            program.append({"bar": b, "phase": phase, "op": "uni.transfer_out" if kind == "lend_out" else "uni.transfer_in", "m": "uni0", "a": {"pos": {"i": i_pos}}})
            if kind == "lend_out" and rp.random() < 0.6 and b + 2 < nb:
                program.append({"bar": rp.randint(b + 2, nb - 1), "phase": phase, "op": "uni.transfer_in", "m": "uni0", "a": {"pos": {"i": i_pos}}})
            faults.append({"kind": "position_lent_out", "bar": b})
        elif kind == "buy":
            program.append({"bar": b, "phase": phase, "op": "uni.buy", "m": "uni0", "a": {"amount": {"f": f"wallet:{_base(mw)}", "x": "0.01"}}})
        else:
            program.append({"bar": b, "phase": phase, "op": "uni.sell", "m": "uni0", "a": {"amount": {"f": f"wallet:{_base(mw)}", "x": "0.01"}}})
    program.sort(key=lambda o: (o["bar"], ["initialize", "before_bar", "trigger", "on_bar", "after_bar", "notify"].index(o["phase"])))
    # a second pool of the same pair on the broker that nobody touches, registered before or after the pool under test:
    # whether and when uni0 gets its same-bar refresh must not depend on its neighbours
    rb = R.sub(seed, "bystander")
    if rb.random() < 0.35:
        fee_b = rb.choice([f for f in U.FEES if f != mw["fee"]])
        other = U.gen_uni_market(rb, "uniB", n, t0, t1, quote, fee=fee_b)
        other["currentLiquidity"] = [x if int(x) > 0 else "1000000000000" for x in other["currentLiquidity"]]
        first = rb.random() < 0.7
        world["markets"] = [other, mw] if first else [mw, other]
        faults.append({"kind": "bystander_pool_registered_" + ("first" if first else "last"), "bar": 0})
    rd = R.sub(seed, "derived_columns")
    if rd.random() < 0.12:
        mw["derived_columns"] = rd.choice(["stale", "stale", "absent"])
        faults.append({"kind": "informational_volume_columns_" + mw["derived_columns"]})
    return {"property": ID, "seed": seed, "world": world, "program": program, "faults": faults}


def _base(mw):
    return mw["token1"] if mw["quote"] == mw["token0"] else mw["token0"]


def _quote(mw):
    return mw["quote"]


def _round(t, sp):
    t = max(MIN_TICK, min(MAX_TICK, t))
    r = int(round(t / sp)) * sp
    if r < MIN_TICK:
        r += sp
    if r > MAX_TICK:
        r -= sp
    return r


def _usable(t, sp, up):
    return -((-t) // sp) * sp if up else (t // sp) * sp


def _grid(start, n, k):
    """bin label of each raw minute on the resampled grid (origin = start of day, as pandas' default)."""
    out = []
    for i in range(n):
        ts = start + pd.Timedelta(minutes=i)
        mins = ts.hour * 60 + ts.minute
        lab = ts.normalize() + pd.Timedelta(minutes=(mins // k) * k)
        out.append(lab)
    return out


# --------------------------------------------------------------------------------------------------- oracle
class FeeOracle(Oracle):
    """Checks pending-amount deltas across [on_bar end, after_bar begin] - exactly the second refresh + update()."""

    def start(self, sim):
        w = sim.world
        mw = next(m for m in w["markets"] if m["name"] == "uni0")
        self.mw = mw
        k = int(pd.Timedelta(w["interval"]) / pd.Timedelta("1min"))
        start = pd.Timestamp(w["start"])
        grid = _grid(start, int(w["n"]), k)
        labels = sorted(set(grid))
        self.labels = labels
        self.close, self.v0, self.v1, self.lpool = [], [], [], []
        ticks = _ffill([None if t is None else int(t) for t in mw["closeTick"]])
        for lab in labels:
            idx = [i for i, g in enumerate(grid) if g == lab]
            self.close.append(ticks[idx[-1]])
            self.v0.append(sum(int(mw["inAmount0"][i]) for i in idx))
            self.v1.append(sum(int(mw["inAmount1"][i]) for i in idx))
            self.lpool.append(int(mw["currentLiquidity"][idx[-1]]))
        self.fee_rate = Fraction(Decimal(str(mw["fee"]))) / 100
        self.pending_at_end = {}
        self.before = None
        self.d0 = int(sim.world["tokens"][mw["token0"]])
        self.d1 = int(sim.world["tokens"][mw["token1"]])

    def phase(self, sim, bar, phase, pos):
        m = sim.markets["uni0"]
        if phase == "on_bar" and pos == "end":
            self.before = {k: (p.pending_amount0, p.pending_amount1, int(p.liquidity)) for k, p in m.positions.items()}
        elif phase == "after_bar" and pos == "begin":
            if self.before is None:
                return
            self._check(sim, bar, m)
            self.before = None
        elif phase == "after_bar" and pos == "end":
            # what the account row of this bar must report as uncollected: the pending amounts of the positions the pool owns
            own = [p for p in m.positions.values() if not p.transferred]
            self.pending_at_end[bar] = (sum((Fraction(p.pending_amount0) for p in own), Fraction(0)), sum((Fraction(p.pending_amount1) for p in own), Fraction(0)))

    def _check(self, sim, bar, m):
        if bar >= len(self.labels):
            sim.violate("c08.grid", "bar_index", bar=bar, expected_bars=len(self.labels))
            return
        if pd.Timestamp(sim.snapshot.timestamp) != self.labels[bar]:
            sim.violate("c08.grid", "bar_label", bar=bar, got=sim.snapshot.timestamp, want=self.labels[bar])
            return
        c = self.close[bar]
        cp = self.close[bar - 1] if bar > 0 else c
        own = sum(v[2] for v in self.before.values())
        total = self.lpool[bar] + own
        npos = len(self.before)
        for key, (p0, p1, liq) in self.before.items():
            if key not in m.positions:
                sim.violate("c08.position_vanished", "update", bar=bar, pos=key)
                continue
            pos = m.positions[key]
            if int(pos.liquidity) != liq:
                sim.violate("c08.liquidity_changed_in_update", "update", bar=bar, pos=key)
            got0 = Fraction(pos.pending_amount0) - Fraction(p0)
            got1 = Fraction(pos.pending_amount1) - Fraction(p1)
            lo, hi = key.lower_tick, key.upper_tick
            w = path_weight(cp, c, lo, hi)
            if total == 0:
                sim.count("probe:undefined_share")
                continue
            share = Fraction(liq, total)
            exp0 = Fraction(self.v0[bar], 10**self.d0) * self.fee_rate * w * share
            exp1 = Fraction(self.v1[bar], 10**self.d1) * self.fee_rate * w * share
            # probes / abstract state
            cls = "full" if w == 1 else ("none" if w == 0 else "partial")
            sim.count("probe:w_" + cls)
            if cp != c and (min(cp, c) < lo and max(cp, c) >= hi):
                sim.count("probe:jump_over_range")
            if c in (lo, hi):
                sim.count("probe:close_on_bound")
            if cp in (lo, hi) and bar > 0:
                sim.count("probe:prev_on_bound")
            wrote = self._wrote_this_bar(sim, bar)
            if wrote and cls == "partial":
                sim.count("probe:second_refresh_in_crossing_bar")
            sim.state((cls, _rel(cp, lo, hi), _rel(c, lo, hi), wrote, min(npos, 3), self.lpool[bar] == 0))
            for tok, got, exp, after in (("token0", got0, exp0, pos.pending_amount0), ("token1", got1, exp1, pos.pending_amount1)):
                if got < 0:
                    sim.violate("c08.negative_fee", tok, bar=bar, pos=key, got=_f(got))
                if not _close(got, exp, Fraction(after)):
                    sim.violate(
                        "c08.fee_formula",
                        f"{tok}:w_{cls}:{'same_bar_write' if wrote else 'quiet_bar'}",
                        bar=bar, pos=key, got=_f(got), want=_f(exp), prev_close=cp, close=c, weight=_f(w),
                        share=_f(share), own=own, pool=self.lpool[bar],
                    )
                # single-position share bound / multi-position bound
                bound = Fraction(liq, self.lpool[bar] + liq) if self.lpool[bar] + liq else Fraction(0)
                vol = Fraction(self.v0[bar], 10**self.d0) if tok == "token0" else Fraction(self.v1[bar], 10**self.d1)
                lim = vol * self.fee_rate * w * bound
                if got > lim + TOL * max(lim, abs(Fraction(after))) + Fraction(1, 10**40):
                    sim.violate("c08.share_bound", tok, bar=bar, pos=key, got=_f(got))

    def _wrote_this_bar(self, sim, bar):
        return any(
            r["status"] == "ok" and o["bar"] == bar and o["phase"] in ("before_bar", "trigger", "on_bar")
            and o["op"] in ("uni.add_by_tick", "uni.remove", "uni.collect")
            for o, r in sim.done_ops()
        )

    def finish(self, sim):
        m = sim.markets["uni0"]
        t0_is_base = self.mw["quote"] != self.mw["token0"]
        for bar, (p0, p1) in sorted(self.pending_at_end.items()):
            if bar >= len(sim.actuator.account_status):
                continue
            ms = sim.actuator.account_status[bar].market_status
            if m.market_info not in ms:
                continue
            bal = ms[m.market_info]
            want_base, want_quote = (p0, p1) if t0_is_base else (p1, p0)
            for name, got, want in (("base_uncollected", bal.base_uncollected, want_base), ("quote_uncollected", bal.quote_uncollected, want_quote)):
                if not _close(Fraction(got), want, want):
                    sim.violate("c08.reported_uncollected", name, bar=bar, got=_f(Fraction(got)), want=_f(want))
                    break
            else:
                continue
            break
        if sim.crash is not None:
            name = type(sim.crash).__name__
            if name in ("InvalidOperation", "DivisionByZero", "ZeroDivisionError", "DivisionUndefined"):
                sim.count("probe:undefined_share_crash")
                return
            sim.violate("c08.crash", name + "@" + "/".join(sim.crash_where[-1:]), msg=str(sim.crash)[:200])


from ..sim import op as _op  # noqa: E402


@_op("c08.read_account")
def _read_account(sim, m, a):
    return lambda: sim.broker.get_account_status(sim.prices_now()).net_value


def path_weight(cp, c, lo, hi) -> Fraction:
    if cp == c:
        return Fraction(1) if lo <= c < hi else Fraction(0)
    a, b = min(cp, c), max(cp, c)
    inter = min(b, hi) - max(a, lo)
    if inter <= 0:
        return Fraction(0)
    return Fraction(inter, b - a)


def _rel(t, lo, hi):
    return "below" if t < lo else ("lo" if t == lo else ("in" if t < hi else ("hi" if t == hi else "above")))


def _ffill(xs):
    out, last = [], None
    for x in xs:
        if x is None:
            x = last
        out.append(x)
        last = x
    if out and out[0] is None:
        nxt = next((x for x in out if x is not None), 0)
        out = [nxt if x is None else x for x in out]
    return out


def _close(a: Fraction, b: Fraction, scale: Fraction = Fraction(0)) -> bool:
    """relative 1e-30 of the larger of the fee and the running pending total (Decimal precision is 35 digits of
    the *accumulated* pending amount, so a small delta on a large total carries that absolute rounding)."""
    if a == b:
        return True
    return abs(a - b) <= TOL * max(abs(a), abs(b), abs(scale)) + Fraction(1, 10**45)


def _f(fr):
    return format(Decimal(fr.numerator) / Decimal(fr.denominator), ".40g") if isinstance(fr, Fraction) else fr


# --------------------------------------------------------------------------------------------------- execution
def execute(scenario) -> Sim:
    sim = Sim(scenario, FeeOracle())
    return sim.run()


def abstract(scenario, sim):
    return sim.states


RULE = (
    "one case = one (bar, position) fee evaluation inside a seeded run of the real bar loop; distinct_nontrivial counts "
    "distinct abstract cases (weight class none/partial/full, where prev close and close sit relative to the range "
    "[below,lo,in,hi,above], whether a write_func operation ran in the bar before update, number of positions capped "
    "at 3, pool liquidity zero) with weight class != none or a boundary involved"
)


def nontrivial(state) -> bool:
    cls, r0, r1, wrote, npos, z = state
    return cls != "none" or r0 in ("lo", "hi") or r1 in ("lo", "hi")


BUDGET = {"quick": {"runs": 4000, "wall": 90}, "thorough": {"runs": 200000, "wall": 1500}}
LEVEL = "exploration"
ASSUMPTIONS = [
    "bar 0 has no previous close and is treated as stationary (path = a point)",
    "ticks are float64 as produced by the real loader's reindex/ffill (int64 ticks crash an unrelated Decimal conversion)",
    "a bar where pool liquidity + own liquidity == 0 has an undefined share and is skipped (counted as probe undefined_share)",
    "oracle recomputes the resampled grid itself (bins aligned to midnight, close=last, volume=sum, liquidity=last)",
]
LEVEL_TEXT = (
    "seeded exploration: thousands of generated tick/volume/liquidity histories (calm, jumpy, closes on range bounds, "
    "jumps over the range, stationary, zero volume, zero pool liquidity, 1-15 min resampling) x scripted programs "
    "(positions added/removed/collected from every phase, unrelated same-bar writes) run through the real bar loop; "
    "every (bar, position) fee is compared with an exact Fraction recomputation. Sampling, not proof."
)
LEVEL_NOTE = (
    "trusted: the oracle's reading of the property (DESIGN appendix A.2), the generator's reach (see reach_probes in "
    "the evidence), Python Decimal/Fraction; histories are synthetic frames in the loader's output format"
)
