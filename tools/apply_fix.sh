#!/bin/bash
# usage: apply_fix.sh <patch> "<commit message starting with fix:>"
# applies one proposed fix to /repo, runs the unedited baseline suite, commits it on success
set -e
patch=$(realpath "$1"); msg="$2"
case "$msg" in fix:*) ;; *) echo "message must start with fix:"; exit 2;; esac
cd /repo
git apply --check "$patch"
git apply "$patch"
out=$(/venv/bin/python -m pytest -q -p no:cacheprovider --timeout=900 --continue-on-collection-errors 2>&1 | tail -1)
echo "$out"
if echo "$out" | grep -q "111 passed"; then
  git add -u -- demeter
  git commit -q -m "$msg"
  git log --oneline | head -1
else
  echo "BASELINE BROKEN - reverting"; git checkout -- demeter; exit 1
fi
