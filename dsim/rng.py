"""One integer decides everything: labelled sub-streams derived by SHA-256."""
import hashlib
import random


def h64(*parts) -> int:
    m = hashlib.sha256()
    for p in parts:
        m.update(repr(p).encode())
        m.update(b"\x00")
    return int.from_bytes(m.digest()[:8], "big")


def sub(seed: int, *labels) -> random.Random:
    return random.Random(h64(seed, *labels))


def run_seed(master: int, prop: str, index: int) -> int:
    return h64("run", master, prop, index) % (1 << 53)
