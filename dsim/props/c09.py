"""C09 - token order is immaterial: a pool and its mirror (token0 <-> token1) give the same economic results.

World A has the quote token as token0, world B (built by `mirror`) has it as token1: ticks negated, per-token volumes
swapped, decimals follow the tokens, same liquidity. The same program, written in base/quote terms, runs in both through
the real bar loop; every operation result and every bar's account status is compared after base/quote normalisation.
"""
import copy
import math
from decimal import Decimal
from fractions import Fraction

import pandas as pd

from ..sim import Sim, Oracle
from ..multi import Combined
from ..worlds import uni as U
from ..worlds import helpers as LH
from .. import rng as R

ID = "C09"
TOL = Fraction(1, 10**12)  # property: "to within 1e-12 relative"
TOL_EST = Fraction(1, 10**3)  # property: estimate-based helpers "to within 0.1%"
ABS_FLOOR = Fraction(1, 10**18)  # below one wei of any token: differences of this size are not economic outcomes
EST_OPS = ("uni.add_by_value", "uni.estimate_amount", "uni.estimate_liquidity")

PAIRS = [  # (quote, base)
    (("USDC", 6), ("WETH", 18)),
    (("DAI", 18), ("WETH", 18)),
    (("WETH", 18), ("WBTC", 8)),
    (("USDT", 6), ("WETH", 18)),
    (("WETH", 18), ("UNI", 18)),
    (("WETH", 18), ("STETH", 18)),  # a parity pair: equal decimals, price near 1, so ticks of both signs occur in either orientation
]
FEES = (0.05, 0.3, 1)


def _safe_tick(t, sp):
    """move t to the nearest tick whose residue mod spacing is >= 2 away from 0 and from spacing/2"""
    half = sp // 2
    for d in range(0, sp):
        for cand in (t + d, t - d):
            r = cand % sp
            if min(r, sp - r) >= 2 and abs(r - half) >= 2:
                return cand
    return t


# --------------------------------------------------------------------------------------------------- generation
def generate(seed: int, tier: str = "quick") -> dict:
    rw, rp = R.sub(seed, "world"), R.sub(seed, "program")
    quote, base = rw.choice(PAIRS)
    fee = rw.choice(FEES)
    sp = U.spacing_of(fee)
    interval = rw.choice(["1min"] * 5 + ["2min", "5min"])
    k = int(pd.Timedelta(interval) / pd.Timedelta("1min"))
    nbars = rw.choice([3, 5, 8, 12, 20] if tier == "quick" else [3, 5, 8, 12, 20, 40, 80])
    n = nbars * k
    start = pd.Timestamp("2023-08-13 00:00:00") + pd.Timedelta(minutes=k * rw.randint(0, 200))
    parity = base[0] == "STETH"
    mw = U.gen_uni_market(rw, "uni0", n, quote, base, quote[0], fee=fee, base_price=rw.uniform(0.97, 1.03) if parity else None)
    # world A: token0 = quote.  safe ticks: never on a usable tick, never near a rounding midpoint
    mw["closeTick"] = [_safe_tick(t, sp) for t in mw["closeTick"]]
    # keep pool liquidity positive (a zero-liquidity bar is C08's business)
    mw["currentLiquidity"] = [x if int(x) > 0 else "1000000000000" for x in mw["currentLiquidity"]]
    ticks = mw["closeTick"]

    def cur_tick(bar):  # tick of the price the strategy sees at `bar` (previous close; bar 0 -> own open = close)
        i = bar * k
        return ticks[i - 1] if i > 0 else ticks[0]

    world = {
        "start": str(start), "n": n, "interval": interval,
        "tokens": {quote[0]: quote[1], base[0]: base[1]},
        "assets": {quote[0]: "5000000", base[0]: "5000000"},
        "prices": None, "markets": [mw],
    }
    B, Q = base[0], quote[0]
    program = []
    n_ops = rp.choice([2, 4, 6, 10, 16])
    n_created = 0
    for _ in range(n_ops):
        bar = rp.randint(-1, nbars - 1)
        phase = "initialize" if bar == -1 else rp.choice(["before_bar", "on_bar", "on_bar", "after_bar"])
        ct = cur_tick(max(bar, 0))
        kind = rp.choice(
            ["add_by_tick"] * 4 + ["add"] * 2 + ["remove"] * 2 + ["collect", "buy", "sell", "swap", "even", "add_by_value",
             "read_balance", "read_pos", "est_amount", "est_liq", "t2p", "p2t", "reject", "lend_out", "take_back", "library", "top_up", "dust_collect"]
        )
        if n_created == 0 and kind in ("remove", "collect", "read_pos", "est_liq", "lend_out", "take_back", "top_up", "dust_collect"):
            kind = "add_by_tick"
        o = None
        where = rp.choice(["below", "in", "in", "above"])  # where the current price sits relative to the range

        def rng_ticks(min_gap=0):
            if parity and min_gap == 0 and rp.random() < 0.5:  # symmetric about tick 0: the mirror has the very same tick numbers
                j = rp.randint(1, 12) * sp  # (never for the estimate-based helpers, which need the price well inside or outside)
                return -j, j
            w = rp.randint(1, 12) * sp
            if where == "in":
                lo = (ct // sp) * sp - rp.randint(min_gap, 6) * sp
                hi = (ct // sp) * sp + sp + rp.randint(min_gap, 6) * sp
            elif where == "below":  # price below range (in A's tick frame)
                lo = (ct // sp) * sp + sp + rp.randint(min_gap, 8) * sp
                hi = lo + w
            else:
                hi = (ct // sp) * sp - rp.randint(min_gap, 8) * sp
                lo = hi - w
            return lo, hi

        if kind == "add_by_tick":
            lo, hi = rng_ticks()
            if sp > 1 and rp.random() < 0.3:
                # ticks off the spacing grid (trimmed by the market to the nearest usable tick), half a spacing off included:
                # rounding to usable ticks must commute with mirroring
                lo += rp.choice([sp // 2, sp // 2, rp.randint(1, sp - 1)])
                hi += rp.choice([sp // 2, sp // 2, rp.randint(1, sp - 1), 0])
            o = {"op": "uni.add_by_tick", "a": {"lo": lo, "hi": hi, "base": {"f": f"wallet:{B}", "x": _frac(rp)}, "quote": {"f": f"wallet:{Q}", "x": _frac(rp)}, "where": where}}
            r = rp.random()
            if r < 0.25:
                # the optional explicit pool price (as a tick, or as the sqrt price of a tick) instead of the bar's price:
                # below / inside / above the range, never on a bound, never +-1 (tick=-1 is the API's 'not given')
                et = rp.choice([lo - rp.randint(1, 3 * sp), rp.randint(lo + 1, max(lo + 1, hi - 1)), hi + rp.randint(1, 3 * sp), ct + rp.randint(-sp, sp)])
                if et not in (lo, hi, lo // sp * sp, hi // sp * sp, (lo // sp + 1) * sp, (hi // sp + 1) * sp) and abs(et) > 1:
                    o["a"]["tick" if r < 0.17 else "sqrt_tick"] = et
            n_created += 1
        elif kind == "add":
            lo, hi = rng_ticks()
            # prices in the middle of a tick, expressed as base price in quote; A: token0 is quote -> price falls as tick rises
            p_lo = _mid_price(hi, quote[1], base[1])
            p_hi = _mid_price(lo, quote[1], base[1])
            o = {"op": "uni.add", "a": {"lower_price": _s(p_lo), "upper_price": _s(p_hi), "base": {"f": f"wallet:{B}", "x": _frac(rp)}, "quote": {"f": f"wallet:{Q}", "x": _frac(rp)}, "where": where}}
            n_created += 1
        elif kind == "remove":
            a = {"pos": {"created": rp.randint(0, 7)}, "collect": rp.random() < 0.5}
            if rp.random() < 0.6:
                a["liq_frac"] = str(round(rp.uniform(0.05, 1.2), 3))
            o = {"op": "c09.remove", "a": a}
        elif kind == "collect":
            a = {"pos": {"created": rp.randint(0, 7)}}
            if rp.random() < 0.4:
                a["max_base"] = {"abs": str(round(rp.uniform(0, 50), 4))}
            if rp.random() < 0.4:
                a["max_quote"] = {"abs": str(round(rp.uniform(0, 50), 4))}
            o = {"op": "c09.collect", "a": a}
        elif kind == "buy":
            o = {"op": "uni.buy", "a": {"amount": {"f": f"wallet:{B}", "x": str(round(rp.uniform(0.001, 0.05), 4))}}}
        elif kind == "sell":
            o = {"op": "uni.sell", "a": {"amount": {"f": f"wallet:{B}", "x": str(round(rp.uniform(0.001, 0.2), 4))}}}
        elif kind == "swap":
            f, t = (B, Q) if rp.random() < 0.5 else (Q, B)
            o = {"op": "uni.swap", "a": {"from": f, "to": t, "amount": {"f": f"wallet:{f}", "x": str(round(rp.uniform(0.001, 0.1), 4))}}}
        elif kind == "even":
            o = {"op": "uni.even_rebalance", "a": {}}
        elif kind == "add_by_value":
            lo, hi = rng_ticks(min_gap=3)
            o = {"op": "uni.add_by_value", "a": {"lo": lo, "hi": hi, "value": {"f": f"wallet:{Q}", "x": str(round(rp.uniform(0.01, 0.3), 3))}, "where": where}}
            n_created += 1
        elif kind in ("lend_out", "take_back"):
            # a position handed to another market (and taken back): it leaves the pool's own balance, whichever token is token0
            o = {"op": "uni.transfer_out" if kind == "lend_out" else "uni.transfer_in", "a": {"pos": {"created": rp.randint(0, 7)}}}
        elif kind == "dust_collect":
            # a position emptied without collecting, then collected with caps that leave a speck of ONE token behind (less
            # than one atomic unit of a 6-decimals token, far more than one of an 18-decimals token), then looked at again
            j = rp.randint(0, 7)
            speck = rp.choice(["4e-7", "3e-9", "2e-13"])
            side = rp.choice(["base", "quote"])
            for o2 in ({"op": "c09.remove", "a": {"pos": {"created": j}, "collect": False}},
                       {"op": "c09.collect", "a": {"pos": {"created": j}, "max_base": {"pending": True, "minus": speck if side == "base" else "0"},
                                                     "max_quote": {"pending": True, "minus": speck if side == "quote" else "0"}}},
                       {"op": "uni.read_balance", "a": {}}):
                o2.update({"bar": bar, "phase": phase, "m": "uni0"})
                program.append(o2)
            o = {"op": "c09.collect", "a": {"pos": {"created": j}}}
        elif kind == "top_up":
            j = rp.randint(0, 7)
            o = {"op": "c09.top_up", "a": {"pos": {"created": j}, "base": {"f": f"wallet:{B}", "x": _frac(rp)}, "quote": {"f": f"wallet:{Q}", "x": _frac(rp)}}}
            o.update({"bar": bar, "phase": phase, "m": "uni0"})
            program.append(o)
            o = {"op": "uni.read_position_status", "a": {"pos": {"created": j}}}  # and a look at the position afterwards
        elif kind == "library":  # orientation-free library helpers: their values are not compared, what follows them is
            o = {"op": "lib.read_helpers", "a": {"which": LH.pick(rp)}}
        elif kind == "read_balance":
            o = {"op": "uni.read_balance", "a": {}}
        elif kind == "read_pos":
            o = {"op": "uni.read_position_status", "a": {"pos": {"created": rp.randint(0, 7)}}}
        elif kind == "est_amount":
            lo, hi = rng_ticks(min_gap=3)
            if where != "in":
                continue
            o = {"op": "uni.estimate_amount", "a": {"lo": lo, "hi": hi, "value": {"abs": str(round(rp.uniform(10, 5000), 2))}}}
        elif kind == "est_liq":
            o = {"op": "c09.estimate_liquidity", "a": {"pos": {"created": rp.randint(0, 7)}, "value": {"abs": str(round(rp.uniform(10, 5000), 2))}}}
        elif kind == "t2p":
            o = {"op": "uni.tick_to_price", "a": {"tick": ct + rp.randint(-2000, 2000)}}
        elif kind == "p2t":
            t = _safe_tick(ct + rp.randint(-2000, 2000), sp)
            o = {"op": "uni.price_to_tick", "a": {"price": _s(_mid_price(t, quote[1], base[1]))}}
        elif kind == "reject":
            r = rp.choice(["sell_too_much", "buy_too_much", "add_too_much", "add_all_of_one_too_much_of_other", "remove_unknown", "lower_gt_upper_value",
                           "degenerate_price_range", "by_value_on_the_edge"])
            if sp < 8 and r in ("degenerate_price_range", "by_value_on_the_edge"):
                r = "lower_gt_upper_value"  # (both need room inside one spacing cell)
            if r == "sell_too_much":
                o = {"op": "uni.sell", "a": {"amount": {"f": f"wallet:{B}", "x": "1.5"}}}
            elif r == "buy_too_much":
                o = {"op": "uni.buy", "a": {"amount": {"abs": "1e15"}}}
            elif r == "add_too_much":
                lo, hi = rng_ticks()
                o = {"op": "uni.add_by_tick", "a": {"lo": lo, "hi": hi, "base": {"f": f"wallet:{B}", "x": "3"}, "quote": {"f": f"wallet:{Q}", "x": "3"}, "where": where}}
                n_created += 1
            elif r == "add_all_of_one_too_much_of_other":
                # (nearly) the whole balance of one token - the wallet's 1e-5 snap-to-zero zone - and more of the other
                # than is held: whichever token the pool calls token0, a refused deposit must leave both wallets alone
                where = "in"
                lo, hi = rng_ticks()
                near = rp.choice(["1", "0.999996", "1.000004"])  # inside the snap zone only: 0.99999 is the threshold itself (a discontinuity) and 0.99998 leaves a remainder of 2e-5 of the balance, whose relative error is the deposit's rounding error times 5e4
                xb, xq = (near, "3") if rp.random() < 0.5 else ("3", near)
                o = {"op": "uni.add_by_tick", "a": {"lo": lo, "hi": hi, "base": {"f": f"wallet:{B}", "x": xb}, "quote": {"f": f"wallet:{Q}", "x": xq}, "where": where}}
                n_created += 1
            elif r == "degenerate_price_range":
                # two prices that belong to the same usable tick: no range at all, whichever token is token0
                g = ((ct // sp) + rp.randint(-6, 6)) * sp
                p_a, p_b = _mid_price(g + 1, quote[1], base[1]), _mid_price(g + 2, quote[1], base[1])
                o = {"op": "uni.add", "a": {"lower_price": _s(min(p_a, p_b)), "upper_price": _s(max(p_a, p_b)), "base": {"f": f"wallet:{B}", "x": "0.1"}, "quote": {"f": f"wallet:{Q}", "x": "0.1"}, "where": "in"}}
                n_created += 1
            elif r == "by_value_on_the_edge":
                # the usable tick of the current price IS one bound of the range (the price itself well inside the cell, so one
                # tick of float noise cannot move it to the next cell): no side of the range can tell a two-sided deposit ratio
                g = int(round(ct / sp)) * sp
                if abs(ct - g) > sp // 4:
                    continue
                w = rp.randint(1, 8) * sp
                lo, hi = (g - w, g) if rp.random() < 0.5 else (g, g + w)
                o = {"op": "uni.add_by_value", "a": {"lo": lo, "hi": hi, "value": {"f": f"wallet:{Q}", "x": "0.1"}, "where": "in"}}
                n_created += 1
            elif r == "remove_unknown":
                o = {"op": "uni.remove", "a": {"pos": {"lo": 887220 // sp * sp - sp, "hi": 887220 // sp * sp}}}
            else:
                lo, hi = rng_ticks()
                o = {"op": "uni.add_by_value", "a": {"lo": hi, "hi": lo, "value": {"abs": "100"}, "trim": True}}
        if o is None:
            continue
        o.update({"bar": bar, "phase": phase, "m": "uni0"})
        program.append(o)
    order = ["initialize", "before_bar", "trigger", "on_bar", "after_bar", "notify"]
    program.sort(key=lambda o: (o["bar"], order.index(o["phase"])))
    faults = []
    if R.sub(seed, "token_style").random() < 0.15:
        world["markets"][0]["token_style"] = "addressed_pool_plain_quote"
        faults.append({"kind": "pool_tokens_with_addresses_quote_token_without"})
    return {"property": ID, "seed": seed, "world": world, "program": program, "faults": faults}


def _frac(rp):
    return str(round(rp.uniform(0.002, 0.15), 4))


def _s(x):
    return format(Decimal(x), "f")


def _mid_price(tick_a: int, dq: int, db: int) -> Decimal:
    """human price of base in quote at A-frame tick (tick_a + 0.5): A has token0 = quote, so
    atomic price token1/token0 = 1.0001^tick = base_atomic per quote_atomic -> base price in quote = 10^(db-dq)/1.0001^tick"""
    return Decimal(10) ** (db - dq) / Decimal(repr(1.0001 ** (tick_a + 0.5)))


# --------------------------------------------------------------------------------------------------- mirroring
def mirror(scenario):
    sc = copy.deepcopy(scenario)
    mw = sc["world"]["markets"][0]
    mw["token0"], mw["token1"] = mw["token1"], mw["token0"]
    mw["closeTick"] = [None if t is None else -t for t in mw["closeTick"]]
    mw["inAmount0"], mw["inAmount1"] = mw["inAmount1"], mw["inAmount0"]
    for o in sc["program"]:
        a = o.get("a", {})
        if "lo" in a and "hi" in a:
            a["lo"], a["hi"] = -a["hi"], -a["lo"]
        if "tick" in a:
            a["tick"] = -a["tick"]
        if "sqrt_tick" in a:
            a["sqrt_tick"] = -a["sqrt_tick"]
        p = a.get("pos")
        if isinstance(p, dict) and "lo" in p:
            p["lo"], p["hi"] = -p["hi"], -p["lo"]
    return sc


# ops written in base/quote terms (orientation resolved at run time) ------------------------------------------
from ..sim import op, amount  # noqa: E402


@op("c09.top_up")
def _top_up(sim, m, a):
    """a second deposit into the range of a position that already exists (usually at another pool price than the first)"""
    p = U.pos_of(m, a.get("pos"), sim)
    if p not in m.positions:
        return None
    base, quote = amount(sim, a.get("base")), amount(sim, a.get("quote"))
    return lambda: U._added(sim, m, m.add_liquidity_by_tick(p.lower_tick, p.upper_tick, base, quote))


@op("c09.remove")
def _remove(sim, m, a):
    p = U.pos_of(m, a.get("pos"), sim)
    liq = None
    if "liq_frac" in a and p in m.positions:
        liq = int(Decimal(m.positions[p].liquidity) * Decimal(a["liq_frac"]))
    kw = {"collect": bool(a.get("collect", True))}
    return lambda: U._res(m.remove_liquidity(p, liq, **kw))


@op("c09.collect")
def _collect(sim, m, a):
    p = U.pos_of(m, a.get("pos"), sim)

    def cap(spec, side):
        # {"pending": true, "minus": x}: all that is pending of that token but x (a cap that leaves a speck behind)
        if isinstance(spec, dict) and spec.get("pending"):
            if p not in m.positions:
                return None
            pb, pq = m._convert_pair(m.positions[p].pending_amount0, m.positions[p].pending_amount1)  # (token0, token1) -> (base, quote)
            have = pb if side == "base" else pq
            return max(Decimal(0), have - Decimal(spec.get("minus", "0")))
        return amount(sim, spec)

    mb = cap(a.get("max_base"), "base")
    mq = cap(a.get("max_quote"), "quote")
    m0, m1 = m._convert_pair(mb, mq)  # (base, quote) -> (token0, token1): harness-side argument mapping only
    kw = {}
    if m0 is not None:
        kw["max_collect_amount0"] = m0
    if m1 is not None:
        kw["max_collect_amount1"] = m1
    return lambda: U._res(m.collect_fee(p, **kw))


@op("c09.estimate_liquidity")
def _est_liq(sim, m, a):
    p = U.pos_of(m, a.get("pos"), sim)
    v = amount(sim, a.get("value"))
    if p not in m.positions:
        return None
    return lambda: U._res(m.estimate_liquidity(v, p))


# --------------------------------------------------------------------------------------------------- comparison
def _fr(x):
    if isinstance(x, Fraction):
        return x
    if isinstance(x, float):
        return Fraction(repr(x)) if math.isfinite(x) else None
    if isinstance(x, (int, Decimal)):
        return Fraction(x)
    return Fraction(Decimal(str(x)))


def _close(a, b, tol):
    fa, fb = _fr(a), _fr(b)
    if fa is None or fb is None:
        return fa is fb
    if fa == fb:
        return True
    return abs(fa - fb) <= tol * max(abs(fa), abs(fb)) + ABS_FLOOR


def _norm_pos(p, t0q):
    if p is None:
        return None
    lo, hi = (p.lower_tick, p.upper_tick) if hasattr(p, "lower_tick") else (p[0], p[1])
    return (-hi, -lo) if t0q else (lo, hi)


def _bq(x0, x1, t0q):
    return (x1, x0) if t0q else (x0, x1)


def normalise(opname, res, t0q):
    """-> (dict of named numbers, dict of exact items)"""
    nums, exact = {}, {}
    if res is None:
        return nums, exact
    if opname in ("uni.add_by_tick", "uni.add", "uni.add_by_value", "c09.top_up"):
        exact["pos"] = _norm_pos(res[0], t0q)
        nums.update(base_used=res[1], quote_used=res[2], liquidity=res[3])
    elif opname in ("uni.remove", "c09.remove", "uni.collect", "c09.collect"):
        nums.update(base=res[0], quote=res[1])
    elif opname in ("uni.buy", "uni.sell"):
        nums.update(fee=res[0], spent=res[1], got=res[2])
    elif opname == "uni.swap":
        nums.update(fee=res[0], to=res[1])
    elif opname == "uni.estimate_amount":
        b, q = _bq(res[0], res[1], t0q)
        nums.update(base=b, quote=q)
    elif opname in ("uni.estimate_liquidity", "c09.estimate_liquidity"):
        b, q = _bq(res[1], res[2], t0q)
        nums.update(liquidity=res[0], base=b, quote=q)
    elif opname == "uni.read_position_status":
        lb, lq = _bq(res.liquidity_amount0, res.liquidity_amount1, t0q)
        pb, pq = _bq(res.pending_amount0, res.pending_amount1, t0q)
        ab, aq = _bq(res.amount0, res.amount1, t0q)
        nums.update(liquidity=res.liquidity, liq_base=lb, liq_quote=lq, liquidity_value=res.liquidity_value, pend_base=pb, pend_quote=pq,
                    pending_value=res.pending_value, amt_base=ab, amt_quote=aq, value=res.value, H=res.H, L=res.L, P=res.P)
    elif opname == "uni.read_balance":
        nums.update(_balance_nums(res))
    elif opname == "uni.tick_to_price":
        nums.update(price=res)
    elif opname == "uni.price_to_tick":
        exact["tick"] = -res if t0q else res
    return nums, exact


def _balance_nums(b):
    return dict(net_value=b.net_value, liquidity_value=b.liquidity_value, base_uncollected=b.base_uncollected,
                quote_uncollected=b.quote_uncollected, base_in_position=b.base_in_position, quote_in_position=b.quote_in_position,
                position_count=b.position_count)


class Recorder(Oracle):
    """keeps raw (un-canonicalised) results and the smallest live liquidity for the comparison pass"""

    def start(self, sim):
        self.raw = []
        self.min_liq = []
        self.offered = {}  # op index in self.raw -> {"base": (amount offered, decimals), "quote": ...} of a deposit

    def before_op(self, sim, o):
        if o["op"] in ("uni.add_by_tick", "uni.add", "c09.top_up"):
            m = sim.markets["uni0"]
            off = {}
            for side, tok in (("base", m.base_token), ("quote", m.quote_token)):
                try:
                    x = amount(sim, o.get("a", {}).get(side))
                except Exception:
                    x = None
                if x is not None:
                    off[side] = (x, int(tok.decimal))
            self.offered[len(self.raw)] = off

    def after_op(self, sim, o, outcome):
        m = sim.markets["uni0"]
        liqs = [int(p.liquidity) for p in m.positions.values() if int(p.liquidity) > 0]
        self.raw.append((o, outcome))
        self.min_liq.append(min(liqs) if liqs else None)


def execute(scenario):
    a = Sim(scenario, Recorder())
    a.run()
    scb = mirror(scenario)
    b = Sim(scb, Recorder())
    b.run()
    res = Combined([a, b])
    compare(res, a, b, scenario)
    return res


def compare(res, a, b, scenario):
    ta, tb = a.markets["uni0"].pool_info.is_token0_quote, b.markets["uni0"].pool_info.is_token0_quote
    wa, wb = a.world["markets"][0], b.world["markets"][0]
    if not (wa["quote"] == wa["token0"] and wb["quote"] == wb["token1"]):
        raise RuntimeError("mirror construction broken")
    if not (ta and not tb):
        # the pool was told which of its tokens is the quote token; what it made of that is the first orientation outcome
        res.violate("c09.result_differs", "pool:is_token0_quote", a=bool(ta), b=bool(tb), want_a=True, want_b=False,
                    token_style=wa.get("token_style"))
        return
    if (a.crash is None) != (b.crash is None):
        res.violate("c09.crash_differs", "run", a=str(a.crash), b=str(b.crash))
        return
    ra, rb = a.oracle.raw, b.oracle.raw
    if len(ra) != len(rb):
        res.violate("c09.op_count_differs", "run", a=len(ra), b=len(rb))
        return
    tainted = False
    min_liq = None
    gran = Fraction(0)  # resolution of the protocol's integer arithmetic met so far in this run (see _granularity)
    for i, ((oa, xa), (ob, xb)) in enumerate(zip(ra, rb)):
        name = oa["op"]
        where = oa.get("a", {}).get("where", "-")
        for ml in (a.oracle.min_liq[i], b.oracle.min_liq[i]):
            if ml is not None:
                min_liq = ml if min_liq is None else min(min_liq, ml)
        if xa["status"] != xb["status"]:
            res.violate("c09.accept_reject_differs", f"{name}:{where}", op_index=xa["i"], a=xa["status"], b=xb["status"],
                        a_msg=xa.get("msg"), b_msg=xb.get("msg"), bar=oa["bar"])
            return  # states have diverged; later differences are consequences
        res.count(f"probe:{name}:{where}:{xa['status']}")
        res.state((name, where, xa["status"], oa["phase"], tainted))
        if xa["status"] != "ok":
            continue
        na, ea = normalise(name, xa.get("result"), ta)
        nb, eb = normalise(name, xb.get("result"), tb)
        est = name in EST_OPS or name == "c09.estimate_liquidity"
        if name in ("uni.add_by_tick", "uni.add", "c09.top_up") and ea.get("pos"):
            gran = max(gran, _granularity(a.oracle.offered.get(i), ea["pos"]), _granularity(b.oracle.offered.get(i), ea["pos"]))
        tol = _tol(tainted or est, min_liq) + (0 if (tainted or est) else gran)
        if ea != eb:
            res.violate("c09.result_differs", f"{name}:{where}:exact", op_index=xa["i"], a=ea, b=eb, bar=oa["bar"])
            return
        for key in na:
            if not _close(na[key], nb[key], tol):
                res.violate("c09.result_differs", f"{name}:{where}:{key}", op_index=xa["i"], a=na[key], b=nb[key], bar=oa["bar"],
                            tol=float(tol), tainted=tainted)
                return
        if name == "uni.add_by_value":
            tainted = True  # property allows 0.1% here; everything downstream inherits that
    # per-bar account history
    sa, sb = a.actuator.account_status, b.actuator.account_status
    if len(sa) != len(sb):
        res.violate("c09.bar_count_differs", "run", a=len(sa), b=len(sb))
        return
    key = a.markets["uni0"].market_info
    tol = _tol(tainted, min_liq) + (0 if tainted else gran)
    fee_seen = False
    for i, (x, y) in enumerate(zip(sa, sb)):
        rows = {"net_value": (x.net_value, y.net_value)}
        for t, v in x.asset_balances.items():
            rows["wallet:" + t.name] = (v, y.asset_balances[t])
        bx, by = _balance_nums(x.market_status[key]), _balance_nums(y.market_status[key])
        for k2 in bx:
            rows["market:" + k2] = (bx[k2], by[k2])
        if bx["base_uncollected"] > 0 or bx["quote_uncollected"] > 0:
            fee_seen = True
        for k2, (u, v) in rows.items():
            if not _close(u, v, tol):
                res.violate("c09.bar_status_differs", k2, bar=i, a=u, b=v, tol=float(tol), tainted=tainted)
                return
    if fee_seen:
        res.count("probe:uncollected_in_both_worlds")


def _granularity(offered, pos):
    """Resolution of the pool's integer arithmetic for one deposit, as a relative bound on what the two orientations can
    disagree by without any orientation slip: the offered amounts enter in whole atomic units (one unit of the smaller
    offered amount: 1 / units), and LiquidityAmounts.getLiquidityForAmount0 floors the intermediate sqrtA * sqrtB / 2^96,
    which for ticks far below zero has few digits (1 / intermediate). Which token is token0 - and therefore which amount
    meets which of the two formulas - is exactly what the mirror swaps. Factor 2: each orientation rounds on its own."""
    g = Fraction(0)
    for side in ("base", "quote"):
        x, dec = (offered or {}).get(side, (None, 0))
        if x is not None and x == x and x > 0:
            units = int(Fraction(x) * 10**dec)
            if units > 0:
                g += Fraction(2, units)
    t = max(abs(int(pos[0])), abs(int(pos[1])))
    inter = int(2**96 * math.exp(-t * math.log(1.0001)))  # sqrt ratios of both bounds taken at the extreme tick
    g += Fraction(2, max(inter, 1))
    return g


def _tol(loose, min_liq):
    if loose:
        return TOL_EST
    if min_liq:
        return TOL + Fraction(8, int(min_liq))  # integer rounding of the liquidity formulas: a few units of L
    return TOL


def abstract(scenario, res):
    return res.states


def nontrivial(state):
    return state[2] == "ok" and state[0] not in ("uni.tick_to_price", "uni.price_to_tick")


RULE = (
    "one run = the same base/quote program executed through the real bar loop in a token0-is-quote world and in its "
    "mirror; distinct_nontrivial counts distinct (operation, price below/in/above range, outcome, phase, tainted-by-"
    "add_by_value) combinations that were accepted and compared"
)
BUDGET = {"quick": {"runs": 3000, "wall": 90}, "thorough": {"runs": 120000, "wall": 1500}}
LEVEL = "exploration"
ASSUMPTIONS = [
    "close ticks are never exactly on a usable tick (range bound): half-open tick ranges make 'on the bound' in-range in one orientation and out in the other - inherent to Uniswap v3; the property speaks of price in, below or above",
    "close ticks keep >= 2 ticks from the spacing midpoint so nearest-usable-tick rounding of the current price cannot flip by float noise; fee tiers 0.05/0.3/1 % (spacing 10/60/200)",
    "prices passed as arguments are mid-tick",
    "for add_by_value / estimate_* the current tick is >= 3 spacings inside the range or entirely outside",
    "tolerance 1e-12 relative + 8/L for the integer rounding of the liquidity formulas (L = smallest live liquidity) + the resolution of the protocol's integer arithmetic met so far in the run (2 / atomic units of each offered amount + 2 / floored intermediate sqrtA*sqrtB/2^96 at the range's extreme tick, DESIGN section 10.16) + 1e-18 absolute (below one wei); 1e-3 for estimate-based helpers and for everything after an add_by_value in the same run (the property allows the helper 0.1 %)",
    "pool liquidity kept positive",
]
LEVEL_TEXT = (
    "seeded exploration with twin (mirrored) worlds: every operation result, accept/reject outcome and every bar's "
    "account status is compared between the two orientations after base/quote normalisation. Sampling, not proof."
)
LEVEL_NOTE = "trusted: the mirror construction (ticks negated, volumes swapped), the normalisers, and the stated generator carve-outs"
