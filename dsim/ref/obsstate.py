"""Canonical *observable state* of a run (C04): what the property says must survive a rejected operation.

  wallet      token -> balance (a missing token and a zero balance are the same thing)
  markets     per market, read through the public accessors only:
                uniswap   positions: (lower, upper) -> liquidity, pending amounts, transferred flag
                aave      supplies: token -> (scaled amount, collateral flag); borrows: token -> scaled amount
                squeeth   vaults: id -> eth collateral, oSQTH short, LP position held as collateral
                deribit   cash balance, option positions, and the VISIBLE order book (asks / bids of every instrument of
                          the current market status)
                gmx v1    glp_amount, reward          gmx v2    amount
  actions     len(actuator.actions) + canonical rendering of the log tail

Deliberately NOT part of it: memoised views (Aave DictCaches, Deribit _balance_cache), has_update, last_tick, id
counters (SqueethMarket._max_vault_id) - they are not "wallet, positions, debts, order book or action log".

Values are rendered exactly (Decimal -> canonical string, float -> repr), so equality of two snapshots is exact equality.
`diff(a, b)` names what changed in a small fixed vocabulary used in violation sites.
"""
from decimal import Decimal

from ..canon import canon

LOG_TAIL = 6

# order = priority of the "what changed" label used in a violation site (first one wins, all are in the detail)
WHAT_ORDER = (
    "position_added", "position_removed", "position_liquidity_changed", "position_pending_changed", "position_transferred_changed",
    "supply_added", "supply_removed", "supply_amount_changed", "supply_collateral_flag_changed",
    "borrow_added", "borrow_removed", "borrow_amount_changed",
    "vault_added", "vault_removed", "vault_short_changed", "vault_collateral_changed", "vault_nft_changed",
    "option_position_changed", "cash_changed", "book_changed",
    "glp_amount_changed", "reward_changed", "gm_amount_changed",
    "wallet_changed", "action_log_changed",
)


def _num(x):
    """exact, type-insensitive rendering of a number (Decimal('0') == 0 == Decimal('0.00'))"""
    if isinstance(x, Decimal):
        return canon(x)
    if isinstance(x, bool):
        return x
    if isinstance(x, int):
        return canon(Decimal(x))
    if isinstance(x, float):
        return "F:" + repr(float(x))  # numpy.float64 is a float too; its own repr is not a plain number
    return canon(x)


def wallet_of(sim):
    out = {}
    for k, v in sim.broker.assets.items():
        b = v.balance
        if b != 0:
            out[k.name] = _num(b)
    return out


def _uni(m):
    out = {}
    for k, p in m.positions.items():
        out[f"{int(k.lower_tick)}:{int(k.upper_tick)}"] = {
            "liquidity": _num(p.liquidity), "pending0": _num(p.pending_amount0), "pending1": _num(p.pending_amount1),
            "transferred": bool(p.transferred),
        }
    return {"kind": "uni", "positions": out}


def _aave(m):
    sup, bor = {}, {}
    for k in m.supply_keys:
        s = m._supplies[k] if hasattr(m, "_supplies") else m.get_supply(k)  # the position book itself: reading a view would warm a cache
        sup[k.name] = {"base_amount": _num(s.base_amount), "collateral": bool(s.collateral)}
    for k in m.borrow_keys:
        b = m._borrows[k] if hasattr(m, "_borrows") else m.get_borrow(k)
        bor[k.name] = {"base_amount": _num(b.base_amount)}
    return {"kind": "aave", "supplies": sup, "borrows": bor}


def _squeeth(m):
    out = {}
    for k, v in m.vault.items():
        nft = v.uni_nft_id
        out[str(int(k.id))] = {
            "collateral": _num(v.collateral_amount), "short": _num(v.osqth_short_amount),
            "nft": None if nft is None else f"{int(nft.lower_tick)}:{int(nft.upper_tick)}",
        }
    return {"kind": "squeeth", "vaults": out}


def _level(x):
    return [_num(float(x[0])) if not isinstance(x[0], Decimal) else _num(x[0]), _num(float(x[1])) if not isinstance(x[1], Decimal) else _num(x[1])]


def _deribit(m):
    pos = {}
    for nm, p in m.positions.items():
        pos[nm] = {
            "amount": _num(p.amount), "buy_amount": _num(p.buy_amount), "avg_buy_price": _num(p.avg_buy_price),
            "sell_amount": _num(p.sell_amount), "avg_sell_price": _num(p.avg_sell_price),
        }
    book = {}
    data = m.market_status.data
    if data is not None and hasattr(data, "index") and "asks" in getattr(data, "columns", ()):
        for nm in data.index:
            book[str(nm)] = {side: [_level(x) for x in data.at[nm, side]] for side in ("asks", "bids")}
    return {"kind": "deribit", "cash": _num(m.balance), "positions": pos, "book": book}


def _gmx1(m):
    return {"kind": "gmx1", "glp_amount": _num(m.glp_amount), "reward": _num(m.reward)}


def _gmx2(m):
    return {"kind": "gmx2", "amount": _num(m.amount)}


READERS = {"uni": _uni, "aave": _aave, "squeeth": _squeeth, "deribit": _deribit, "gmx1": _gmx1, "gmx2": _gmx2}


def kinds_of(sim):
    """market name -> family, from the scenario (an embedded squeeth pool is a uni market)"""
    out = {}
    for mw in sim.world["markets"]:
        out[mw["name"]] = mw["kind"]
        if mw["kind"] == "squeeth" and isinstance(mw.get("pool"), dict):
            out[mw["pool"]["name"]] = "uni"
    return out


def observe(sim, kinds=None):
    kinds = kinds or kinds_of(sim)
    acts = sim.actuator.actions
    return {
        "wallet": wallet_of(sim),
        "markets": {name: READERS[kinds[name]](m) for name, m in sim.markets.items()},
        "actions": {"len": len(acts), "tail": [canon(a) for a in acts[-LOG_TAIL:]]},
    }


def _dict_diff(a, b, added, removed, fields, out, where):
    for k in a.keys() | b.keys():
        if k not in a:
            out.append((added, f"{where}[{k}]", None, b[k]))
        elif k not in b:
            out.append((removed, f"{where}[{k}]", a[k], None))
        elif a[k] != b[k]:
            for f, label in fields.items():
                if a[k].get(f) != b[k].get(f):
                    out.append((label, f"{where}[{k}].{f}", a[k].get(f), b[k].get(f)))


def diff(a, b):
    """list of (what, where, before, after), sorted by the priority of `what` then by `where`"""
    out = []
    if a["wallet"] != b["wallet"]:
        for t in sorted(a["wallet"].keys() | b["wallet"].keys()):
            if a["wallet"].get(t, "D:0") != b["wallet"].get(t, "D:0"):
                out.append(("wallet_changed", f"wallet[{t}]", a["wallet"].get(t, "D:0"), b["wallet"].get(t, "D:0")))
    for name in sorted(a["markets"].keys() | b["markets"].keys()):
        x, y = a["markets"].get(name), b["markets"].get(name)
        if x == y:
            continue
        kind = (x or y)["kind"]
        if kind == "uni":
            _dict_diff(x["positions"], y["positions"], "position_added", "position_removed",
                       {"liquidity": "position_liquidity_changed", "pending0": "position_pending_changed", "pending1": "position_pending_changed",
                        "transferred": "position_transferred_changed"}, out, f"{name}.positions")
        elif kind == "aave":
            _dict_diff(x["supplies"], y["supplies"], "supply_added", "supply_removed",
                       {"base_amount": "supply_amount_changed", "collateral": "supply_collateral_flag_changed"}, out, f"{name}.supplies")
            _dict_diff(x["borrows"], y["borrows"], "borrow_added", "borrow_removed", {"base_amount": "borrow_amount_changed"}, out, f"{name}.borrows")
        elif kind == "squeeth":
            _dict_diff(x["vaults"], y["vaults"], "vault_added", "vault_removed",
                       {"short": "vault_short_changed", "collateral": "vault_collateral_changed", "nft": "vault_nft_changed"}, out, f"{name}.vault")
        elif kind == "deribit":
            if x["cash"] != y["cash"]:
                out.append(("cash_changed", f"{name}.balance", x["cash"], y["cash"]))
            if x["positions"] != y["positions"]:
                for nm in sorted(x["positions"].keys() | y["positions"].keys()):
                    if x["positions"].get(nm) != y["positions"].get(nm):
                        out.append(("option_position_changed", f"{name}.positions[{nm}]", x["positions"].get(nm), y["positions"].get(nm)))
            if x["book"] != y["book"]:
                for nm in sorted(x["book"].keys() | y["book"].keys()):
                    for side in ("asks", "bids"):
                        if (x["book"].get(nm) or {}).get(side) != (y["book"].get(nm) or {}).get(side):
                            out.append(("book_changed", f"{name}.book[{nm}].{side}", (x["book"].get(nm) or {}).get(side), (y["book"].get(nm) or {}).get(side)))
        elif kind == "gmx1":
            if x["glp_amount"] != y["glp_amount"]:
                out.append(("glp_amount_changed", f"{name}.glp_amount", x["glp_amount"], y["glp_amount"]))
            if x["reward"] != y["reward"]:
                out.append(("reward_changed", f"{name}.reward", x["reward"], y["reward"]))
        elif kind == "gmx2":
            if x["amount"] != y["amount"]:
                out.append(("gm_amount_changed", f"{name}.amount", x["amount"], y["amount"]))
    if a["actions"] != b["actions"]:
        out.append(("action_log_changed", "actuator.actions", a["actions"]["len"], b["actions"]["len"]))
    out.sort(key=lambda d: (WHAT_ORDER.index(d[0]) if d[0] in WHAT_ORDER else 99, d[1]))
    return out


def shape(snap):
    """coarse abstract shape of a state (for distinct-case counting): per family, how much is held"""
    out = []
    for name in sorted(snap["markets"]):
        m = snap["markets"][name]
        k = m["kind"]
        if k == "uni":
            ps = m["positions"].values()
            out.append(("uni", min(len(m["positions"]), 3), any(p["pending0"] != "D:0" or p["pending1"] != "D:0" for p in ps), any(p["transferred"] for p in ps)))
        elif k == "aave":
            out.append(("aave", min(len(m["supplies"]), 3), min(len(m["borrows"]), 2)))
        elif k == "squeeth":
            vs = m["vaults"].values()
            out.append(("squeeth", min(len(m["vaults"]), 3), any(v["short"] != "D:0" for v in vs), any(v["nft"] is not None for v in vs)))
        elif k == "deribit":
            out.append(("deribit", m["cash"] != "D:0", min(len(m["positions"]), 3), bool(m["book"])))
        elif k == "gmx1":
            out.append(("gmx1", m["glp_amount"] != "D:0", m["reward"] != "D:0"))
        elif k == "gmx2":
            out.append(("gmx2", m["amount"] not in ("F:0.0", "D:0")))
    return tuple(out)
