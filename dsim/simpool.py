"""SimPool - a deterministic stand-in for ``multiprocessing.Pool`` under the *fork* start method (C19 only).

What is real: the workers are real ``os.fork()`` children created when the pool is constructed, so each of them
inherits every process global of the creating process (``demeter.core.backtest.global_data`` in particular) exactly as
a fork-pool worker does and is isolated from its siblings by the kernel; task arguments are pickled on submission and
unpickled in the worker, results/exceptions are pickled back, like the real pool does.

What is simulated: *which* worker takes *which* task *when*.  A small discrete-event model of a FIFO pool decides it,
one decision at a time, from explicit schedule data (seeded virtual task durations, seeded worker start-up latencies,
a PRNG for ties):

* tasks are queued FIFO in submission order;
* a task is taken by an idle worker (PRNG choice among all workers idle at that virtual moment) or, when none is idle,
  by the worker that frees first (PRNG among ties);  a worker that is "not ready yet" (start-up latency) is busy, which
  is how one worker can legitimately run two tasks back to back while a sibling is still starting;
* the task's effects materialise when its virtual finish time is reached: ``result.wait()`` advances the virtual
  clock to that task's finish time, every task finished by then is really executed (one at a time, in virtual start
  order, on its assigned child) and completions are reported (callbacks) in virtual finish order (PRNG among ties);
* ``terminate()`` / ``__exit__`` drop whatever has not finished by the current virtual time, as the real pool does.

Every schedule produced is one the real pool could produce.  Exactly one task runs at a time, so the event order is a
pure function of the schedule data.  Nothing in the log depends on pids, wall time or fd numbers.

Also here: ``forked()`` - run a callable in a fresh fork of the current process, time-bounded, reaped, with the whole
process group killed on timeout (used so that no demeter code ever runs in the long-lived harness process).
"""
import os
import pickle
import random
import select
import signal
import struct
import sys
import time
import traceback

TASK_TIMEOUT_S = 40.0  # wall bound for one task in a worker (harness failure beyond that)
REAP_TIMEOUT_S = 3.0  # grace before SIGKILL when stopping a child

_HDR = struct.Struct(">QI")  # payload length, task number


class SimPoolError(Exception):
    """A failure of the stub itself (worker died, timeout, unsupported API) - a harness error, never a verdict."""


# ------------------------------------------------------------------------------------------------ process helpers
def _set_pdeathsig():
    """Ask the kernel to SIGKILL this process when its parent dies (Linux); best effort."""
    try:
        import ctypes

        libc = ctypes.CDLL(None, use_errno=True)
        libc.prctl(1, int(signal.SIGKILL), 0, 0, 0)  # PR_SET_PDEATHSIG
    except Exception:
        pass


def _reset_signals():
    for s in (signal.SIGALRM, signal.SIGTERM, signal.SIGINT):
        try:
            signal.signal(s, signal.SIG_DFL)
        except Exception:
            pass
    try:
        signal.alarm(0)
    except Exception:
        pass


def _wait_pid(pid, timeout):
    """waitpid with a deadline; returns the raw status or None on timeout."""
    deadline = time.monotonic() + timeout
    pidfd = None
    try:
        try:
            pidfd = os.pidfd_open(pid)
        except (AttributeError, OSError):
            pidfd = None
        while True:
            try:
                got, status = os.waitpid(pid, os.WNOHANG)
            except ChildProcessError:
                return 0
            if got == pid:
                return status
            left = deadline - time.monotonic()
            if left <= 0:
                return None
            if pidfd is not None:
                select.select([pidfd], [], [], left)
            else:
                time.sleep(min(0.002, left))
    finally:
        if pidfd is not None:
            os.close(pidfd)


def _kill_and_reap(pid, group=False):
    if group:
        try:
            os.killpg(pid, signal.SIGKILL)
        except (ProcessLookupError, PermissionError):
            pass
    try:
        os.kill(pid, signal.SIGKILL)  # also when the group did not exist (yet): never block on a live child
    except (ProcessLookupError, PermissionError):
        pass
    try:
        os.waitpid(pid, 0)
    except ChildProcessError:
        pass


def forked(fn, timeout, err_path=None):
    """Run fn() in a fresh fork of this process (own process group, dies with its parent).  Returns the exit code
    (0 ok, 1 fn raised - traceback in err_path).  Raises SimPoolError on timeout / abnormal death.  The child and every
    process it forked are gone when this returns, whatever happens."""
    sys.stdout.flush()
    sys.stderr.flush()
    parent = os.getpid()
    pid = os.fork()
    if pid == 0:  # ------------------------------------------------ child
        code = 1
        try:
            _reset_signals()
            try:
                os.setpgid(0, 0)
            except OSError:
                pass
            _set_pdeathsig()
            if os.getppid() != parent:  # parent died before the death signal was armed
                os._exit(4)
            fn()
            code = 0
        except BaseException:
            try:
                if err_path:
                    with open(err_path, "w") as f:
                        f.write(traceback.format_exc())
            except Exception:
                pass
            code = 1
        finally:
            try:
                cleanup_all()
                sys.stdout.flush()
                sys.stderr.flush()
            finally:
                os._exit(code)
    # ---------------------------------------------------------------- parent
    try:
        os.setpgid(pid, pid)  # both sides set it: no race with an early killpg
    except OSError:
        pass
    status = None
    try:
        status = _wait_pid(pid, timeout)
    finally:
        if status is None:  # timeout, or an exception (e.g. the runner's alarm) while waiting
            _kill_and_reap(pid, group=True)
        else:
            try:
                os.killpg(pid, signal.SIGKILL)  # stragglers the child failed to stop (none expected)
            except (ProcessLookupError, PermissionError):
                pass
    if status is None:
        raise SimPoolError(f"forked run exceeded {timeout}s and was killed")
    if os.WIFSIGNALED(status):
        raise SimPoolError(f"forked run died on signal {os.WTERMSIG(status)}")
    return os.WEXITSTATUS(status)


# ------------------------------------------------------------------------------------------------ framed pipes
def _write_msg(fd, no, payload: bytes):
    data = _HDR.pack(len(payload), no) + payload
    view = memoryview(data)
    while view:
        n = os.write(fd, view)
        view = view[n:]


def _read_exact(fd, n, deadline):
    buf = bytearray()
    while len(buf) < n:
        if deadline is not None:
            left = deadline - time.monotonic()
            if left <= 0:
                raise TimeoutError()
            r, _, _ = select.select([fd], [], [], left)
            if not r:
                raise TimeoutError()
        chunk = os.read(fd, min(1 << 20, n - len(buf)))
        if not chunk:
            raise EOFError()
        buf += chunk
    return bytes(buf)


def _read_msg(fd, deadline=None):
    size, no = _HDR.unpack(_read_exact(fd, _HDR.size, deadline))
    return no, _read_exact(fd, size, deadline)


# ------------------------------------------------------------------------------------------------ the pool
_LIVE = []  # pools created by this process that still own children


def cleanup_all():
    """Stop and reap every pool this process still owns (safety net; normal paths terminate explicitly)."""
    me = os.getpid()
    for p in list(_LIVE):
        if p._owner == me:
            try:
                p._stop_workers(kill=True)
            except Exception:
                pass
    _LIVE[:] = [p for p in _LIVE if p._owner == me and p._workers]


class _Worker:
    __slots__ = ("index", "pid", "task_w", "res_r", "free_at", "ran", "n_done")


class _Task:
    __slots__ = ("no", "payload", "callback", "error_callback", "result", "worker", "start", "finish", "tie", "executed", "reported", "outcome", "items", "group")


def _mapstar(args):
    """what multiprocessing.pool.mapstar does with one chunk: the calls of a chunk run back to back in one worker, and
    the first exception ends the chunk"""
    func, chunk = args
    return list(map(func, chunk))


def _starmapstar(args):
    import itertools

    func, chunk = args
    return list(itertools.starmap(func, chunk))


class SimMapResult:
    """The MapResult protocol: ready when every chunk is, value = the chunks' lists joined, first error wins and the
    error callback is called once."""

    def __init__(self, pool, tasks, callback, error_callback):
        self._pool, self._tasks = pool, tasks
        self._callback, self._error_callback = callback, error_callback
        self._ready = False
        self._ok = None
        self._value = None
        self._failed = False
        if not tasks:
            self._ready, self._ok, self._value = True, True, []

    def ready(self):
        return self._ready

    def successful(self):
        if not self._ready:
            raise ValueError("result is not ready")
        return self._ok

    def wait(self, timeout=None):
        if not self._ready and self._tasks:
            self._pool._advance_to_task(max(self._tasks, key=lambda t: (t.finish, t.no)))

    def get(self, timeout=None):
        self.wait(timeout)
        if not self._ready:
            raise SimPoolError("task was dropped by terminate() before it finished")
        if self._ok:
            return self._value
        raise self._value

    def _chunk_done(self, t):
        ok, value = t.outcome
        if not ok and not self._failed:
            self._failed = True
            self._ok, self._value = False, value
            if self._error_callback is not None:
                self._error_callback(value)
        if all(x.reported for x in self._tasks):
            if not self._failed:
                self._ok, self._value = True, [v for x in self._tasks for v in x.outcome[1]]
                if self._callback is not None:
                    self._callback(self._value)
            self._ready = True


class SimResult:
    """The ApplyResult protocol backtest.py uses (wait/get/ready/successful)."""

    def __init__(self, pool, task):
        self._pool = pool
        self._task = task
        self._ready = False
        self._ok = None
        self._value = None

    def ready(self):
        return self._ready

    def successful(self):
        if not self._ready:
            raise ValueError("result is not ready")
        return self._ok

    def wait(self, timeout=None):
        if not self._ready:
            self._pool._advance_to_task(self._task)

    def get(self, timeout=None):
        self.wait(timeout)
        if not self._ready:
            raise SimPoolError("task was dropped by terminate() before it finished")
        if self._ok:
            return self._value
        raise self._value


class SimPool:
    """``sched`` = {"durations": [ints >= 1, by submission index], "ready": [ints >= 0, by worker index], "tie_seed": int}."""

    def __init__(self, processes=None, sched=None, log=None, initializer=None, initargs=(), maxtasksperchild=None):
        if not processes or processes < 1:
            raise ValueError("Number of processes must be at least 1")
        if initializer is not None:
            raise SimPoolError("SimPool does not model initializer")
        if maxtasksperchild is not None and (not isinstance(maxtasksperchild, int) or maxtasksperchild < 1):
            raise ValueError("maxtasksperchild must be a positive int or None")
        # a worker that has completed this many tasks exits and is replaced; the real pool forks the replacement from its
        # worker-handler THREAD (Pool._handle_workers -> _repopulate_pool), not from the thread that built the pool
        self._maxtasks = maxtasksperchild
        sched = sched or {}
        self._durations = [max(1, int(x)) for x in (sched.get("durations") or [1])]
        ready = [max(0, int(x)) for x in (sched.get("ready") or [0])]
        self._rng = random.Random(int(sched.get("tie_seed", 0)))
        self.log = log if log is not None else []
        self._owner = os.getpid()
        self._state = "RUN"
        self._now = 0
        self._tasks = []
        self._n_items = 0
        self._last_start = 0
        self._workers = []
        self.worker_pids = []  # by slot, as forked at construction
        self.replacement_pids = []  # processes that took over a slot later (maxtasksperchild)
        self.stats = {"dropped_in_flight": 0, "dropped_queued": 0}
        _LIVE.append(self)
        try:
            for i in range(processes):
                self._spawn(i, ready[i % len(ready)])
        except BaseException:
            self._stop_workers(kill=True)
            raise
        self.log.append(["pool", processes])

    # ------------------------------------------------------------------------------------------ children
    def _fork_child(self):
        """fork one worker process; returns (pid, task_w, res_r) in the parent"""
        task_r, task_w = os.pipe()
        res_r, res_w = os.pipe()
        sys.stdout.flush()
        sys.stderr.flush()
        parent = os.getpid()
        pid = os.fork()
        if pid == 0:
            code = 3
            try:
                _reset_signals()
                _set_pdeathsig()
                os.close(task_w)
                os.close(res_r)
                for w in self._workers:  # parent-side ends of the siblings' pipes
                    for fd in (w.task_w, w.res_r):
                        try:
                            os.close(fd)
                        except OSError:
                            pass
                _LIVE[:] = []  # a worker owns no pools
                if os.getppid() != parent:
                    os._exit(4)
                _worker_loop(task_r, res_w)
                code = 0
            except BaseException:
                code = 3
            finally:
                os._exit(code)
        os.close(task_r)
        os.close(res_w)
        return pid, task_w, res_r

    def _spawn(self, index, ready_at):
        pid, task_w, res_r = self._fork_child()
        w = _Worker()
        w.index, w.pid, w.task_w, w.res_r, w.free_at, w.ran, w.n_done = index, pid, task_w, res_r, ready_at, [], 0
        self._workers.append(w)
        self.worker_pids.append(pid)

    def _replace(self, w):
        """maxtasksperchild reached: the worker of this slot exits, a new process takes the slot. As in the real pool the
        replacement is forked from a helper thread of the parent (one at a time, joined before anything else happens, so the
        event order stays a function of the seed)."""
        import threading

        for fd in (w.task_w, w.res_r):
            try:
                os.close(fd)
            except OSError:
                pass
        if _wait_pid(w.pid, REAP_TIMEOUT_S) is None:
            _kill_and_reap(w.pid)
        box = {}
        w.task_w = w.res_r = -1

        def handle_workers():
            try:
                box["child"] = self._fork_child()
            except BaseException as e:  # noqa
                box["error"] = e

        th = threading.Thread(target=handle_workers, name="SimPool-handle-workers")
        th.start()
        th.join()
        if "error" in box:
            raise SimPoolError(f"could not fork a replacement worker: {box['error']!r}")
        w.pid, w.task_w, w.res_r = box["child"]
        w.n_done = 0
        w.ran = []
        self.replacement_pids.append(w.pid)
        self.log.append(["respawn", w.index])

    def _stop_workers(self, kill=False):
        workers, self._workers = self._workers, []
        for w in workers:  # EOF on the task pipe = "exit"
            for fd in (w.task_w, w.res_r):
                try:
                    os.close(fd)
                except OSError:
                    pass
        for w in workers:
            if kill:
                _kill_and_reap(w.pid)
                continue
            status = _wait_pid(w.pid, REAP_TIMEOUT_S)
            if status is None:
                _kill_and_reap(w.pid)
        if self in _LIVE:
            _LIVE.remove(self)

    # ------------------------------------------------------------------------------------------ Pool API
    def __enter__(self):
        if self._state != "RUN":
            raise ValueError("Pool not running")
        return self

    def __exit__(self, exc_type, exc, tb):
        self.terminate()
        return False

    def __del__(self):
        try:
            if self._workers and self._owner == os.getpid():
                self._stop_workers(kill=True)
        except Exception:
            pass

    def apply_async(self, func, args=(), kwds=None, callback=None, error_callback=None):
        if self._state != "RUN":
            raise ValueError("Pool not running")
        payload = pickle.dumps((func, tuple(args), dict(kwds or {})), protocol=pickle.HIGHEST_PROTOCOL)
        t = self._submit(payload, 1, callback, error_callback)
        t.result = SimResult(self, t)
        return t.result

    def _submit(self, payload, n_items, callback=None, error_callback=None):
        """One scheduling decision: who takes this task (one call, or one chunk of a map), and when."""
        t = _Task()
        t.no = len(self._tasks)
        t.payload = payload
        t.callback, t.error_callback = callback, error_callback
        t.executed = t.reported = False
        t.outcome = None
        t.group = None
        t.items = list(range(self._n_items, self._n_items + n_items))  # calls in submission order, over the whole pool
        self._n_items += n_items
        avail = max(self._now, self._last_start)  # FIFO: not before its predecessor was taken
        idle = [w for w in self._workers if w.free_at <= avail]
        if idle:
            w = idle[self._rng.randrange(len(idle))] if len(idle) > 1 else idle[0]
            t.start = avail
        else:
            first = min(w.free_at for w in self._workers)
            cands = [w for w in self._workers if w.free_at == first]
            w = cands[self._rng.randrange(len(cands))] if len(cands) > 1 else cands[0]
            t.start = first
        t.finish = t.start + sum(self._durations[i % len(self._durations)] for i in t.items)
        t.tie = self._rng.random()
        t.worker = w
        w.free_at = t.finish
        self._last_start = t.start
        t.result = None
        self._tasks.append(t)
        self.log.append(["assign", t.no, w.index, t.start, t.finish, len(idle), list(t.items)])
        return t

    def _map_async(self, func, iterable, star, chunksize=None, callback=None, error_callback=None):
        """Pool._map_async: the iterable is cut into chunks of ceil(n / (4 x processes)) calls; each chunk is pickled as
        ONE object (arguments shared between calls of a chunk stay shared after unpickling) and run by one worker."""
        if self._state != "RUN":
            raise ValueError("Pool not running")
        items = list(iterable)
        if chunksize is None:
            chunksize, extra = divmod(len(items), len(self._workers) * 4)
            if extra:
                chunksize += 1
        if len(items) == 0:
            chunksize = 0
        tasks = []
        runner = _starmapstar if star else _mapstar
        for i in range(0, len(items), max(1, chunksize)):
            chunk = tuple(items[i:i + max(1, chunksize)])
            payload = pickle.dumps((runner, ((func, chunk),), {}), protocol=pickle.HIGHEST_PROTOCOL)
            tasks.append(self._submit(payload, len(chunk)))
        res = SimMapResult(self, tasks, callback, error_callback)
        for t in tasks:
            t.group = res
        self.log.append(["map", "starmap" if star else "map", len(items), chunksize, [t.no for t in tasks]])
        return res

    def map_async(self, func, iterable, chunksize=None, callback=None, error_callback=None):
        return self._map_async(func, iterable, False, chunksize, callback, error_callback)

    def starmap_async(self, func, iterable, chunksize=None, callback=None, error_callback=None):
        return self._map_async(func, iterable, True, chunksize, callback, error_callback)

    def map(self, func, iterable, chunksize=None):
        return self._map_async(func, iterable, False, chunksize).get()

    def starmap(self, func, iterable, chunksize=None):
        return self._map_async(func, iterable, True, chunksize).get()

    def apply(self, func, args=(), kwds=None):
        return self.apply_async(func, args, kwds).get()

    def imap(self, *a, **k):
        raise SimPoolError("SimPool models apply_async / map / starmap (and their _async forms) only")

    imap_unordered = imap

    def close(self):
        if self._state == "RUN":
            self._state = "CLOSE"

    def join(self):
        if self._state == "RUN":
            raise ValueError("Pool is still running")
        if self._state == "CLOSE" and self._tasks:
            self._advance(max(t.finish for t in self._tasks))
        self._stop_workers()
        self._state = "TERMINATE"

    def terminate(self):
        if self._state == "TERMINATE":
            self._stop_workers()
            return
        self._state = "TERMINATE"
        for t in self._tasks:
            if not t.executed:
                key = "dropped_in_flight" if t.start <= self._now else "dropped_queued"
                self.stats[key] += 1
        self.log.append(["terminate", self._now, self.stats["dropped_in_flight"], self.stats["dropped_queued"]])
        self._stop_workers()

    # ------------------------------------------------------------------------------------------ the clock
    def _advance_to_task(self, task):
        if self._state == "TERMINATE":
            return  # a dropped task never becomes ready (the real wait() would block for ever)
        self._advance(task.finish)
        self.log.append(["wait_return", task.no, self._now])

    def _advance(self, until):
        if until > self._now:
            self._now = until
        due = [t for t in self._tasks if not t.executed and t.finish <= self._now]
        for t in sorted(due, key=lambda t: (t.start, t.no)):
            self._execute(t)
        for t in sorted((t for t in self._tasks if t.executed and not t.reported), key=lambda t: (t.finish, t.tie)):
            self._report(t)

    def _execute(self, t):
        w = t.worker
        if self._maxtasks is not None and w.n_done >= self._maxtasks:
            self._replace(w)
        w.n_done += 1
        try:
            _write_msg(w.task_w, t.no, t.payload)
            no, raw = _read_msg(w.res_r, time.monotonic() + TASK_TIMEOUT_S)
        except TimeoutError:
            raise SimPoolError(f"task {t.no} on worker {w.index} exceeded {TASK_TIMEOUT_S}s")
        except (EOFError, BrokenPipeError, OSError) as e:
            raise SimPoolError(f"worker {w.index} died while running task {t.no} ({type(e).__name__})")
        if no != t.no:
            raise SimPoolError("protocol error: reply for another task")
        t.outcome = pickle.loads(raw)
        t.executed = True
        first = len(w.ran)
        w.ran.extend(t.items)
        self.log.append(["exec", t.no, w.index, len(w.ran), first, list(t.items)])

    def _report(self, t):
        ok, value = t.outcome
        t.reported = True
        self.log.append(["complete", t.no, bool(ok), None if ok else type(value).__name__])
        if t.group is not None:
            t.group._chunk_done(t)
            return
        r = t.result
        r._ok, r._value, r._ready = ok, value, True
        if ok and t.callback is not None:
            t.callback(value)
        if not ok and t.error_callback is not None:
            t.error_callback(value)


def _worker_loop(task_r, res_w):
    while True:
        try:
            no, raw = _read_msg(task_r)
        except EOFError:
            return
        try:
            func, args, kwds = pickle.loads(raw)
            value = func(*args, **kwds)
            ok = True
        except Exception as e:  # like multiprocessing.pool.worker: the exception is the result
            ok, value = False, e
        try:
            out = pickle.dumps((ok, value), protocol=pickle.HIGHEST_PROTOCOL)
        except Exception as e:  # MaybeEncodingError in the real pool
            out = pickle.dumps((False, RuntimeError(f"Error sending result: {value!r:.200}. Reason: {e!r:.200}")))
        sys.stdout.flush()
        sys.stderr.flush()
        _write_msg(res_w, no, out)


# ------------------------------------------------------------------------------------------------ the seam
class Seam:
    """Context manager replacing Pool / set_start_method / cpu_count of a module (demeter.core.backtest)."""

    def __init__(self, module, sched, cpu=64):
        self.module, self.sched, self.cpu = module, sched, cpu
        self.log = []
        self.pools = []
        self.start_methods = []
        self._saved = None

    def _pool(self, processes=None, *a, **k):
        p = SimPool(processes, *a, sched=self.sched, log=self.log, **k)
        self.pools.append(p)
        return p

    def _set_start_method(self, method, force=False):
        if self.start_methods and not force:  # the real function is once-per-process
            raise RuntimeError("context has already been set")
        self.start_methods.append(method)
        self.log.append(["set_start_method", method])

    def _cpu_count(self):
        return self.cpu

    def __enter__(self):
        m = self.module
        self._saved = (m.Pool, m.set_start_method, m.cpu_count)
        m.Pool, m.set_start_method, m.cpu_count = self._pool, self._set_start_method, self._cpu_count
        return self

    def __exit__(self, *exc):
        m = self.module
        m.Pool, m.set_start_method, m.cpu_count = self._saved
        for p in self.pools:
            if p._workers:
                p._stop_workers(kill=True)
        return False

    def executed(self):
        """call number (submission order) -> (worker index, k-th call run by that worker), over all pools (backtest.py
        creates one); a call is one apply_async or one element of a map / starmap"""
        out = {}
        for e in self.log:
            if e[0] == "exec":
                for k, item in enumerate(e[5]):
                    out[item] = (e[2], e[4] + k)
        return out

    def task_of(self):
        """call number -> task number (its own, or the chunk it travelled in)"""
        out = {}
        for e in self.log:
            if e[0] == "assign":
                for item in e[6]:
                    out[item] = e[1]
        return out
