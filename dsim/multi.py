"""Result object for properties whose one 'run' consists of several simulated executions (twin/mirror worlds)."""
from .canon import digest


class Combined:
    def __init__(self, sims, primary=0):
        self.sims = list(sims)
        self.violations = []
        self.counters = {}
        self.states = set()
        self.op_results = []
        self.events = []
        self.crash = None
        for k, s in enumerate(self.sims):
            self.op_results += s.op_results
            for key, v in s.counters.items():
                self.counters[key] = self.counters.get(key, 0) + v
            self.states |= s.states
            self.events.append(["sim", k, s.events])
            for v in s.violations:
                self.violations.append(v)
            if s.crash is not None and self.crash is None:
                self.crash = s.crash
        self.actuator = self.sims[primary].actuator
        self.seq = 0

    def violate(self, oracle, site, **detail):
        from .canon import canon
        from .sim import Violation

        v = Violation(oracle=oracle, site=site, detail=canon(detail), seq=len(self.events), bar=detail.get("bar"))
        self.violations.append(v)
        self.events.append(["VIOLATION", oracle, site])
        return v

    def count(self, key, n=1):
        self.counters[key] = self.counters.get(key, 0) + n

    def state(self, s):
        self.states.add(s)

    def log_digest(self):
        return digest(self.events)
