#!/bin/bash
# usage: SOAK_SEED=303 SOAK_W=6 SOAK_WALL=600 tools/soak_all.sh [ids...]   (thorough tier, no evidence written)
ids=${@:-C01 C02 C03 C04 C05 C08 C09 C10 C11 C12 C13 C14 C15 C16 C17 C18 C19}
for p in $ids; do
  echo "== $p seed=${SOAK_SEED:-303}"
  VERIF_SEED=${SOAK_SEED:-303} timeout 2400 /venv/bin/python -m dsim.check $p --tier thorough --workers ${SOAK_W:-6} --wall ${SOAK_WALL:-600} --no-evidence 2>&1 | grep -v conda | grep -E "VIOLATION|HARNESS|KNOWN|done|oracle=" | cut -c1-700
  echo "exit=${PIPESTATUS[0]}"
done
