"""python -m dsim.check <ID> [--tier quick|thorough] [--runs N] [--workers N]

exit 0: property held on everything explored (KNOWN-FINDING lines allowed)
exit 1: "VIOLATION property=<id> replay=<path>" for a violation not listed in known_findings.json
exit 2: HARNESS-ERROR (never silently a pass)
"""
import argparse
import json
import os
import sys
import time

from . import bootstrap


def main(argv=None):
    bootstrap.ensure_hashseed()
    ap = argparse.ArgumentParser()
    ap.add_argument("prop")
    ap.add_argument("--tier", default="quick", choices=["quick", "thorough"])
    ap.add_argument("--runs", type=int, default=None)
    ap.add_argument("--workers", type=int, default=None)
    ap.add_argument("--wall", type=float, default=None)
    ap.add_argument("--no-evidence", action="store_true")
    ap.add_argument("--counters", action="store_true", help="print the fault / probe counters of the batch (development aid)")
    args = ap.parse_args(argv)
    tier = os.environ.get("VERIF_TIER") or args.tier
    if tier not in ("quick", "thorough"):
        tier = args.tier
    master = int(os.environ.get("VERIF_SEED", "0") or 0)
    pid = args.prop.upper()
    bootstrap.init()
    from . import runner, shrink
    from .canon import canon

    prop = runner.load_prop(pid)
    if hasattr(prop, "custom_check"):
        return prop.custom_check(tier, master, args)
    budget = dict(prop.BUDGET[tier])
    n_runs = args.runs or budget["runs"]
    wall = args.wall or budget["wall"]
    workers = args.workers or min(16, os.cpu_count() or 1)
    t0 = time.time()
    print(f"dsim.check property={pid} tier={tier} VERIF_SEED={master} runs={n_runs} workers={workers}", flush=True)
    agg = runner.batch(pid, tier, master, n_runs, workers, wall)
    rc = 0
    lines = []
    # ---- harness errors
    if agg["harness_errors"]:
        he = agg["harness_errors"][0]
        print(f"HARNESS-ERROR property={pid} runs_failed={len(agg['harness_errors'])} first_seed={he['seed']}\n{he['harness_error']}")
        rc = 2
    # ---- determinism spot check: re-run the first seeds in this (parent) process
    from . import rng as R

    redo = 0
    for i in range(min(3, n_runs)):
        s = R.run_seed(master, pid, i)
        if s in agg["digests"]:
            rec = runner.run_scenario(prop, runner.gen(prop, s, tier))
            redo += 1
            if rec["digest"] != agg["digests"][s]:
                print(f"HARNESS-ERROR property={pid} nondeterministic seed={s} worker={agg['digests'][s][:12]} parent={rec['digest'][:12]}")
                rc = 2
    # ---- violations
    known = runner.load_known(pid)
    by_key = {}
    for rec in agg["violating"]:
        for v in rec["violations"]:
            by_key.setdefault((v["oracle"], v["site"]), []).append((rec["seed"], v))
    known_hits = {}
    unknown = {}
    for key, items in by_key.items():
        k = runner.match_known(known, items[0][1])
        if k is not None:
            known_hits.setdefault(k["id"], [0, k])[0] += len(items)
        else:
            unknown[key] = items
    for k in known:
        if k.get("status") == "known":
            hits = known_hits.get(k["id"], [0])[0]
            print(f"KNOWN-FINDING: property={pid} {k['what']} [id={k['id']} hits_this_run={hits}]")
    n_viol = 0
    os.makedirs(runner.REPLAY_DIR, exist_ok=True)
    for key, items in sorted(unknown.items())[:4]:
        seed, v = items[0]
        sc = runner.gen(prop, seed, tier)
        small = shrink.minimise(prop, sc, key)
        bootstrap.reset_process_state(small)
        sim = prop.execute(small)
        vv = [x for x in sim.violations if (x["oracle"], x["site"]) == key]
        small["expect"] = {"oracle": key[0], "site": key[1], "digest": sim.log_digest(), "detail": vv[0]["detail"] if vv else None}
        path = os.path.join(runner.REPLAY_DIR, f"{pid}-{seed}-{_slug(key)}.json")
        with open(path, "w") as f:
            json.dump(small, f, indent=1)  # key order is part of the scenario (dict iteration order feeds construction order)
        code, out = runner.fresh_replay(path)
        if code == 1:
            print(f"VIOLATION property={pid} replay={path}")
            print(f"  oracle={key[0]} site={key[1]} seed={seed} runs_hit={len(items)} detail={json.dumps(small['expect']['detail'])[:600]}")
            n_viol += 1
        else:
            print(f"HARNESS-ERROR property={pid} replay of {path} did not reproduce in a fresh interpreter (code {code})\n{out[-800:]}")
            rc = 2
    if len(unknown) > 4:
        for key in sorted(unknown)[4:]:
            print(f"  (further unlisted violation class not minimised: oracle={key[0]} site={key[1]} runs_hit={len(unknown[key])})")
    if n_viol:
        rc = 1  # a violation reproduced from its replay file in a fresh interpreter stands, whatever else went wrong
    wall_s = time.time() - t0
    if args.counters:
        for k in sorted(agg["counters"]):
            if k.startswith(("probe:", "fault:")):
                print(f"  counter {k} = {agg['counters'][k]}")
    if not args.no_evidence:
        from .evidence import write_evidence

        write_evidence(prop, pid, tier, master, agg, n_viol, wall_s, known_hits, redo)
    print(
        f"done property={pid} runs={agg['runs']} ops={agg['ops']} bars={agg['bars']} distinct_states={len(agg['states'])} "
        f"unlisted_violation_classes={len(unknown)} known_hit={sum(h[0] for h in known_hits.values())} wall={wall_s:.1f}s capped={agg['capped']} exit={rc}"
    )
    return rc


def _slug(key):
    import re

    return re.sub(r"[^A-Za-z0-9_.-]+", "_", key[0] + "-" + key[1])[:80]


if __name__ == "__main__":
    sys.exit(main())
