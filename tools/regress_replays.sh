#!/bin/bash
# Re-executes every kept replay (replays/keep-*.json: minimised scenarios of repaired defects and of corrected false
# alarms). On the current tree each must run without a violation (exit 0 of dsim.replay).
cd /verif; rc=0
for f in replays/keep-*.json; do
  /venv/bin/python -m dsim.replay "$f" --quiet > /tmp/regress-$$.log 2>&1; c=$?
  if [ $c = 0 ]; then echo "ok   $f"; else echo "FAIL($c) $f"; grep -m2 "VIOLATION-RECORD\|Error" /tmp/regress-$$.log | cut -c1-300; rc=1; fi
done
rm -f /tmp/regress-$$.log; exit $rc
