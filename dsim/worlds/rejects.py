"""C04 rejection catalogue: one recipe per (operation, precondition, token that can be short) for every market family and
the broker wallet, plus the few extra operations the recipes need (wallet operations of the Broker, drain / refill).

A recipe is a short block of ordinary program operations (symbolic arguments, resolved against live state when the block
runs), exactly one of which is the *target* - the call aimed at one precondition.  Set-up steps are legitimate operations
(e.g. `broker.subtract_from_balance` to make one token short, a supply + borrow to create a debt); clean-up steps give the
drained tokens back so that the rest of the program still meets varied states.  Whether the aimed-at precondition actually
fired is decided at run time from the exception (`cause_of`), never assumed.

    Entry(id="<op>:<cause label>", family, make(g) -> [op dict, ...], causes={classified causes that count as a hit},
          token=<role of the token that must be named by a wallet-short rejection, or None>)
"""
import math
import re
from decimal import Decimal

from ..sim import op, amount, HarnessError
from ..canon import D
from . import uni as U
from . import gmx as G

GHOST = "GHOST"  # declared in every C04 world (18 decimals, priced 1 USD), never in the wallet, in no market
NOPRICE = "NOPRICE"  # declared, but neither priced nor held


# ====================================================================================================== operations
def _scratch(sim):
    s = getattr(sim, "_c04", None)
    if s is None:
        s = sim._c04 = {"drained": {}}
    return s


def _bal(sim, tok):
    return sim.broker.assets[tok].balance if tok in sim.broker.assets else Decimal(0)


@op("broker.subtract")
def _b_sub(sim, m, a):
    t = sim.token(a["token"])
    spec = a.get("amount")
    amt = amount(sim, spec) + (D(spec["plus"]) if isinstance(spec, dict) and "plus" in spec else Decimal(0))
    return lambda: sim.broker.subtract_from_balance(t, amt) and None


@op("broker.set_balance")
def _b_set(sim, m, a):
    """Broker.set_balance mid-run (a top-up whose computed amount may have gone wrong). {"restore": true} puts back what the
    wallet held before the last such call on that token (harness-side clean-up after an accepted odd amount)."""
    t = sim.token(a["token"])
    saved = getattr(sim, "_saved_balance", None)
    if saved is None:
        saved = sim._saved_balance = {}
    if a.get("restore"):
        if t not in saved:
            return None
        old = saved.pop(t)
        return lambda: sim.broker.set_balance(t, old) and None
    amt = amount(sim, a.get("amount"))
    saved[t] = sim.broker.assets[t].balance if t in sim.broker.assets else Decimal(0)
    if a.get("as_float"):
        amt = float(amt)
    return lambda: sim.broker.set_balance(t, amt) and None


def _swap_args(sim, a):
    ft, tt = sim.token(a["from"]), sim.token(a["to"])
    spec = a.get("amount")
    amt = amount(sim, spec) + (D(spec["plus"]) if isinstance(spec, dict) and "plus" in spec else Decimal(0))
    kw = {}
    if "fee_rate" in a:
        kw["fee_rate"] = D(a["fee_rate"])
    return ft, tt, amt, sim.prices_now(), kw


@op("broker.swap_by_from")
def _b_swap_from(sim, m, a):
    ft, tt, amt, prices, kw = _swap_args(sim, a)
    return lambda: sim.broker.swap_by_from(ft, tt, amt, prices, **kw)


@op("broker.swap_by_to")
def _b_swap_to(sim, m, a):
    ft, tt, amt, prices, kw = _swap_args(sim, a)
    return lambda: sim.broker.swap_by_to(ft, tt, amt, prices, **kw)


@op("c04.drain")
def _drain(sim, m, a):
    """legitimate `subtract_from_balance` leaving `keep` (a fraction) of the token in the wallet; remembers what it took"""
    t = sim.token(a["token"])
    bal = _bal(sim, t)
    take = bal * (1 - D(a.get("keep", "0.001")))
    if take <= 0:
        return None
    take = take.quantize(Decimal(1).scaleb(-int(t.decimal)))
    if take <= 0 or take > bal:
        return None

    def call():
        sim.broker.subtract_from_balance(t, take)
        _scratch(sim)["drained"].setdefault(t.name, []).append(take)

    return call


@op("c04.refill")
def _refill(sim, m, a):
    t = sim.token(a["token"])
    lst = _scratch(sim)["drained"].get(t.name) or []
    if not lst:
        return None
    amt = lst[-1]

    def call():
        sim.broker.add_to_balance(t, amt)
        lst.pop()

    return call


# ====================================================================================================== causes
_TABLE = [
    ("insufficient balance, balance is", "wallet_short"),
    ("doesn't exist in assets dict", "wallet_no_such_token"),
    (" is not open.", "closed_bar"),
    ("tick should match tick space", "tick_off_spacing"),
    ("lower tick should be less than upper tick", "lower_gt_upper"),
    ("Lower tick is larger than upper tick", "lower_ge_upper"),
    ("liquidity should large than 0", "negative_liquidity"),
    ("collect amount should large than 0", "negative_collect"),
    ("from and to token can not same", "same_token"),
    ("from or to token not in pool", "foreign_token"),
    ("Not enough balance to add liquidity", "value_beyond_balance"),
    ("tick should in tick range", "tick_out_of_range"),
    ("position not exist or has transferred out", "position_missing_or_out"),
    ("position not exist or has not transferred", "position_missing_or_in"),
    ("Can not supplied as collateral", "not_collateral_token"),
    ("Collateral different from existing supply", "flag_mismatch"),
    ("invalid amount", "zero_amount"),
    ("not enough available user balance", "beyond_supply"),
    ("health factor lower than liquidation threshold", "hf_below_1"),
    ("borrow is not enabled", "borrow_disabled"),
    ("collateral balance is zero", "no_collateral"),
    ("ltv validation failed", "ltv_zero"),
    ("collateral cannot cover new borrow", "beyond_ltv"),
    ("is not in supply", "collateral_token_not_supplied"),
    ("is not in collateral", "collateral_token_not_collateral"),
    ("no debt of selected type", "no_debt"),
    ("amount exceed debt", "beyond_debt"),
    ("not exist in supplies", "no_supply"),
    ("not exist in borrows", "no_debt"),
    ("Vault collateral rate is not safe", "unsafe_ratio"),
    ("Vault collateral is below dust", "dust"),
    ("Position is not in squeeth-eth pool", "lp_not_in_pool"),
    ("Require liquidity in squeeth-eth pool", "lp_zero_liquidity"),
    ("already has a NFT collateral", "vault_has_nft"),
    ("is not deposit in vault", "wrong_lp"),
    ("Can not liquidate safe vault", "safe_vault"),
    ("Dust vault left", "dust_left"),
    ("Need full liquidation", "need_full_liquidation"),
    ("is not in current orderbook", "unknown_instrument"),
    ("is not open", "state_not_open"),
    ("amount should greater than min amount", "below_min_amount"),
    ("doesn't have a order in price", "price_not_in_book"),
    ("insufficient order", "beyond_depth"),
    ("insufficient position", "beyond_holding"),
    ("No such instrument position", "unheld"),
    ("Not enough balance, balance is", "cash_short"),
    ("insufficient GLP", "beyond_holding"),
    ("insufficient GM", "beyond_holding"),
    ("amount cannot be negative", "negative_amount"),
    ("exceeds the deposit amount", "impact_exceeds_deposit"),
]
_VAULT_RE = re.compile(r"^\d+ not exist$")
_TOKEN_RE = re.compile(r"sub amount is \S*?([A-Z][A-Z0-9.]*)$")
PROTOCOL_EXC = ("DemeterError", "AssertionError", "InsufficientBalanceError", "RuntimeError")


def cause_of(exc: str, msg: str) -> str:
    """short, input-independent name of a rejection; python-level errors get their own names (py_<Type>)"""
    msg = msg or ""
    if exc in PROTOCOL_EXC:
        if _VAULT_RE.match(msg):
            return "unknown_vault"
        for frag, name in _TABLE:
            if frag in msg:
                return name
        return "other_" + exc
    return "py_" + exc


def short_token(msg: str):
    m = _TOKEN_RE.search(msg or "")
    return m.group(1) if m else None


# ====================================================================================================== catalogue
class Entry:
    def __init__(self, id, family, make, causes, place=None, needs=None):
        self.id, self.family, self.make = id, family, make
        self.causes = set([causes] if isinstance(causes, str) else causes)
        self.place = place  # None | "early" | "closed" (deribit bar off the hour) | "open"
        self.needs = needs or {}


CATALOGUE = []
BY_ID = {}


def entry(id, family, causes, place=None, needs=None):
    def deco(f):
        e = Entry(id, family, f, causes, place, needs)
        if id in BY_ID:
            raise HarnessError(f"duplicate catalogue entry {id}")
        CATALOGUE.append(e)
        BY_ID[id] = e
        return f

    return deco


class G_:
    """generation context of one recipe: the world, the market it addresses, the bar it is placed in, the program rng"""

    def __init__(self, rng, world, mw, bar, nb, extra=None):
        self.rng, self.world, self.mw, self.bar, self.nb = rng, world, mw, bar, nb
        self.name = mw["name"] if mw else None
        self.extra = extra or {}

    def row(self):
        return max(self.bar, 0) * int(self.extra.get("minutes_per_bar", 1))


def T(o, **kw):
    """mark the target operation of a recipe"""
    o = dict(o)
    o["target"] = True
    o.update(kw)
    return o


def O(opname, m, a, **kw):
    d = {"op": opname, "m": m, "a": a}
    d.update(kw)
    return d


def drain(tok, keep="0.001"):
    return O("c04.drain", None, {"token": tok, "keep": keep})


def refill(tok):
    return O("c04.refill", None, {"token": tok})


# ------------------------------------------------------------------------------------------------------ broker
def _some_token(g):
    held = [t for t, v in g.world["assets"].items() if Decimal(v) > 0]
    return g.rng.choice(sorted(held))


def _two_tokens(g):
    held = sorted(t for t, v in g.world["assets"].items() if Decimal(v) > 0)
    a = g.rng.choice(held)
    b = g.rng.choice([t for t in sorted(g.world["prices"]) if t != a and t not in (NOPRICE,)])
    return a, b


@entry("broker.subtract:beyond_balance", "broker", "wallet_short")
def _(g):
    t = _some_token(g)
    return [T(O("broker.subtract", None, {"token": t, "amount": {"f": f"wallet:{t}", "x": g.rng.choice(["1.5", "1.0001", "10"]), "plus": "0.001"}}))]


@entry("broker.set_balance:negative_amount", "broker", "invalid_argument")
def _(g):
    # accepted on the tree as it is (the wallet is then put back); a tree that refuses it must refuse it cleanly
    t = _some_token(g)
    return [T(O("broker.set_balance", None, {"token": t, "amount": {"abs": g.rng.choice(["-5", "-0.001", "-1e9"])}, "as_float": g.rng.random() < 0.3})),
            O("broker.set_balance", None, {"token": t, "restore": True})]


@entry("broker.subtract:token_not_in_wallet", "broker", "wallet_no_such_token")
def _(g):
    return [T(O("broker.subtract", None, {"token": GHOST, "amount": {"abs": "1"}}))]


@entry("broker.swap_by_from:beyond_balance", "broker", "wallet_short")
def _(g):
    a, b = _two_tokens(g)
    return [T(O("broker.swap_by_from", None, {"from": a, "to": b, "amount": {"f": f"wallet:{a}", "x": "1.5", "plus": "0.001"}}))]


@entry("broker.swap_by_from:token_not_in_wallet", "broker", "wallet_no_such_token")
def _(g):
    b = _some_token(g)
    return [T(O("broker.swap_by_from", None, {"from": GHOST, "to": b, "amount": {"abs": "3"}}))]


@entry("broker.swap_by_from:unpriced_token", "broker", "py_KeyError")
def _(g):
    a = _some_token(g)
    return [T(O("broker.swap_by_from", None, {"from": a, "to": NOPRICE, "amount": {"f": f"wallet:{a}", "x": "0.1"}}))]


@entry("broker.swap_by_from:bad_fee_rate", "broker", "other_AssertionError")
def _(g):
    a, b = _two_tokens(g)
    return [T(O("broker.swap_by_from", None, {"from": a, "to": b, "amount": {"f": f"wallet:{a}", "x": "0.1"}, "fee_rate": g.rng.choice(["1", "1.5", "-0.1"])}))]


@entry("broker.swap_by_to:beyond_balance", "broker", "wallet_short")
def _(g):
    a, b = _two_tokens(g)
    p = Decimal(g.world["prices"][a][0]) / Decimal(g.world["prices"][b][0])
    return [T(O("broker.swap_by_to", None, {"from": a, "to": b, "amount": {"f": f"wallet:{a}", "x": str(p * 2), "plus": "0.001"}}))]


@entry("broker.swap_by_to:token_not_in_wallet", "broker", "wallet_no_such_token")
def _(g):
    b = _some_token(g)
    return [T(O("broker.swap_by_to", None, {"from": GHOST, "to": b, "amount": {"abs": "3"}}))]


# ------------------------------------------------------------------------------------------------------ uniswap
def _uni_ticks(g, wide=False):
    mw = g.mw
    sp = U.spacing_of(mw["fee"])
    cur = int(mw["closeTick"][max(g.row() - 1, 0)])
    lo = (cur // sp) * sp - g.rng.randint(2, 8) * sp
    hi = (cur // sp) * sp + g.rng.randint(2, 8) * sp
    return lo, hi, sp, cur


def _uni_far(g):
    sp = U.spacing_of(g.mw["fee"])
    lo = (880000 // sp) * sp - sp * g.rng.randint(1, 40)
    return {"lo": lo, "hi": lo + sp}


def _bq(g):
    return U.base_quote(g.mw)


def _uni_short(g, which):
    """token `which` (0/1) made short by a legitimate wallet subtraction; the other token suffices"""
    mw = g.mw
    lo, hi, sp, cur = _uni_ticks(g)
    b, q = _bq(g)
    short = mw["token0"] if which == 0 else mw["token1"]
    amt = {b: {"f": f"wallet:{b}", "x": "0.4"}, q: {"f": f"wallet:{q}", "x": "0.4"}}
    amt[short] = {"f": f"wallet:{short}", "x": "900"}  # ~ 90 % of what the wallet held before the drain
    return [drain(short), T(O("uni.add_by_tick", g.name, {"lo": lo, "hi": hi, "base": amt[b], "quote": amt[q]}), want_token=short), refill(short)]


@entry("uni.add_by_tick:token0_short", "uni", "wallet_short")
def _(g):
    return _uni_short(g, 0)


@entry("uni.add_by_tick:token1_short_token0_ok", "uni", "wallet_short")
def _(g):
    return _uni_short(g, 1)


@entry("uni.add_by_tick:token1_short_token0_all", "uni", "wallet_short")
def _(g):
    """token0 asked for with (nearly) the whole balance - inside the wallet's 1e-5 snap-to-zero zone, below, on or above
    it - and far more of the drained token1 than is left: refused on token1 after token0 was handled"""
    mw = g.mw
    lo, hi, sp, cur = _uni_ticks(g)
    b, q = _bq(g)
    t0, t1 = mw["token0"], mw["token1"]
    amt = {t0: {"f": f"wallet:{t0}", "x": g.rng.choice(["1", "0.999996", "1.000004", "0.999993"])}, t1: {"f": f"wallet:{t1}", "x": "1000000"}}
    return [drain(t1), T(O("uni.add_by_tick", g.name, {"lo": lo, "hi": hi, "base": amt[b], "quote": amt[q]}), want_token=t1), refill(t1)]


@entry("uni.add_by_tick:both_short", "uni", "wallet_short")
def _(g):
    lo, hi, sp, cur = _uni_ticks(g)
    b, q = _bq(g)
    return [T(O("uni.add_by_tick", g.name, {"lo": lo, "hi": hi, "base": {"f": f"wallet:{b}", "x": "3"}, "quote": {"f": f"wallet:{q}", "x": "3"}}))]


@entry("uni.add_by_tick:tick_off_spacing", "uni", "tick_off_spacing")
def _(g):
    lo, hi, sp, cur = _uni_ticks(g)
    b, q = _bq(g)
    off = g.rng.choice([(1, 0), (0, 1), (1, 3)]) if sp > 3 else (1, 1)
    return [T(O("uni.add_by_tick", g.name, {"lo": lo + off[0], "hi": hi + off[1], "trim": False, "base": {"f": f"wallet:{b}", "x": "0.01"}, "quote": {"f": f"wallet:{q}", "x": "0.01"}}))]


def _tick_price(mw, world, tick):
    d0, d1 = int(world["tokens"][mw["token0"]]), int(world["tokens"][mw["token1"]])
    p = 1.0001 ** tick * 10 ** (d0 - d1)  # token1 per token0
    return 1 / p if mw["quote"] == mw["token0"] else p


@entry("uni.add:lower_gt_upper", "uni", "lower_gt_upper")
def _(g):
    lo, hi, sp, cur = _uni_ticks(g)
    b, q = _bq(g)
    p1, p2 = _tick_price(g.mw, g.world, lo), _tick_price(g.mw, g.world, hi)
    return [T(O("uni.add", g.name, {"lower_price": repr(max(p1, p2)), "upper_price": repr(min(p1, p2)), "base": {"f": f"wallet:{b}", "x": "0.05"}, "quote": {"f": f"wallet:{q}", "x": "0.05"}}))]


@entry("uni.add:wallet_short", "uni", "wallet_short")
def _(g):
    lo, hi, sp, cur = _uni_ticks(g)
    b, q = _bq(g)
    p1, p2 = _tick_price(g.mw, g.world, lo), _tick_price(g.mw, g.world, hi)
    return [T(O("uni.add", g.name, {"lower_price": repr(min(p1, p2)), "upper_price": repr(max(p1, p2)), "base": {"f": f"wallet:{b}", "x": "4"}, "quote": {"f": f"wallet:{q}", "x": "4"}}))]


@entry("uni.remove:unknown_position", "uni", "py_KeyError")
def _(g):
    return [T(O("uni.remove", g.name, {"pos": _uni_far(g), "collect": g.rng.random() < 0.5}))]


@entry("uni.remove:negative_liquidity", "uni", "negative_liquidity")
def _(g):
    return [T(O("uni.remove", g.name, {"pos": {"i": g.rng.randint(0, 3)}, "liq": {"abs": str(-g.rng.randint(1, 10**6))}}))]


@entry("uni.collect:unknown_position", "uni", "py_KeyError")
def _(g):
    return [T(O("uni.collect", g.name, {"pos": _uni_far(g)}))]


@entry("uni.collect:negative_max", "uni", "negative_collect")
def _(g):
    a = {"pos": {"i": g.rng.randint(0, 3)}}
    a[g.rng.choice(["max0", "max1"])] = "-1"
    return [T(O("uni.collect", g.name, a))]


@entry("uni.swap:same_token", "uni", "same_token")
def _(g):
    t = g.rng.choice(_bq(g))
    return [T(O("uni.swap", g.name, {"from": t, "to": t, "amount": {"abs": "1"}}))]


@entry("uni.swap:foreign_token", "uni", "foreign_token")
def _(g):
    b, q = _bq(g)
    a = {"from": GHOST, "to": b, "amount": {"abs": "1"}} if g.rng.random() < 0.5 else {"from": q, "to": GHOST, "amount": {"abs": "1"}}
    return [T(O("uni.swap", g.name, a))]


@entry("uni.swap:base_beyond_wallet", "uni", "wallet_short")
def _(g):
    b, q = _bq(g)
    return [T(O("uni.swap", g.name, {"from": b, "to": q, "amount": {"f": f"wallet:{b}", "x": g.rng.choice(["1.7", "1.001", "30"])}}), want_token=b)]


@entry("uni.swap:quote_beyond_wallet", "uni", "wallet_short")
def _(g):
    b, q = _bq(g)
    return [T(O("uni.swap", g.name, {"from": q, "to": b, "amount": {"f": f"wallet:{q}", "x": g.rng.choice(["1.7", "1.001", "30"])}}), want_token=q)]


@entry("uni.buy:beyond_wallet", "uni", "wallet_short")
def _(g):
    return [T(O("uni.buy", g.name, {"amount": {"abs": g.rng.choice(["1e13", "1e16"])}}))]


@entry("uni.sell:beyond_wallet", "uni", "wallet_short")
def _(g):
    b, q = _bq(g)
    return [T(O("uni.sell", g.name, {"amount": {"f": f"wallet:{b}", "x": g.rng.choice(["1.7", "1.001", "30"])}}))]


@entry("uni.add_by_value:beyond_balance", "uni", "value_beyond_balance")
def _(g):
    lo, hi, sp, cur = _uni_ticks(g)
    return [T(O("uni.add_by_value", g.name, {"lo": lo, "hi": hi, "value": {"abs": "1e30"}}))]


@entry("uni.add_by_value:lower_ge_upper", "uni", "lower_ge_upper")
def _(g):
    lo, hi, sp, cur = _uni_ticks(g)
    b, q = _bq(g)
    return [T(O("uni.add_by_value", g.name, {"lo": hi, "hi": g.rng.choice([lo, hi]), "value": {"f": f"wallet:{q}", "x": "0.1"}}))]


@entry("uni.even_rebalance:skewed_price", "uni", "wallet_short")
def _(g):
    lo, hi, sp, cur = _uni_ticks(g)
    p = _tick_price(g.mw, g.world, cur)
    return [T(O("uni.even_rebalance", g.name, {"price": repr(p * g.rng.choice([1e-6, 1e-4, 1e-3]))}))]


@entry("uni.transfer_out:unknown_position", "uni", "position_missing_or_out")
def _(g):
    return [T(O("uni.transfer_out", g.name, {"pos": _uni_far(g)}))]


@entry("uni.transfer_in:not_transferred", "uni", "position_missing_or_in")
def _(g):
    return [T(O("uni.transfer_in", g.name, {"pos": {"i": g.rng.randint(0, 3)} if g.rng.random() < 0.6 else _uni_far(g)}))]


@entry("uni.transfer_out:already_out", "uni", "position_missing_or_out")
def _(g):
    lo, hi, sp, cur = _uni_ticks(g)
    b, q = _bq(g)
    pos = {"lo": lo - 11 * sp, "hi": hi + 11 * sp}
    return [
        O("uni.add_by_tick", g.name, dict(pos, base={"f": f"wallet:{b}", "x": "0.02"}, quote={"f": f"wallet:{q}", "x": "0.02"})),
        O("uni.transfer_out", g.name, {"pos": pos}),
        T(O("uni.transfer_out", g.name, {"pos": pos})),
        O("uni.transfer_in", g.name, {"pos": pos}),
    ]


# ------------------------------------------------------------------------------------------------------ aave
def _risk(g, t):
    return g.mw["risk"][t]


def _aave_tokens(g, pred=lambda r: True):
    return [t for t in g.mw["tokens"] if pred(g.mw["risk"][t])]


def _unit(g, t, usd=1000):
    """a token amount worth about `usd` dollars (string, 6 significant digits)"""
    p = float(g.world["prices"][t][g.row()])
    return format(Decimal(repr(usd / p)).quantize(Decimal(1).scaleb(-min(6, int(g.world["tokens"][t])))), "f")


def _coll_token(g):
    c = _aave_tokens(g, lambda r: r["collateral"] and r["ltv"] > 0)
    return g.rng.choice(c) if c else g.mw["tokens"][0]


def _borrow_token(g, other_than=None):
    c = [t for t in _aave_tokens(g, lambda r: r["borrow"]) if t != other_than] or _aave_tokens(g, lambda r: r["borrow"]) or list(g.mw["tokens"])
    return g.rng.choice(c)


def _supply(g, t, usd, flag=True, **kw):
    return O("aave.supply", g.name, {"token": t, "amount": _unit(g, t, usd), "collateral": flag}, **kw)


def _with_debt(g, frac="0.9", dbar=0):
    """set-up: a collateral supply and a borrow of `frac` of what the reference model allows"""
    c = _coll_token(g)
    u = _borrow_token(g, other_than=c)
    return c, u, [_supply(g, c, g.rng.choice([2000, 50000]), True, dbar=dbar),
                  O("aave.borrow", g.name, {"token": u, "amount": {"f": "ref_max_borrow", "x": frac}}, dbar=dbar)]


@entry("aave.supply:wallet_short", "aave", "wallet_short")
def _(g):
    t = g.rng.choice(g.mw["tokens"])
    return [T(_supply(g, t, 1e13, bool(_risk(g, t)["collateral"])))]


@entry("aave.supply:wallet_short_after_drain", "aave", "wallet_short")
def _(g):
    t = g.rng.choice(g.mw["tokens"])
    a = {"token": t, "amount": {"f": f"wallet:{t}", "x": "50"}, "collateral": bool(_risk(g, t)["collateral"])}  # ~5 % of the balance before the drain
    return [drain(t), T(O("aave.supply", g.name, a), want_token=t), refill(t)]


@entry("aave.supply:not_collateral_token", "aave", "not_collateral_token", needs={"risk": "no_collateral"})
def _(g):
    c = _aave_tokens(g, lambda r: not r["collateral"])
    t = g.rng.choice(c) if c else g.mw["tokens"][-1]
    return [T(_supply(g, t, 500, True))]


@entry("aave.supply:flag_mismatch", "aave", "flag_mismatch")
def _(g):
    c = _aave_tokens(g, lambda r: r["collateral"])
    t = g.rng.choice(c) if c else g.mw["tokens"][0]
    f0 = g.rng.random() < 0.5
    # the first supply may itself be refused when the token is already supplied with the other flag: then the
    # target goes through (an accepted recipe), which the run-time classification records
    return [_supply(g, t, 300, f0), T(_supply(g, t, 200, not f0))]


@entry("aave.supply:unknown_token", "aave", "py_KeyError")
def _(g):
    return [T(O("aave.supply", g.name, {"token": GHOST, "amount": "1", "collateral": False}))]


@entry("aave.withdraw:beyond_supply", "aave", "beyond_supply")
def _(g):
    t = g.rng.choice(g.mw["tokens"])
    return [_supply(g, t, 400, bool(_risk(g, t)["collateral"])), T(O("aave.withdraw", g.name, {"token": t, "amount": {"f": "supply", "x": g.rng.choice(["1.5", "1.000001", "40"])}}))]


@entry("aave.withdraw:zero", "aave", "zero_amount")
def _(g):
    t = g.rng.choice(g.mw["tokens"])
    return [_supply(g, t, 400, bool(_risk(g, t)["collateral"])), T(O("aave.withdraw", g.name, {"token": t, "amount": "0"}))]


@entry("aave.withdraw:hf_below_1", "aave", "hf_below_1")
def _(g):
    c, u, setup = _with_debt(g)
    return setup + [T(O("aave.withdraw", g.name, {"token": c, "amount": {"f": "supply", "x": g.rng.choice(["0.9", "0.5", "1"])}}))]


@entry("aave.withdraw:unknown_token", "aave", "py_KeyError")
def _(g):
    return [T(O("aave.withdraw", g.name, {"token": GHOST, "amount": "1"}))]


@entry("aave.borrow:disabled", "aave", "borrow_disabled", needs={"risk": "no_borrow"})
def _(g):
    c = _aave_tokens(g, lambda r: not r["borrow"])
    t = g.rng.choice(c) if c else g.mw["tokens"][-1]
    return [_supply(g, _coll_token(g), 5000, True), T(O("aave.borrow", g.name, {"token": t, "amount": _unit(g, t, 10)}))]


@entry("aave.borrow:no_collateral", "aave", "no_collateral", place="early")
def _(g):
    t = _borrow_token(g)
    return [T(O("aave.borrow", g.name, {"token": t, "amount": _unit(g, t, 10)}))]


@entry("aave.borrow:ltv_zero", "aave", "ltv_zero", place="early", needs={"risk": "ltv0"})
def _(g):
    z = _aave_tokens(g, lambda r: r["collateral"] and r["ltv"] == 0)
    t = g.rng.choice(z) if z else g.mw["tokens"][0]
    u = _borrow_token(g, other_than=t)
    return [_supply(g, t, 5000, True), T(O("aave.borrow", g.name, {"token": u, "amount": _unit(g, u, 10)})),
            O("aave.withdraw", g.name, {"token": t, "amount": None})]


@entry("aave.borrow:beyond_ltv", "aave", "beyond_ltv")
def _(g):
    c = _coll_token(g)
    u = _borrow_token(g)
    return [_supply(g, c, 3000, True), T(O("aave.borrow", g.name, {"token": u, "amount": {"f": "ref_max_borrow", "x": g.rng.choice(["1.3", "1.0001", "25"])}}))]


@entry("aave.borrow:hf_le_1", "aave", "hf_below_1", needs={"shock": True})
def _(g):
    # the collateral's price is cut at this bar (the world is edited by the generator: needs.shock); the debt was opened
    # in the previous bar; before update() liquidates at the end of this bar, the health factor is below 1
    c, u, setup = _with_debt(g, "0.97", dbar=-1)
    g.extra["shock"] = {"token": c, "bar": g.bar, "factor": g.rng.choice(["0.5", "0.7", "0.3"])}
    return setup + [T(O("aave.borrow", g.name, {"token": u, "amount": _unit(g, u, 1)}))]


@entry("aave.borrow:unknown_token", "aave", "py_KeyError")
def _(g):
    return [T(O("aave.borrow", g.name, {"token": GHOST, "amount": "1"}))]


@entry("aave.repay:no_debt", "aave", "py_KeyError", place="early")
def _(g):
    t = g.rng.choice(g.mw["tokens"])
    return [T(O("aave.repay", g.name, {"token": t, "amount": _unit(g, t, 10)}))]


@entry("aave.repay:beyond_debt", "aave", "beyond_debt")
def _(g):
    c, u, setup = _with_debt(g, "0.5")
    return setup + [T(O("aave.repay", g.name, {"token": u, "amount": {"f": "debt", "x": g.rng.choice(["2", "1.01", "50"])}}))]


@entry("aave.repay:wallet_short", "aave", "wallet_short")
def _(g):
    c, u, setup = _with_debt(g, "0.5")
    return setup + [drain(u, g.rng.choice(["0", "0.0001"])), T(O("aave.repay", g.name, {"token": u, "amount": None}), want_token=u), refill(u)]


@entry("aave.repay:zero_amount", "aave", "zero_amount")
def _(g):
    c, u, setup = _with_debt(g, "0.5")
    return setup + [T(O("aave.repay", g.name, {"token": u, "amount": "0"}))]


@entry("aave.repay:collateral_token_not_supplied", "aave", "collateral_token_not_supplied")
def _(g):
    c, u, setup = _with_debt(g, "0.5")
    return setup + [T(O("aave.repay", g.name, {"token": u, "amount": {"f": "debt", "x": "0.5"}, "with_collateral": True, "collateral_token": GHOST}))]


@entry("aave.repay:collateral_token_not_collateral", "aave", "collateral_token_not_collateral")
def _(g):
    c, u, setup = _with_debt(g, "0.5")
    others = [t for t in g.mw["tokens"] if t != c]
    v = g.rng.choice(others) if others else c
    return setup + [_supply(g, v, 800, False),
                    T(O("aave.repay", g.name, {"token": u, "amount": {"f": "debt", "x": "0.5"}, "with_collateral": True, "collateral_token": v}))]


@entry("aave.change_collateral:hf_below_1", "aave", "hf_below_1")
def _(g):
    c, u, setup = _with_debt(g)
    return setup + [T(O("aave.change_collateral", g.name, {"token": c, "collateral": False}))]


@entry("aave.change_collateral:no_supply", "aave", "py_KeyError")
def _(g):
    return [T(O("aave.change_collateral", g.name, {"token": GHOST, "collateral": True}))]


# ------------------------------------------------------------------------------------------------------ squeeth
def _sq_index(g):
    """ETH value of one oSQTH of debt at this bar from the scenario's own numbers (norm factor x ETH price / 1e4)"""
    r = g.row()
    return float(g.mw["norm_factor"][r]) * float(g.mw["WETH"][r]) / 1e4


def _mint_for(g, eth, ratio):
    return format(Decimal(repr(eth / _sq_index(g) / ratio)).quantize(Decimal("0.000000000001")), "f")


def _pool_name(g):
    p = g.mw["pool"]
    return p["name"] if isinstance(p, dict) else p


def _pool_mw(g):
    p = g.mw["pool"]
    if isinstance(p, dict):
        return p
    return next(m for m in g.world["markets"] if m["name"] == p)


def _sq_lp(g, k=0, weth="3"):
    """(position literal, add operation) for a fresh in-range LP position of the oSQTH pool"""
    pm = _pool_mw(g)
    cur = int(pm["closeTick"][max(g.row() - 1, 0)])
    sp = 60
    w = g.rng.randint(3, 30)
    lo = (cur // sp) * sp - w * sp - k * 7 * sp
    hi = (cur // sp) * sp + w * sp + k * 11 * sp
    pos = {"lo": lo, "hi": hi}
    return pos, O("uni.add_by_tick", pm["name"], dict(pos, base={"f": "wallet:OSQTH", "x": "0.3"}, quote=weth))


def _sq_open(g, dep="2", ratio=2.5, pos=None, **kw):
    a = {"deposit": dep, "mint": _mint_for(g, float(dep), ratio)}
    if pos is not None:
        a["pos"] = pos
    return O("sq.open_deposit_mint", g.name, a, **kw)


LAST = {"i": -1}  # the newest vault


@entry("sq.open_deposit_mint:unsafe_new_vault", "squeeth", "unsafe_ratio")
def _(g):
    dep = g.rng.choice(["1", "5", "0.7"])
    return [T(O("sq.open_deposit_mint", g.name, {"deposit": dep, "mint": _mint_for(g, float(dep), g.rng.choice([1.2, 1.0, 0.3, 1.4]))}))]


@entry("sq.open_deposit_mint:unsafe_existing_vault", "squeeth", "unsafe_ratio")
def _(g):
    k = format(Decimal(repr(1 / _sq_index(g) / g.rng.choice([1.1, 0.8, 1.3]))).quantize(Decimal("0.00000001")), "f")
    return [_sq_open(g), T(O("sq.open_deposit_mint", g.name, {"vault": LAST, "deposit": g.rng.choice(["0", "0", "0.1"]), "mint": {"f": f"sqcoll:{g.name}#-1", "x": k}}))]


@entry("sq.open_deposit_mint:dust", "squeeth", "dust")
def _(g):
    dep = g.rng.choice(["0.3", "0.49", "0.1"])
    return [T(O("sq.open_deposit_mint", g.name, {"deposit": dep, "mint": _mint_for(g, float(dep), 3.0)}))]


@entry("sq.open_deposit_mint:weth_short", "squeeth", "wallet_short")
def _(g):
    return [T(O("sq.open_deposit_mint", g.name, {"deposit": {"f": "wallet:WETH", "x": g.rng.choice(["1.5", "1.01", "9"])}, "mint": g.rng.choice(["0", "0.001", "1"])}))]


@entry("sq.open_deposit_mint:weth_short_existing_vault", "squeeth", "wallet_short")
def _(g):
    return [_sq_open(g), T(O("sq.open_deposit_mint", g.name, {"vault": LAST, "deposit": {"f": "wallet:WETH", "x": "1.5"}, "mint": g.rng.choice(["0", "0.5"])}))]


@entry("sq.open_deposit_mint:lp_not_in_pool", "squeeth", "lp_not_in_pool")
def _(g):
    return [T(_sq_open(g, pos={"lo": 600000, "hi": 600060}))]


@entry("sq.open_deposit_mint:lp_zero_liquidity", "squeeth", "lp_zero_liquidity")
def _(g):
    pos, add = _sq_lp(g)
    pool = _pool_name(g)
    return [add, O("uni.remove", pool, {"pos": pos, "collect": False}), T(_sq_open(g, pos=pos)), O("uni.collect", pool, {"pos": pos})]


@entry("sq.open_deposit_mint:vault_has_nft", "squeeth", "vault_has_nft")
def _(g):
    p1, a1 = _sq_lp(g, 0)
    p2, a2 = _sq_lp(g, 1)
    return [a1, a2, _sq_open(g, pos=p1), T(O("sq.open_deposit_mint", g.name, {"vault": LAST, "deposit": "0.2", "mint": "0.01", "pos": p2}))]


@entry("sq.open_deposit_mint:lp_already_lent", "squeeth", "position_missing_or_out")
def _(g):
    p1, a1 = _sq_lp(g, 0)
    return [a1, _sq_open(g, pos=p1), T(_sq_open(g, pos=p1))]


@entry("sq.open_deposit_mint:unknown_vault", "squeeth", "py_KeyError")
def _(g):
    return [T(O("sq.open_deposit_mint", g.name, {"vault": {"id": 9999}, "deposit": g.rng.choice(["0", "1"]), "mint": g.rng.choice(["0.5", "0"])}))]


@entry("sq.open_deposit_mint_by_collat_rate:unsafe", "squeeth", "unsafe_ratio")
def _(g):
    return [T(O("sq.open_deposit_mint_by_collat_rate", g.name, {"deposit": g.rng.choice(["1", "4"]), "rate": g.rng.choice(["1.2", "1.0", "1.45"])}))]


@entry("sq.open_deposit_mint_by_collat_rate:weth_short", "squeeth", "wallet_short")
def _(g):
    return [T(O("sq.open_deposit_mint_by_collat_rate", g.name, {"deposit": {"f": "wallet:WETH", "x": "1.5"}, "rate": "2"}))]


@entry("sq.deposit:weth_short", "squeeth", "wallet_short")
def _(g):
    return [_sq_open(g), T(O("sq.deposit", g.name, {"vault": LAST, "amount": {"f": "wallet:WETH", "x": g.rng.choice(["1.5", "1.001", "20"])}}))]


@entry("sq.deposit:unknown_vault", "squeeth", "py_KeyError")
def _(g):
    return [T(O("sq.deposit", g.name, {"vault": {"id": 9999}, "amount": "1"}))]


@entry("sq.deposit_uni_position:lp_not_in_pool", "squeeth", "lp_not_in_pool")
def _(g):
    return [_sq_open(g), T(O("sq.deposit_uni_position", g.name, {"vault": LAST, "pos": {"lo": 600000, "hi": 600060}}))]


@entry("sq.deposit_uni_position:lp_zero_liquidity", "squeeth", "lp_zero_liquidity")
def _(g):
    pos, add = _sq_lp(g)
    pool = _pool_name(g)
    return [_sq_open(g), add, O("uni.remove", pool, {"pos": pos, "collect": False}), T(O("sq.deposit_uni_position", g.name, {"vault": LAST, "pos": pos})),
            O("uni.collect", pool, {"pos": pos})]


@entry("sq.deposit_uni_position:vault_has_nft", "squeeth", "vault_has_nft")
def _(g):
    p1, a1 = _sq_lp(g, 0)
    p2, a2 = _sq_lp(g, 1)
    return [a1, a2, _sq_open(g, pos=p1), T(O("sq.deposit_uni_position", g.name, {"vault": LAST, "pos": p2}))]


@entry("sq.deposit_uni_position:lp_already_lent", "squeeth", "position_missing_or_out")
def _(g):
    p1, a1 = _sq_lp(g, 0)
    return [a1, _sq_open(g, pos=p1), _sq_open(g), T(O("sq.deposit_uni_position", g.name, {"vault": LAST, "pos": p1}))]


@entry("sq.deposit_uni_position:unknown_vault", "squeeth", "py_KeyError")
def _(g):
    pos, add = _sq_lp(g)
    return [add, T(O("sq.deposit_uni_position", g.name, {"vault": {"id": 9999}, "pos": pos}))]


@entry("sq.withdraw_uni_position:unknown_vault", "squeeth", "unknown_vault")
def _(g):
    return [T(O("sq.withdraw_uni_position", g.name, {"vault": {"id": 9999}, "pos": {"lo": 0, "hi": 60}}))]


@entry("sq.withdraw_uni_position:wrong_lp", "squeeth", "wrong_lp")
def _(g):
    p1, a1 = _sq_lp(g, 0)
    p2, a2 = _sq_lp(g, 1)
    return [a1, a2, _sq_open(g, pos=p1), T(O("sq.withdraw_uni_position", g.name, {"vault": LAST, "pos": p2}))]


@entry("sq.withdraw_uni_position:unsafe_without_lp", "squeeth", ("unsafe_ratio", "dust"))
def _(g):
    # the vault is safe only thanks to the LP position: 1 ETH of cash collateral against a debt worth 2 ETH
    pos, add = _sq_lp(g, 0, weth=g.rng.choice(["6", "20"]))
    return [add, O("sq.open_deposit_mint", g.name, {"deposit": "1", "mint": _mint_for(g, 1.0, 0.5), "pos": pos}),
            T(O("sq.withdraw_uni_position", g.name, {"vault": LAST, "pos": pos}))]


@entry("sq.withdraw_uni_position:lp_taken_back_in_the_pool", "squeeth", "position_missing_or_in")
def _(g):
    """the vault holds the LP position, but the pool no longer regards it as lent (the owner called the pool's public
    transfer_position_in himself): the pool refuses the hand-over - after the vault's own check has passed"""
    pos, add = _sq_lp(g, 0)
    pm = _pool_mw(g)
    return [add, _sq_open(g, dep="3", ratio=3.0, pos=pos), O("uni.transfer_in", pm["name"], {"pos": pos}),
            T(O("sq.withdraw_uni_position", g.name, {"vault": LAST, "pos": pos}))]


@entry("sq.burn_and_withdraw:unknown_vault", "squeeth", "unknown_vault")
def _(g):
    return [T(O("sq.burn_and_withdraw", g.name, {"vault": {"id": 9999}, "burn": "0", "withdraw": "1"}))]


@entry("sq.burn_and_withdraw:burn_beyond_wallet", "squeeth", "wallet_short")
def _(g):
    return [_sq_open(g), drain("OSQTH"), T(O("sq.burn_and_withdraw", g.name, {"vault": LAST, "burn": {"f": f"sqshort:{g.name}#-1", "x": g.rng.choice(["1", "0.5"])},
                                                                                  "withdraw": g.rng.choice(["0", "0.1"])}), want_token="OSQTH"), refill("OSQTH")]


@entry("sq.burn_and_withdraw:withdraw_unsafe", "squeeth", "unsafe_ratio")
def _(g):
    burn = g.rng.choice(["0", "0", {"f": f"sqshort:{g.name}#-1", "x": "0.1"}])
    return [_sq_open(g, ratio=2.0), T(O("sq.burn_and_withdraw", g.name, {"vault": LAST, "burn": burn, "withdraw": {"f": f"sqcoll:{g.name}#-1", "x": g.rng.choice(["0.6", "0.9", "1"])}}))]


@entry("sq.burn_and_withdraw:dust", "squeeth", "dust")
def _(g):
    return [_sq_open(g, dep="0.8", ratio=6.0), T(O("sq.burn_and_withdraw", g.name, {"vault": LAST, "burn": "0", "withdraw": g.rng.choice(["0.4", "0.31"])}))]


@entry("sq.buy_squeeth:beyond_wallet", "squeeth", "wallet_short")
def _(g):
    return [T(O("sq.buy_squeeth", g.name, {"osqth": g.rng.choice(["1e12", "1e9"])}))]


@entry("sq.sell_squeeth:beyond_wallet", "squeeth", "wallet_short")
def _(g):
    return [_sq_open(g), T(O("sq.sell_squeeth", g.name, {"osqth": {"f": "wallet:OSQTH", "x": g.rng.choice(["1.7", "1.001"])}}))]


@entry("sq.liquidate:safe_vault", "squeeth", "safe_vault")
def _(g):
    return [_sq_open(g), T(O("sq.liquidate", g.name, {"vault": LAST}))]


@entry("sq.liquidate:unknown_vault", "squeeth", "unknown_vault")
def _(g):
    return [T(O("sq.liquidate", g.name, {"vault": {"id": 9999}}))]


# ------------------------------------------------------------------------------------------------------ deribit
def _drb_inst(g, state=None):
    """an instrument index (into the sorted universe); with state='closed' one that is not open in this bar's hour"""
    names = sorted(g.mw["instruments"])
    if state:
        hour = g.extra.get("hour_rows") or {}
        c = [i for i, nm in enumerate(names) if hour.get(nm, {}).get("state", "open") != "open"]
        if c:
            return {"i": g.rng.choice(c)}
    return {"i": g.rng.randrange(len(names))}


def _tok(g):
    return g.mw["token"]


def _one(g):
    return "1" if _tok(g) == "ETH" else "0.1"


@entry("deribit.buy:unknown_instrument", "deribit", "unknown_instrument", place="open")
def _(g):
    return [T(O("deribit.buy", g.name, {"inst": {"name": f"{_tok(g)}-1JAN30-1-C"}, "amount": {"abs": _one(g)}}))]


@entry("deribit.buy:state_not_open", "deribit", "state_not_open", place="open", needs={"closed_state": True})
def _(g):
    return [T(O("deribit.buy", g.name, {"inst": _drb_inst(g, "closed"), "amount": {"abs": _one(g)}}))]


@entry("deribit.buy:below_min_amount", "deribit", "below_min_amount", place="open")
def _(g):
    return [T(O("deribit.buy", g.name, {"inst": _drb_inst(g), "amount": {"abs": "0.01"}}))]


@entry("deribit.buy:beyond_depth", "deribit", "beyond_depth", place="open")
def _(g):
    return [T(O("deribit.buy", g.name, {"inst": _drb_inst(g), "amount": {"depth": g.rng.choice(["1.5", "1.01", "20"]), "else": "100000"}}))]


@entry("deribit.buy:price_not_in_book", "deribit", "price_not_in_book", place="open")
def _(g):
    return [T(O("deribit.buy", g.name, {"inst": _drb_inst(g), "amount": {"abs": _one(g)}, "mode": "token", "px": {"level": g.rng.randint(0, 3), "mul": g.rng.choice(["1.01", "0.99", "3"])}}))]


@entry("deribit.buy:cash_short", "deribit", "cash_short", place="open")
def _(g):
    t = _tok(g)
    return [O("deribit.withdraw", g.name, {"amount": {"f": f"cash:{g.name}", "x": g.rng.choice(["1", "0.999999"])}}),
            T(O("deribit.buy", g.name, {"inst": _drb_inst(g), "amount": {"level": 0, "x": "1", "else": _one(g)}})),
            O("deribit.deposit", g.name, {"amount": {"f": f"wallet:{t}", "x": "0.5"}})]


def _drb_priced(g):
    """the optional pricing arguments of buy / sell, chosen so that they exclude no level and name the best one: the same
    rejection must leave the same nothing behind whichever code path the arguments select"""
    return g.rng.choice([
        {"mode": "cap", "k": g.rng.choice(["3", "10"])},
        {"mode": "token", "px": {"level": 0}},
        {"mode": "token+cap", "px": {"level": 0}, "k": "5"},
        {"mode": "usd", "px": {"level": 0}},
    ])


@entry("deribit.buy:cash_short:priced", "deribit", "cash_short", place="open")
def _(g):
    t = _tok(g)
    return [O("deribit.withdraw", g.name, {"amount": {"f": f"cash:{g.name}", "x": g.rng.choice(["1", "0.999999"])}}),
            T(O("deribit.buy", g.name, dict({"inst": _drb_inst(g), "amount": {"level": 0, "x": g.rng.choice(["1", "0.5"]), "else": _one(g)}}, **_drb_priced(g)))),
            O("deribit.deposit", g.name, {"amount": {"f": f"wallet:{t}", "x": "0.5"}})]


@entry("deribit.buy:beyond_depth:capped", "deribit", "beyond_depth", place="open")
def _(g):
    return [T(O("deribit.buy", g.name, {"inst": _drb_inst(g), "amount": {"depth": g.rng.choice(["1.5", "1.01", "20"]), "else": "100000"}, "mode": "cap", "k": g.rng.choice(["3", "1.0001"])}))]


@entry("deribit.sell:beyond_holding:priced", "deribit", "beyond_holding", place="open")
def _(g):
    i = _drb_inst(g)
    return [O("deribit.buy", g.name, {"inst": i, "amount": {"abs": _one(g)}}),
            T(O("deribit.sell", g.name, dict({"inst": {"held": g.rng.randint(0, 3)}, "amount": {"holding": g.rng.choice(["1.5", "2"]), "else": "1", "max_level": 0}}, **_drb_priced(g))))]


@entry("deribit.sell:unheld:priced", "deribit", "unheld", place="open")
def _(g):
    return [T(O("deribit.sell", g.name, dict({"inst": _drb_inst(g), "amount": {"abs": _one(g)}}, **_drb_priced(g))))]


@entry("deribit.buy:closed_bar:priced", "deribit", "closed_bar", place="closed")
def _(g):
    return [T(O("deribit.buy", g.name, dict({"inst": _drb_inst(g), "amount": {"abs": _one(g)}}, **_drb_priced(g))))]


@entry("deribit.buy:closed_bar", "deribit", "closed_bar", place="closed")
def _(g):
    return [T(O("deribit.buy", g.name, {"inst": _drb_inst(g), "amount": {"abs": _one(g)}}))]


@entry("deribit.sell:unknown_instrument", "deribit", "unknown_instrument", place="open")
def _(g):
    return [T(O("deribit.sell", g.name, {"inst": {"name": f"{_tok(g)}-1JAN30-1-P"}, "amount": {"abs": _one(g)}}))]


@entry("deribit.sell:state_not_open", "deribit", "state_not_open", place="open", needs={"closed_state": True})
def _(g):
    return [T(O("deribit.sell", g.name, {"inst": _drb_inst(g, "closed"), "amount": {"abs": _one(g)}}))]


@entry("deribit.sell:unheld", "deribit", "unheld", place="open")
def _(g):
    return [T(O("deribit.sell", g.name, {"inst": _drb_inst(g), "amount": {"abs": _one(g)}}))]


@entry("deribit.sell:beyond_holding", "deribit", "beyond_holding", place="open")
def _(g):
    i = _drb_inst(g)
    return [O("deribit.buy", g.name, {"inst": i, "amount": {"abs": _one(g)}}),
            T(O("deribit.sell", g.name, {"inst": {"held": g.rng.randint(0, 3)}, "amount": {"holding": g.rng.choice(["1.5", "2", "10"]), "else": "1"}}))]


@entry("deribit.sell:below_min_amount", "deribit", "below_min_amount", place="open")
def _(g):
    return [T(O("deribit.sell", g.name, {"inst": {"held": 0}, "amount": {"abs": "0.01"}}))]


@entry("deribit.sell:price_not_in_book", "deribit", "price_not_in_book", place="open")
def _(g):
    i = _drb_inst(g)
    return [O("deribit.buy", g.name, {"inst": i, "amount": {"abs": _one(g)}}),
            T(O("deribit.sell", g.name, {"inst": {"held": 0}, "amount": {"abs": _one(g)}, "mode": "token", "px": {"level": 0, "mul": g.rng.choice(["1.01", "0.99"])}}))]


@entry("deribit.sell:beyond_depth", "deribit", "beyond_depth", place="open")
def _(g):
    i = _drb_inst(g)
    return [O("deribit.buy", g.name, {"inst": i, "amount": {"depth": "1", "else": "1"}}),
            T(O("deribit.sell", g.name, {"inst": i, "amount": {"holding": "1", "else": "100000"}}))]


@entry("deribit.sell:closed_bar", "deribit", "closed_bar", place="closed")
def _(g):
    return [T(O("deribit.sell", g.name, {"inst": {"held": 0}, "amount": {"abs": _one(g)}}))]


@entry("deribit.withdraw:beyond_cash", "deribit", "cash_short")
def _(g):
    return [T(O("deribit.withdraw", g.name, {"amount": {"f": f"cash:{g.name}", "x": g.rng.choice(["1.5", "1.000001", "30"])}}))]


@entry("deribit.deposit:beyond_wallet", "deribit", "wallet_short")
def _(g):
    t = _tok(g)
    return [T(O("deribit.deposit", g.name, {"amount": {"f": f"wallet:{t}", "x": g.rng.choice(["1.5", "1.001", "30"])}}))]


# ------------------------------------------------------------------------------------------------------ gmx v1
def _glp_short(tok):
    def make(g):
        if tok not in g.mw["tokens"]:
            return []
        return [T(O("gmx1.buy_glp", g.name, {"token": tok, "amount": {"f": f"wallet:{tok}", "x": g.rng.choice(["1.5", "1.001", "40"])}}), want_token=tok)]

    return make


for _t in G.GLP_CATALOGUE:
    entry(f"gmx1.buy_glp:wallet_short:{_t}", "gmx1", "wallet_short", needs={"token": _t})(_glp_short(_t))


@entry("gmx1.buy_glp:token_not_in_wallet", "gmx1", "wallet_no_such_token", needs={"unheld_token": True})
def _(g):
    t = g.extra.get("unheld_token") or list(g.mw["tokens"])[-1]
    return [T(O("gmx1.buy_glp", g.name, {"token": t, "amount": {"abs": "1"}}))]


@entry("gmx1.buy_glp:unknown_token", "gmx1", ("py_KeyError", "wallet_no_such_token"))
def _(g):
    # a token outside the GLP basket: one the wallet holds if the world has one (then the price lookup fails, KeyError),
    # otherwise GHOST (then the wallet refuses first)
    outside = sorted(t for t, v in g.world["assets"].items() if t not in g.mw["tokens"] and Decimal(v) > 0)
    t = g.rng.choice(outside) if outside else GHOST
    return [T(O("gmx1.buy_glp", g.name, {"token": t, "amount": {"abs": "0.001"}}))]


@entry("gmx1.sell_glp:beyond_holding", "gmx1", "beyond_holding")
def _(g):
    t = g.rng.choice(sorted(g.mw["tokens"]))
    return [T(O("gmx1.sell_glp", g.name, {"token": t, "amount": {"f": f"held:{g.name}", "x": g.rng.choice(["1.5", "1", "10"]), "plus": g.rng.choice(["1", "0.000000000000000001"])}}))]


@entry("gmx1.sell_glp:unknown_token", "gmx1", "py_KeyError")
def _(g):
    t = g.rng.choice(sorted(g.mw["tokens"]))
    return [O("gmx1.buy_glp", g.name, {"token": t, "amount": {"f": f"wallet:{t}", "x": "0.05"}}),
            T(O("gmx1.sell_glp", g.name, {"token": GHOST, "amount": {"f": f"held:{g.name}", "x": "0.5"}}))]


# ------------------------------------------------------------------------------------------------------ gmx v2
@entry("gmx2.deposit:long_token_short", "gmx2", "wallet_short")
def _(g):
    lt, st = g.mw["long"], g.mw["short"]
    return [T(O("gmx2.deposit", g.name, {"long": {"f": f"wallet:{lt}", "x": g.rng.choice(["1.5", "1.001"])}, "short": g.rng.choice([None, {"f": f"wallet:{st}", "x": "0.1"}])}), want_token=lt)]


@entry("gmx2.deposit:short_token_short_long_ok", "gmx2", "wallet_short")
def _(g):
    lt, st = g.mw["long"], g.mw["short"]
    return [T(O("gmx2.deposit", g.name, {"long": g.rng.choice([None, {"f": f"wallet:{lt}", "x": "0.1"}, {"f": f"wallet:{lt}", "x": "0.1"}]), "short": {"f": f"wallet:{st}", "x": g.rng.choice(["1.5", "1.001"])}}), want_token=st)]


@entry("gmx2.deposit:long_short_after_drain", "gmx2", "wallet_short")
def _(g):
    lt, st = g.mw["long"], g.mw["short"]
    return [drain(lt), T(O("gmx2.deposit", g.name, {"long": {"f": f"wallet:{lt}", "x": "500"}, "short": {"f": f"wallet:{st}", "x": "0.1"}}), want_token=lt), refill(lt)]


@entry("gmx2.deposit:single_token_pool:each_side_covered_alone", "gmx2", "wallet_short", needs={"single_token_pool": True})
def _(g):
    # a pool whose long and short token are the same token: each side is covered by the wallet, the two together are not
    t = g.mw["long"]
    return [T(O("gmx2.deposit", g.name, {"long": {"f": f"wallet:{t}", "x": g.rng.choice(["0.7", "0.6", "0.95"])}, "short": {"f": f"wallet:{t}", "x": g.rng.choice(["0.7", "0.6", "0.95"])}}), want_token=t)]


@entry("gmx2.deposit:impact_exceeds_deposit", "gmx2", "impact_exceeds_deposit")
def _(g):
    # a deposit into the heavy side of the pool large enough for the quadratic negative impact to exceed it
    r = g.row()
    heavy_long = float(g.mw["longAmount"][r]) * float(g.mw["longPrice"][r]) > float(g.mw["shortAmount"][r]) * float(g.mw["shortPrice"][r])
    side, tok = ("long", g.mw["long"]) if heavy_long else ("short", g.mw["short"])
    return [T(O("gmx2.deposit", g.name, {side: {"f": f"wallet:{tok}", "x": g.rng.choice(["0.9", "0.5"])}}))]


@entry("gmx2.withdraw:beyond_holding", "gmx2", "beyond_holding")
def _(g):
    return [T(O("gmx2.withdraw", g.name, {"amount": {"f": f"held:{g.name}", "x": g.rng.choice(["1.5", "1", "10"]), "plus": g.rng.choice(["1", "0.001"])}}))]


@entry("gmx2.withdraw:negative_amount", "gmx2", "negative_amount")
def _(g):
    return [T(O("gmx2.withdraw", g.name, {"amount": {"abs": g.rng.choice(["-5", "-0.001", "-1000"])}}))]


FAMILIES = ("broker", "uni", "aave", "squeeth", "deribit", "gmx1", "gmx2")
BY_FAMILY = {f: [e for e in CATALOGUE if e.family == f] for f in FAMILIES}


# ====================================================================================================== background ops
def background(g, family):
    """one ordinary (mostly acceptable) operation of the family: builds the reachable states the recipes are dropped into"""
    rp = g.rng
    mw = g.mw
    name = g.name
    if family == "uni":
        cur = int(mw["closeTick"][max(g.row() - 1, 0)])
        o = U.random_uni_op(rp, mw, cur, hostile=0.05)
        o.pop("hostile", None)
        return [o]
    if family == "aave":
        t = rp.choice(mw["tokens"])
        k = rp.random()
        if k < 0.35:
            return [O("aave.supply", name, {"token": t, "amount": _unit(g, t, rp.choice([100, 1000, 20000])), "collateral": bool(mw["risk"][t]["collateral"]) and rp.random() < 0.85})]
        if k < 0.55:
            return [O("aave.borrow", name, {"token": _borrow_token(g), "amount": {"f": "ref_max_borrow", "x": rp.choice(["0.1", "0.3", "0.6", "0.9"])}})]
        if k < 0.7:
            return [O("aave.withdraw", name, {"token": {"supplied": rp.randint(0, 3)}, "amount": rp.choice([None, {"f": "supply", "x": "0.3"}, {"f": "ref_max_withdraw", "x": "0.5"}])})]
        if k < 0.85:
            a = {"token": {"borrowed": rp.randint(0, 3)}, "amount": rp.choice([None, {"f": "debt", "x": "0.4"}])}
            if rp.random() < 0.3:
                a["with_collateral"] = True
                a["collateral_token"] = {"supplied": rp.randint(0, 3)}
            return [O("aave.repay", name, a)]
        if k < 0.93:
            return [O("aave.change_collateral", name, {"token": {"supplied": rp.randint(0, 3)}})]
        return [O("aave.read", name, {"view": rp.choice(["health_factor", "supplies", "borrows", "get_market_balance"])})]
    if family == "squeeth":
        pool = _pool_name(g)
        k = rp.random()
        v = {"i": rp.randint(0, 3)}
        if k < 0.2:
            return [_sq_lp(g, rp.randint(0, 2), weth=rp.choice(["0.5", "3", "10"]))[1]]
        if k < 0.4:
            a = {"deposit": rp.choice(["0.6", "1", "3", "10"]), "rate": rp.choice(["1.6", "2", "3", "5"])}
            if rp.random() < 0.35:
                a["pos"] = {"i": rp.randint(0, 3)}
            return [O("sq.open_deposit_mint_by_collat_rate", name, a)]
        if k < 0.5:
            return [O("sq.deposit", name, {"vault": v, "amount": rp.choice(["0.1", "1"])})]
        if k < 0.6:
            return [O("sq.deposit_uni_position", name, {"vault": v, "pos": {"i": rp.randint(0, 3)}})]
        if k < 0.66:
            return [O("sq.withdraw_uni_position", name, {"vault": v, "pos": {"vault": v["i"]}})]
        if k < 0.78:
            return [O("sq.burn_and_withdraw", name, {"vault": v, "burn": rp.choice(["0", {"f": f"sqshort:{name}#{v['i']}", "x": "0.3"}]),
                                                     "withdraw": rp.choice(["0", {"f": f"sqcoll:{name}#{v['i']}", "x": "0.05"}])})]
        if k < 0.84:
            return [O("sq.buy_squeeth", name, {"osqth": rp.choice(["1", "10"])})]
        if k < 0.9:
            return [O("sq.sell_squeeth", name, {"osqth": {"f": "wallet:OSQTH", "x": rp.choice(["0.1", "0.5"])}})]
        if k < 0.95:
            # never collect here: collecting a fully removed position deletes it even while it is lent to a vault, and the
            # bar loop then dies in SqueethMarket.update (KeyError) - C14's finding, it would only cut these runs short
            return [O("uni.remove", pool, {"pos": {"i": rp.randint(0, 3)}, "liq": {"f": f"liq:{pool}#{rp.randint(0, 3)}", "x": rp.choice(["0.3", "0.7"])}, "collect": False})]
        return [O("sq.read_balance", name, {})]
    if family == "deribit":
        t = mw["token"]
        k = rp.random()
        if k < 0.45:
            return [O("deribit.buy", name, {"inst": _drb_inst(g), "amount": rp.choice([{"abs": _one(g)}, {"level": 0, "x": "0.5", "else": _one(g)}, {"depth": "0.1", "else": _one(g)}])})]
        if k < 0.7:
            return [O("deribit.sell", name, {"inst": {"held": rp.randint(0, 3)}, "amount": {"holding": rp.choice(["0.5", "1"]), "else": _one(g), "max_depth": "1"}})]
        if k < 0.8:
            return [O("deribit.deposit", name, {"amount": {"f": f"wallet:{t}", "x": rp.choice(["0.1", "0.3"])}})]
        if k < 0.9:
            return [O("deribit.withdraw", name, {"amount": {"f": f"cash:{name}", "x": rp.choice(["0.1", "0.5"])}})]
        return [O("deribit.read_balance", name, {})]
    if family == "gmx1":
        t = rp.choice(sorted(mw["tokens"]))
        if rp.random() < 0.6:
            return [O("gmx1.buy_glp", name, {"token": t, "amount": {"f": f"wallet:{t}", "x": rp.choice(["0.01", "0.1", "0.3"])}})]
        return [O("gmx1.sell_glp", name, {"token": t, "amount": rp.choice([None, {"f": f"held:{name}", "x": "0.5"}])})]
    if family == "gmx2":
        if rp.random() < 0.6:
            a = {}
            if rp.random() < 0.7:
                a["long"] = {"f": f"wallet:{mw['long']}", "x": rp.choice(["0.01", "0.1"])}
            if rp.random() < 0.7 or not a:
                a["short"] = {"f": f"wallet:{mw['short']}", "x": rp.choice(["0.01", "0.1"])}
            return [O("gmx2.deposit", name, a)]
        return [O("gmx2.withdraw", name, {"amount": rp.choice([None, {"f": f"held:{name}", "x": "0.5"}])})]
    if family == "broker":
        a, b = _two_tokens(g)
        if b in (GHOST,):
            return []
        return [O(rp.choice(["broker.swap_by_from", "broker.swap_by_from", "broker.swap_by_to"]), None, {"from": a, "to": b, "amount": {"f": f"wallet:{a}", "x": rp.choice(["0.01", "0.1"])}})]
    raise HarnessError(f"no background generator for {family}")
