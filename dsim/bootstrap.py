"""Process bootstrap: pin hash seed, import demeter from the /repo working tree, stub tqdm and logging.

Nothing here draws random numbers or reads a clock.
"""
import logging
import os
import sys

REPO = os.environ.get("DSIM_REPO", "/repo")
GUARD = "DEMETER_VERIF"


def ensure_hashseed():
    """Re-exec the interpreter with PYTHONHASHSEED=0 so that set/dict-of-str iteration order inside demeter
    (AaveV3Market._tokens, GmxMarket._tokens are sets of TokenInfo hashed by name) is the same in every process."""
    if os.environ.get("PYTHONHASHSEED") != os.environ.get("DSIM_HASHSEED", "0"):
        env = dict(os.environ)
        env["PYTHONHASHSEED"] = os.environ.get("DSIM_HASHSEED", "0")
        os.execve(sys.executable, [sys.executable] + _orig_argv(), env)


def _orig_argv():
    # python -m dsim.check ...  -> sys.argv[0] is a file path; rebuild "-m module" form
    main = sys.modules.get("__main__")
    spec = getattr(main, "__spec__", None)
    if spec is not None and spec.name:
        name = spec.name
        if name.endswith(".__main__"):
            name = name[: -len(".__main__")]
        return ["-m", name] + sys.argv[1:]
    return sys.argv


class FakeTqdm:
    def __init__(self, *a, **k):
        pass

    def __enter__(self):
        return self

    def __exit__(self, *a):
        return False

    def set_description(self, *a, **k):
        pass

    def update(self, *a, **k):
        pass


_done = False


def init():
    global _done
    if _done:
        return
    os.environ[GUARD] = "1"
    if REPO in sys.path:
        sys.path.remove(REPO)
    sys.path.insert(0, REPO)
    logging.disable(logging.CRITICAL)
    import demeter  # noqa

    real = os.path.realpath(demeter.__file__)
    if not real.startswith(os.path.realpath(REPO) + os.sep):
        raise RuntimeError(f"demeter imported from {real}, expected under {REPO}")
    import demeter.core.actuator as act

    act.tqdm = FakeTqdm
    try:  # the option-book loader imports tqdm at call time (`from tqdm import tqdm`): same no-op bar
        import tqdm as _tqdm_mod

        _tqdm_mod.tqdm = FakeTqdm
    except Exception:
        pass
    logging.disable(logging.CRITICAL)
    global _decimal_context
    import decimal

    _decimal_context = decimal.getcontext().copy()  # as demeter's import left it (prec = 35)
    _snapshot_module_state()
    _done = True


_decimal_context = None
_pristine = []  # (container object, copy of its import-time content)
_caches = []  # functions with cache_clear()


def _snapshot_module_state():
    """Remember the import-time content of every mutable container that lives at module or class level in demeter, and
    of mutable default arguments of its functions (the places where state can outlive a back test inside one process)."""
    import copy
    import importlib
    import pkgutil
    import types

    import demeter

    for mi in pkgutil.walk_packages(demeter.__path__, "demeter."):
        try:
            importlib.import_module(mi.name)
        except Exception:
            pass
    seen = set()

    def keep(obj):
        if isinstance(obj, (dict, list, set)) and id(obj) not in seen:
            seen.add(id(obj))
            try:
                _pristine.append((obj, copy.deepcopy(obj)))
            except Exception:
                try:
                    _pristine.append((obj, copy.copy(obj)))
                except Exception:
                    pass

    def scan_func(f):
        f = getattr(f, "__func__", f)
        if hasattr(f, "cache_clear"):
            _caches.append(f)
        f = getattr(f, "__wrapped__", f)
        for d in (getattr(f, "__defaults__", None) or ()):
            keep(d)
        for d in (getattr(f, "__kwdefaults__", None) or {}).values():
            keep(d)

    for name, mod in list(sys.modules.items()):
        if not (name == "demeter" or name.startswith("demeter.")) or mod is None:
            continue
        for k, v in list(vars(mod).items()):
            if k.startswith("__"):
                continue
            if isinstance(v, (dict, list, set)):
                keep(v)
            elif isinstance(v, types.FunctionType) and getattr(v, "__module__", None) == name:
                scan_func(v)
            elif hasattr(v, "cache_clear") and callable(v):
                scan_func(v)
            elif isinstance(v, type) and getattr(v, "__module__", None) == name:
                for ck, cv in list(vars(v).items()):
                    if ck.startswith("__") and ck != "__init__":
                        continue
                    if isinstance(cv, (dict, list, set)):
                        keep(cv)
                    elif isinstance(cv, (types.FunctionType, classmethod, staticmethod)) or hasattr(cv, "cache_clear"):
                        scan_func(cv)


def _restore_module_state():
    for obj, content in _pristine:
        try:
            if obj != content:
                obj.clear()
                if isinstance(obj, list):
                    obj.extend(content)
                else:
                    obj.update(content)
        except Exception:
            pass
    for f in _caches:
        try:
            f.cache_clear()
        except Exception:
            pass


HOST_TZ_DEFAULT = "UTC"


def reset_process_state(scenario=None):
    """Every scenario starts from the process state demeter's import left behind: the thread's Decimal context and the
    import-time content of every module-level / class-level mutable container, mutable default argument and lru cache in
    demeter (a class-level memo, a module-level cache, `def f(x=[])`).  Without this reset a scenario's outcome could depend
    on which scenarios the same worker process ran before it (no replay), and a leak *inside* a scenario - e.g. a
    read-only helper that changes the global precision - could not be told from one inherited from an earlier run."""
    import decimal

    if _decimal_context is not None:
        decimal.setcontext(_decimal_context.copy())
    _restore_module_state()  # class-level / module-level containers, mutable default arguments, lru caches
    # the host's time zone is part of the environment the simulator owns: UTC unless the scenario says otherwise (an
    # environment fault - every timestamp demeter handles is naive UTC, so no outcome may depend on it)
    import time

    tz = HOST_TZ_DEFAULT
    if isinstance(scenario, dict):
        tz = (scenario.get("opts") or {}).get("host_tz") or HOST_TZ_DEFAULT
    if os.environ.get("TZ") != tz:
        os.environ["TZ"] = tz
        time.tzset()
