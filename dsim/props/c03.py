"""C03 - frozen-market operations never create value, negative holdings or over-redemption.

Real: every write operation of all six market families and the broker wallet, executed back-to-back inside bars of a real
Actuator.run (market status row and prices fixed while the operations run), price-consistent worlds (worlds/frozen.py).
Oracle: my own exact valuation (ref/frozen_value.py) of wallet + every position at the bar's data, taken before and after
EVERY operation, accepted or rejected.
"""
from decimal import Decimal
from fractions import Fraction

import warnings

from ..sim import Sim, Oracle, HarnessError
from ..canon import D
from ..ref import frozen_value as FV
from ..ref import gmx as RG
from ..worlds import frozen as W
from ..worlds import gmx as G
from .. import rng as RNG

ID = "C03"

# pandas warns when account-status rows list different wallet tokens (a token the wallet first meets mid-run); the frame it
# builds is not part of anything C03 looks at
warnings.filterwarnings("ignore", message=".*sort order is undefined for incomparable objects.*", category=RuntimeWarning)

# ---------------------------------------------------------------------------------------------------- tolerances
# "wallet rounding dust (1e-5 of a balance it touches)": Asset.sub empties a balance when the requested amount is within
# 1e-5 (relative) of it. The only wallet rounding there is: a balance that the operation took to exactly zero. The dust
# granted to an operation is 1e-5 x the value of every wallet balance it took to zero (its value before the operation).
DUST_REL = Fraction(1, 10**5)
# "+1e-18 relative for Decimal rounding" (DESIGN C03 Tol): demeter keeps amounts in 35-digit Decimals; every container the
# operation changed may carry that rounding - relative to the container's size, not to the change.
REL_EPS = Fraction(1, 10**18)
# No token has more than 18 decimals; Aave's own bookkeeping drops residues below 1e-18 (DESIGN C10 Tol "1e-18 absolute on
# token amounts"). A few smallest units per token the operation touched.
WEI = Fraction(1, 10**18)
WEI_UNITS = 4
# GMX v1: the data file's glp_price cell carries 16 significant digits while minting / redeeming use aum / supply.
GLP_PRICE_REL = Fraction(1, 10**15)
# GMX v2 is float64 throughout ("1e-12 relative on v2 floats", DESIGN C17 Tol); cancellation in |f*d0^2 - f*d1^2| as in C17.
V2_REL = Fraction(1, 10**12)
V2_CANCEL_ULPS = 64
EPS64 = Fraction(1, 2**52)
V2_HOLD_BAND = Fraction(1, 10**9)  # a GM request within 1e-9 of the float holding may go either way (C17)
# UniLpMarket's price column is (tick price) x Decimal(10 ** (d0 - d1)); for d0 < d1 Python evaluates 10 ** negative in float64,
# so the column sits within 2^-53 of the tick price the account prices are derived from (seen: 2e-17). Granted to every
# operation of a Uniswap pool (and Squeeth buy/sell, which swap in one), relative to the values it moved.
POOL_PRICE_REL = Fraction(1, 2**52)

ALIAS = {"fz.aave_borrow": "aave.borrow"}  # harness wrappers that issue exactly the named operation
CONSERVING = {"uni.add_by_tick", "uni.add", "uni.remove", "uni.collect", "uni.remove_all",
              "aave.supply", "aave.withdraw", "aave.borrow", "aave.repay"}
SWAPS = {"uni.swap", "uni.buy", "uni.sell", "sq.buy_squeeth", "sq.sell_squeeth", "fz.swap_by_from", "fz.swap_by_to"}
CRASH_TYPES = ("TypeError", "AttributeError", "KeyError", "InvalidOperation", "ZeroDivisionError", "DivisionByZero", "IndexError",
               "ValueError", "OverflowError", "NameError", "DivisionUndefined", "UnboundLocalError")


# ====================================================================================================== generation
def generate(seed: int, tier: str = "quick") -> dict:
    rw = RNG.sub(seed, "world")
    rp = RNG.sub(seed, "program")
    world, info = W.gen_world(rw, tier)
    program = W.gen_program(rp, world, info)
    faults = [{"kind": "frozen_burst", "bar": W.bar_of_row(info, info["frozen_row"])}]
    _inject_negative_amounts(RNG.sub(seed, "faults"), program, faults)
    return {"property": ID, "seed": seed, "world": world, "program": program, "faults": faults, "info": info}


def _is_number(x):
    try:
        return Decimal(x).is_finite()
    except Exception:
        return False


def _inject_negative_amounts(rf, program, faults, rate=0.04):
    """'all argument values': a few operations get one of their amounts negated (a negative literal, or a negative multiple of
    what is held).  A market may refuse such a request or treat it as nothing; what it may not do is book it - a negative
    amount that is accepted ends as a negative holding, as value created, or as a payout beyond the holding."""
    for o in program:
        if o["bar"] < 0 or o["op"].startswith("fz.broker") or rf.random() >= rate:
            continue
        a = o.get("a") or {}
        fields = []
        for k in sorted(a):
            v = a[k]
            if isinstance(v, dict) and ("x" in v or "abs" in v):
                key = "x" if "x" in v else "abs"
                if _is_number(v[key]) and Decimal(v[key]) > 0:
                    fields.append((k, key))
            elif isinstance(v, str) and k not in ("token", "view", "mode", "side", "name", "from", "to") and _is_number(v) and Decimal(v) > 0:
                fields.append((k, None))
        if not fields:
            continue
        k, key = rf.choice(fields)
        if key is None:
            a[k] = "-" + a[k]
        else:
            a[k] = dict(a[k])
            a[k][key] = "-" + str(a[k][key])
        faults.append({"kind": "negative_amount", "bar": o["bar"], "op": o["op"]})


# ====================================================================================================== oracle
def _f(x):
    return FV.fstr(x, 30) if isinstance(x, Fraction) else x


def _short(opname):
    return opname.replace(".", "_")


class FrozenOracle(Oracle):
    def start(self, sim):
        self.val = FV.FrozenValuer(sim.world)
        self.pre = None
        self.cached = None  # snapshot still valid (nothing ran since it was taken)
        self.negative = set()  # containers currently reported negative
        self.kinds = self.val.kinds
        self.subs = []  # wallet subtractions of the running operation: (token, balance before, balance after)
        self._observe_wallet(sim)

    def _observe_wallet(self, sim):
        """Pure observation of Broker.subtract_from_balance (the only place the wallet rounds): per-instance wrapper that records
        the balance right before and right after each call, then behaves exactly like the original."""
        broker, subs = sim.broker, self.subs
        orig = broker.subtract_from_balance

        def observed(token, amount):
            before = broker.assets[token].balance if token in broker.assets else None
            try:
                return orig(token, amount)
            finally:
                after = broker.assets[token].balance if token in broker.assets else None
                if before is not None and after is not None:
                    subs.append((token.name, before, after))

        broker.subtract_from_balance = observed

    def phase(self, sim, bar, phase, pos):
        self.cached = None  # the loop may have refreshed / updated markets

    # ------------------------------------------------------------------------------------------------ op hooks
    def before_op(self, sim, op):
        for k in ("fz_call", "last_call", "sq_call", "resolved"):
            if hasattr(sim, k):
                setattr(sim, k, None)
        if getattr(sim, "_gmx", None):
            sim._gmx["call"] = None
        self.pre = self.cached if self.cached is not None else self.val.snapshot(sim)
        self.cached = None
        del self.subs[:]
        # a quantity that went negative while no operation ran (the bar loop's own update, as a late consequence of an earlier
        # operation) is not attributed to the next operation
        for cid, (qty, _v) in self.pre.c.items():
            if qty < 0 and cid not in self.negative and _checked_nonneg(cid):
                self.negative.add(cid)
                sim.count("probe:negative_outside_operation")

    def after_op(self, sim, op, outcome):
        if outcome["status"] == "skipped":
            self.cached = self.pre
            return
        s0 = self.pre
        s1 = self.val.snapshot(sim)
        if s1.row != s0.row:
            raise HarnessError("bar changed inside an operation")
        self.cached = s1
        if self.val.sq_pool and any(e.get("transferred") and e.get("counted") for k, e in s1.extra.items() if k[0] == "uni"):
            sim.count("probe:lp_lent_to_vault")
            if self.val.reported_rebase(sim, s1) != 0:
                sim.count("probe:reported_rebase_nonzero")
        self._check(sim, op, outcome, s0, s1)

    # ------------------------------------------------------------------------------------------------ the checks
    def _check(self, sim, op, outcome, s0, s1):
        name = ALIAS.get(op["op"], op["op"])
        ok = outcome["status"] == "ok"
        st = "accepted" if ok else "rejected"
        row = s0.row
        val = self.val
        res = outcome.get("result")
        if not ok and outcome.get("exc") in CRASH_TYPES:
            sim.count(f"probe:op_raised_{outcome['exc']}")
        # ---- what changed
        changed = [cid for cid in set(s0.c) | set(s1.c) if s0.c.get(cid) != s1.c.get(cid)]
        gross = Fraction(0)
        touched_tokens = set()
        fam_touched = set()
        for cid in changed:
            v0 = s0.c.get(cid, (0, Fraction(0)))[1]
            v1 = s1.c.get(cid, (0, Fraction(0)))[1]
            gross += max(abs(v0), abs(v1))
            fam_touched.add(cid[0])
        dust = Fraction(0)
        snapped = False
        for t in set(s0.wallet) | set(s1.wallet):
            if s0.wallet.get(t, Fraction(0)) != s1.wallet.get(t, Fraction(0)):
                touched_tokens.add(t)
        for t, before, after in self.subs:
            touched_tokens.add(t)
            if after == 0 and before > 0:  # a subtraction that left exactly zero: Asset.sub may have rounded (|rest| < 1e-5 x balance)
                dust += DUST_REL * FV.F(before) * val.price(t, row)
                snapped = True
        for cid in changed:
            if cid[0] == "aave":
                touched_tokens.add(cid[2])
        wei = sum((WEI_UNITS * WEI * abs(val.price(t, row)) for t in touched_tokens), Fraction(0))
        tol = dust + REL_EPS * gross + wei
        if "gmx1" in fam_touched:
            tol += GLP_PRICE_REL * sum((max(abs(s0.c.get(c, (0, 0))[1]), abs(s1.c.get(c, (0, 0))[1])) for c in changed if c[0] == "gmx1"), Fraction(0))
        if name.startswith("uni.") or name in ("sq.buy_squeeth", "sq.sell_squeeth") or val._prices is None:
            tol += POOL_PRICE_REL * gross  # (a world without a price frame takes its account prices from the pool's column)
        allowance = Fraction(0)
        flow = Fraction(0)
        call = None
        if name.startswith("gmx2."):
            call = (getattr(sim, "_gmx", None) or {}).get("call") or {}
            tol += V2_REL * gross
            if call.get("op") == "deposit":
                a, n = self._v2_allowance(sim, op["m"], row, call)
                allowance += a
                tol += n
        elif name.startswith("gmx1."):
            call = (getattr(sim, "_gmx", None) or {}).get("call") or {}
        if name in ("fz.broker_add", "fz.broker_sub"):
            fz = getattr(sim, "fz_call", None) or {}
            t = fz.get("token")
            # an external cash flow, not a market operation: the account changes by exactly what the wallet received / paid
            flow = (s1.wallet.get(t, Fraction(0)) - s0.wallet.get(t, Fraction(0))) * val.price(t, row)
        d_nv = s1.nv - s0.nv - flow
        # ---- abstract state / probes
        size = _size_class(op)
        d_cls = "zero" if d_nv == 0 else ("loss" if d_nv < -tol else ("gain" if d_nv > tol else "within_tol"))
        sim.state((name, st, size, snapped, d_cls, bool(changed)))
        sim.count(f"probe:{st}:{name.split('.')[0]}")
        if snapped:
            sim.count("probe:wallet_snapped_to_zero")
        if size == "zero":
            sim.count("probe:zero_amount_op")
        if size == "over":
            sim.count("probe:oversize_amount_op")
        if not ok and changed:
            sim.count("probe:rejected_op_changed_state")
        explicit = name == "uni.add_by_tick" and ("sqrt" in op.get("a", {}) or "tick" in op.get("a", {}))
        detail = dict(op=name, market=op.get("m"), status=st, args=op.get("a"), exc=outcome.get("exc"), msg=outcome.get("msg"), bar=sim.bar, phase=op["phase"],
                      nv_before=_f(s0.nv), nv_after=_f(s1.nv), delta=_f(d_nv), tolerance=_f(tol), dust=_f(dust), allowance=_f(allowance),
                      changed=[[list(map(str, c)), _f(s0.c.get(c, (None, None))[0]), _f(s1.c.get(c, (None, None))[0])] for c in sorted(changed, key=str)[:12]])
        # (a) no operation, accepted or rejected, raises net value
        if d_nv > tol + allowance:
            sim.violate("c03.value_created", f"{_short(name)}:{st}:{self._cause(name, outcome, size, s0, s1)}", **detail)
        # (b) Uniswap add/remove/collect and Aave supply/withdraw/borrow/repay conserve it
        elif name in CONSERVING and not explicit and d_nv < -tol:
            sim.violate("c03.not_conserved", f"{_short(name)}:{st}:value_lost:{self._cause(name, outcome, size, s0, s1)}", **detail)
        # (c) swaps at the pool price lose exactly the reported fee
        elif name in SWAPS and ok:
            fee_val = self._swap_fee_value(sim, op, res, row)
            if fee_val is not None:
                sim.count("probe:swap_fee_checked")
                if abs(d_nv + fee_val) > tol + REL_EPS * abs(fee_val):
                    sim.violate("c03.swap_fee", f"{_short(name)}:accepted:loss_differs_from_reported_fee", reported_fee_value=_f(fee_val), **detail)
        if name in CONSERVING and ok:
            sim.count("probe:conservation_checked")
        # (d) nothing negative
        for cid, (qty, _v) in s1.c.items():
            if not _checked_nonneg(cid):
                continue
            floor = Fraction(0)
            if cid[0] == "gmx2":
                floor = -V2_REL * max(abs(s0.c.get(cid, (Fraction(0), 0))[0]), Fraction(1))
            if qty < floor:
                if cid not in self.negative:
                    self.negative.add(cid)
                    sim.violate("c03.negative_holding", f"{_short(name)}:{st}:{_container_kind(cid)}_negative", container=list(map(str, cid)), quantity=_f(qty),
                                before=_f(s0.c.get(cid, (None, None))[0]), **detail)
            else:
                self.negative.discard(cid)
        self.negative &= set(s1.c)
        # (e) no operation pays out more of a position than was held before it
        self._check_payout(sim, op, outcome, s0, s1, call, detail)

    # ------------------------------------------------------------------------------------------------ helpers
    def _cause(self, name, outcome, size, s0, s1):
        if outcome["status"] != "ok":
            msg = (outcome.get("msg") or "").lower()
            for key, tag in (("insufficient balance", "wallet_short"), ("not enough balance", "cash_short"), ("insufficient position", "beyond_holding"),
                             ("no such instrument", "unheld"), ("insufficient glp", "beyond_holding"), ("insufficient gm", "beyond_holding"),
                             ("not safe", "vault_unsafe"), ("below dust", "vault_dust"), ("health factor", "health_factor"), ("is not open", "market_closed"),
                             ("insufficient order", "beyond_depth"), ("doesn't exist in assets", "unknown_token"), ("collateral", "collateral_rule")):
                if key in msg:
                    return tag
            return outcome.get("exc") or "rejected"
        return "amount_" + size

    def _v2_allowance(self, sim, mname, row, call):
        """GMX v2 pays a depositor who improves the pool balance out of the impact pool (by design, DESIGN C17): the allowed
        gain of a deposit is the capped positive price impact of my own reference, + the float noise of its sign tests."""
        mw = self.val.mw[mname]
        cfg = G.v2_config(mw)
        st = G.v2_state(mw, row)
        L, S = Fraction(float(call["long"])), Fraction(float(call["short"]))
        if L * st.long_price + S * st.short_price == 0:
            return Fraction(0), Fraction(0)
        ref = RG.deposit(cfg, st, L, S)
        noise = V2_CANCEL_ULPS * EPS64 * max(cfg.f_pos, cfg.f_neg) * ref["scale"] ** 2
        cands = RG.deposit_candidates(cfg, st, L, S, noise)
        allow = max([c["capped_positive_usd"] for c in cands] + [Fraction(0)])
        if allow > 0:
            sim.count("probe:gmx2_positive_impact_allowance")
        else:
            sim.count("probe:gmx2_deposit_without_allowance")
        return allow, noise

    def _swap_fee_value(self, sim, op, res, row):
        """value of the fee the operation itself reported, in account quote"""
        name = op["op"]
        val = self.val
        if res is None:
            return None
        if name.startswith("fz.swap"):
            return FV.F(res["fee"]) * val.price(res["fee_token"], row)
        if op.get("a", {}).get("price") is not None:
            return None  # caller-chosen execution price: excluded by the property
        if name.startswith("sq."):
            pool = val.sq_pool[op["m"]]
            u = val.uni[pool]
            fee = FV.F(res[0])
            tok = "WETH" if name == "sq.buy_squeeth" else "OSQTH"
            return fee * val.price(tok, row)
        u = val.uni[op["m"]]
        base = u["t1"] if u["t0q"] else u["t0"]
        quote = u["q"]
        fee = FV.F(res[0])
        if name == "uni.buy":
            tok = quote
        elif name == "uni.sell":
            tok = base
        else:
            tok = op["a"]["from"].upper()
        return fee * val.price(tok, row)

    def _check_payout(self, sim, op, outcome, s0, s1, call, detail):
        name = ALIAS.get(op["op"], op["op"])
        ok = outcome["status"] == "ok"
        st = "accepted" if ok else "rejected"
        val = self.val
        row = s0.row

        def gain(tok):
            return s1.wallet.get(tok, Fraction(0)) - s0.wallet.get(tok, Fraction(0))

        def over(paid, held, what, **kw):
            sim.violate("c03.over_redemption", f"{_short(name)}:{st}:{what}", paid=_f(paid), held_before=_f(held), **kw, **detail)

        slack = lambda x, virt=0: REL_EPS * abs(x) + WEI_UNITS * WEI + POOL_PRICE_REL * virt
        fam = name.split(".")[0]
        if fam == "uni" and name in ("uni.remove", "uni.collect", "uni.remove_all"):
            m = op["m"]
            u = val.uni[m]
            held = [Fraction(0), Fraction(0)]
            virt = [Fraction(0), Fraction(0)]  # L*2^96/s and L*s/2^96: the scale on which the pool price's 2^-53 moves the amounts
            moved = False
            for key, e0 in s0.extra.items():
                if key[0] != "uni" or key[1] != m:
                    continue
                e1 = s1.extra.get(key)
                if e1 is not None and (e1["L"], e1["p0"], e1["p1"]) == (e0["L"], e0["p0"], e0["p1"]):
                    continue
                moved = True
                dl = e0["L"] - (e1["L"] if e1 else 0)
                if dl > e0["L"] and e0["L"] >= 0:
                    over(dl, e0["L"], "liquidity_removed_exceeds_liquidity_held", position=[key[2], key[3]])
                rel = e0["L"] != (e1["L"] if e1 else 0)
                held[0] += e0["p0"] + (max(e0["a0"], Fraction(0)) if rel else 0)
                held[1] += e0["p1"] + (max(e0["a1"], Fraction(0)) if rel else 0)
                virt[0] += e0["v0"]
                virt[1] += e0["v1"]
                if e1 is not None:  # pending amounts may only grow by what the removed liquidity was worth
                    for i, pk, ak in ((0, "p0", "a0"), (1, "p1", "a1")):
                        grow = e1[pk] - e0[pk]
                        if grow > max(e0[ak], Fraction(0)) + slack(e0[ak], e0["v%d" % i]):
                            over(grow, e0[ak], f"pending{i}_grew_beyond_liquidity_amount", position=[key[2], key[3]])
            for i, tok in ((0, u["t0"]), (1, u["t1"])):
                g = gain(tok)
                if g > held[i] + slack(held[i], virt[i]):
                    over(g, held[i], f"token{i}_paid_beyond_pending_plus_liquidity" if moved else f"token{i}_paid_without_position_change")
            if moved:
                sim.count("probe:uni_payout_checked")
        elif name == "aave.withdraw":
            lc = getattr(sim, "last_call", None) or {}
            t = lc.get("token")
            if t:
                held = s0.extra.get(("aave", op["m"], t, "supply"), Fraction(0))
                g = gain(t)
                if g > held + slack(held):
                    over(g, held, "withdrawn_beyond_supply", token=t)
                if lc.get("amount") is not None and FV.F(lc["amount"]) > held + slack(held):
                    sim.count("probe:withdraw_more_than_held")
        elif name == "aave.repay":
            lc = getattr(sim, "last_call", None) or {}
            t = lc.get("token")
            if t and lc.get("amount") is not None and FV.F(lc["amount"]) > s0.extra.get(("aave", op["m"], t, "debt"), Fraction(0)):
                sim.count("probe:repay_more_than_owed")
        elif fam == "sq":
            g = gain("WETH")
            if g > 0 and name != "sq.sell_squeeth":
                held = sum((q for cid, (q, _v) in s0.c.items() if cid[0] == "sq" and cid[1] == op["m"] and cid[3] == "coll" and s1.c.get(cid, (Fraction(0), 0))[0] < q), Fraction(0))
                if g > held + slack(held):
                    over(g, held, "weth_paid_beyond_vault_collateral")
            go = gain("OSQTH")
            if go > 0 and name in ("sq.open_deposit_mint", "sq.open_deposit_mint_by_collat_rate", "sq.burn_and_withdraw", "sq.deposit"):
                minted = sum((s1.c[cid][0] - s0.c.get(cid, (Fraction(0), 0))[0] for cid in s1.c if cid[0] == "sq" and cid[1] == op["m"] and cid[3] == "short"), Fraction(0))
                if go > minted + slack(minted):
                    over(go, minted, "osqth_credited_beyond_debt_booked")
            sc = getattr(sim, "sq_call", None) or {}
            if sc.get("kind") == "burn_and_withdraw" and sc.get("vk") is not None:
                cid = ("sq", op["m"], int(sc["vk"].id), "short")
                if cid in s0.c and FV.F(sc["burn"]) > s0.c[cid][0]:
                    sim.count("probe:burn_more_than_vault_debt")
                cid = ("sq", op["m"], int(sc["vk"].id), "coll")
                if cid in s0.c and FV.F(sc["withdraw"]) > s0.c[cid][0]:
                    sim.count("probe:withdraw_more_than_held")
        elif fam == "deribit":
            rs = getattr(sim, "resolved", None) or {}
            tok = val.mw[op["m"]]["token"].upper()
            if name == "deribit.withdraw":
                held = s0.c[("drb", op["m"], "cash")][0]
                g = gain(tok)
                if g > held + slack(held):
                    over(g, held, "withdrawn_beyond_cash")
                if rs.get("amount") is not None and FV.F(rs["amount"]) > held:
                    sim.count("probe:withdraw_more_than_held")
            elif name == "deribit.sell" and rs.get("name"):
                held = s0.c.get(("drb", op["m"], "opt", rs["name"]), (Fraction(0), 0))[0]
                if rs.get("amount") is not None and FV.F(rs["amount"]) > held:
                    sim.count("probe:sell_more_than_held")
                cash_gain = s1.c[("drb", op["m"], "cash")][0] - s0.c[("drb", op["m"], "cash")][0]
                sold = held - s1.c.get(("drb", op["m"], "opt", rs["name"]), (Fraction(0), 0))[0]
                if ok:
                    filled = sum((FV.F(o[1]) for o in (outcome.get("result") or {}).get("orders", [])), Fraction(0))
                    if filled > held:
                        over(filled, held, "contracts_sold_beyond_holding", instrument=rs["name"])
                if cash_gain > 0 and sold <= 0:
                    over(cash_gain, held, "cash_credited_without_contracts_given_up", instrument=rs["name"])
        elif name == "gmx1.sell_glp":
            held = s0.c[("gmx1", op["m"], "glp")][0]
            req = held if (call or {}).get("amount") is None else FV.F(call["amount"])
            tok = (call or {}).get("token")
            if req > held:
                sim.count("probe:sell_more_than_held")
                if ok:
                    over(req, held, "glp_redeemed_beyond_holding")
            if tok and gain(tok) > 0 and s1.c[("gmx1", op["m"], "glp")][0] >= held:
                over(gain(tok), held, "tokens_paid_without_glp_given_up", token=tok)
        elif name == "gmx2.withdraw":
            held = s0.c[("gmx2", op["m"], "gm")][0]
            req = held if (call or {}).get("amount") is None else Fraction(float(call["amount"]))
            if req > held + V2_HOLD_BAND * max(abs(held), abs(req)):
                sim.count("probe:withdraw_more_than_held")
                if ok:
                    over(req, held, "gm_redeemed_beyond_holding")
            mw = val.mw[op["m"]]
            if (gain(mw["long"]) > 0 or gain(mw["short"]) > 0) and s1.c[("gmx2", op["m"], "gm")][0] >= held and held >= 0:
                over(gain(mw["long"]) + gain(mw["short"]), held, "tokens_paid_without_gm_given_up")

    # ------------------------------------------------------------------------------------------------ end of run
    def finish(self, sim):
        if sim.crash is not None:
            name = type(sim.crash).__name__
            last = (getattr(sim, "crash_where", None) or ["?"])[-1]
            if last.split(":")[0] in ("frozen.py", "frozen_value.py", "c03.py", "sim.py", "canon.py", "uni.py", "aave.py", "squeeth.py", "deribit.py", "gmx.py"):
                raise HarnessError(f"harness code raised inside the bar loop: {name} at {last}: {sim.crash}")
            # a crash of the bar loop itself (market update, liquidation ...) is not a statement of C03
            sim.count(f"probe:run_crashed_in_{last.split(':')[0]}")


def _checked_nonneg(cid):
    """the property lists wallet balance, liquidity, supply, debt, vault amount, option amount, pool-share amount (+ DESIGN: pending
    amounts, Deribit cash); the GLP reward accrual is not among them"""
    return not (cid[0] == "gmx1" and cid[2] == "reward")


def _container_kind(cid):
    if cid[0] == "wallet":
        return "wallet_balance"
    if cid[0] == "uni":
        return {"liq": "liquidity", "pend0": "pending_amount", "pend1": "pending_amount"}[cid[4]]
    if cid[0] == "aave":
        return "scaled_" + cid[3]
    if cid[0] == "sq":
        return "vault_collateral" if cid[3] == "coll" else "vault_short"
    if cid[0] == "drb":
        return "cash" if cid[2] == "cash" else "option_amount"
    if cid[0] == "gmx1":
        return "glp_amount" if cid[2] == "glp" else "reward"
    return "gm_amount"


def _size_class(op):
    """zero / part / exact / near (within 1e-3 of what is held) / over, from the symbolic arguments"""
    xs = []

    def walk(o):
        if isinstance(o, dict):
            if "x" in o and ("f" in o or "level" in o):
                xs.append(o["x"])
            for k in ("holding", "depth"):
                if k in o:
                    xs.append(o[k])
            if "abs" in o:
                xs.append("abs0" if D(o["abs"]) == 0 else "abs")
            for v in o.values():
                walk(v)
        elif isinstance(o, list):
            for v in o:
                walk(v)

    walk(op.get("a", {}))
    cls = set()
    for x in xs:
        if x == "abs0":
            cls.add("zero")
        elif x == "abs":
            cls.add("part")
        else:
            d = D(x)
            cls.add("zero" if d == 0 else ("exact" if d == 1 else ("near" if abs(d - 1) <= Decimal("0.011") else ("over" if d > 1 else "part"))))
    for c in ("over", "near", "exact", "zero", "part"):
        if c in cls:
            return c
    return "all" if any(v is None for v in op.get("a", {}).values()) else "none"


# ====================================================================================================== plugin
def execute(scenario) -> Sim:
    sim = Sim(scenario, FrozenOracle())
    return sim.run()


def abstract(scenario, sim):
    return sim.states


def nontrivial(state) -> bool:
    name, st, size, snapped, d_cls, changed = state
    return changed or st == "rejected"


def after_truncate(scenario):
    w = scenario["world"]
    n = int(w["n"])
    info = scenario.get("info", {})
    for m in w["markets"]:
        if m["kind"] == "deribit":
            import pandas as pd

            end = pd.Timestamp(w["start"]) + pd.Timedelta(minutes=n - 1)
            m["hours"] = [h for h in m["hours"] if pd.Timestamp(h["t"]) <= end]
            if not m["hours"]:
                return None
    nb = (n - 1) // 60 + 1 if info.get("only_deribit") else n
    if any(o["bar"] >= nb for o in scenario["program"]):
        return None
    return scenario


def shrink_candidates(scenario):
    import copy

    w = scenario["world"]
    used = {o.get("m") for o in scenario.get("program", [])}
    pools = {(m["pool"] if isinstance(m["pool"], str) else m["pool"]["name"]) for m in w["markets"] if m["kind"] == "squeeth" and m["name"] in used}
    if len(w["markets"]) > 1 and w.get("prices") is not None:
        for mw in w["markets"]:
            if mw["name"] not in used and mw["name"] not in pools:
                c = copy.deepcopy(scenario)
                c["world"]["markets"] = [x for x in c["world"]["markets"] if x["name"] != mw["name"]]
                if c["world"]["markets"] and not (scenario.get("info", {}).get("only_deribit") is False and all(x["kind"] == "deribit" for x in c["world"]["markets"])):
                    yield c


RULE = (
    "one case = one operation (any write operation of the six market families or the broker wallet) executed inside a bar of the real bar loop "
    "with my exact valuation taken before and after it; distinct_nontrivial counts distinct abstract cases (operation, accepted/rejected, size class of "
    "its amounts zero/part/exact/near-one/over/all, wallet balance taken to zero, sign class of the net-value change, state changed) in which the "
    "operation changed state or was rejected"
)
BUDGET = {"quick": {"runs": 3200, "wall": 55}, "thorough": {"runs": 60000, "wall": 1100}}
LEVEL = "exploration"
ASSUMPTIONS = [
    "price-consistent worlds only (DESIGN 2.2): every pool's price column equals the ratio of the two account prices (one account price per pool is derived "
    "from the pool's ticks to 45+ digits, pools form a forest), the Squeeth frame's WETH/OSQTH columns are the account WETH price / its pool's price, GMX "
    "token prices are the account prices, Deribit books satisfy bids <= mark <= asks; 1-minute interval; account quote USD (or the pool's quote token in a "
    "pure single-pool Uniswap world, where account prices are the pool's own)",
    "wallet rounding dust = 1e-5 x the value of the balance right before every wallet subtraction that left exactly zero - the only place the wallet "
    "rounds (Asset.sub; observed by a per-instance wrapper of Broker.subtract_from_balance); plus 1e-18 relative to the containers it changed (35-digit Decimal arithmetic) and 4 units of 1e-18 of each token touched",
    "valuation is the account's own rule (DESIGN C01) with one exception: oSQTH inside an LP position lent to a Squeeth vault is valued at the pool price like "
    "all other oSQTH, not at the index price nf*TWAP/1e4 the vault uses for its collateral test; moving an LP position in or out of a vault therefore neither "
    "creates nor destroys value here (the reported figure re-bases it; probe reported_rebase_nonzero counts those cases)",
    "GMX v2: a deposit that improves the pool balance is paid the positive price impact, capped by the impact pool, by design; its allowed gain is that capped "
    "impact computed by my own reference (ref/gmx.py), 40 % of the GM worlds configure no positive impact and hold deposits to the plain bound",
    "swaps with a caller-chosen execution price (swap/buy/sell price=..., remove_liquidity sqrt_price_x96=...) are not generated; add_liquidity_by_tick with an "
    "explicit sqrt_price_x96 / tick is held to the one-sided bound only; broker.swap_by_from/to are called with the account's current price row",
    "broker.add_to_balance / subtract_from_balance are external cash flows: net value must change by exactly what the wallet received / paid",
    "transfer_position_out/in and SqueethMarket.liquidate are protocol-internal entry points, not account operations, and are not generated",
    "'all argument values': about 4 % of the market operations get one amount negated (negative literal or negative multiple of what is held); "
    "the market may refuse it or treat it as nothing, the oracle is the same as for every other operation; broker.add_to_balance / "
    "subtract_from_balance with a negative amount are not generated (they are the harness's external cash flows)",
    "the exact-conservation clause is applied to add/remove/collect (+ remove_all) and supply/withdraw/borrow/repay, accepted or rejected; the exact-fee clause "
    "to accepted Uniswap swap/buy/sell, Squeeth buy/sell (a swap in its pool) and broker swaps; everything else to the one-sided bound",
    "a run whose bar loop crashes outside an operation (market update) is not a C03 verdict; operations executed before the crash are still judged",
    "GMX v1 glp_price carries 16 significant digits in the data file: 1e-15 relative on GLP value; GMX v2 floats: 1e-12 relative",
]
LEVEL_TEXT = (
    "seeded exploration: thousands of generated price-consistent worlds (1-4 markets of Uniswap v3, Aave v3, Squeeth + its pool, Deribit, GMX v1, GMX v2 on one "
    "broker) x scripted programs (set-up over 0-60 warm-up bars, then 5-40 operations back-to-back inside one bar, amounts from 0 through exactly what is held "
    "to 100x) run through the real bar loop; an exact Fraction valuation before and after every operation. Sampling, not proof."
)
LEVEL_NOTE = (
    "trusted: the oracle's reading of the valuation rules (DESIGN appendix A), the generator's reach (see reach_probes), Python Fraction/Decimal; worlds are "
    "synthetic frames in the loaders' output formats"
)
