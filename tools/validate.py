#!/usr/bin/env python3-vt
"""Validate MANIFEST.json and evidence/*.json against the schemas (run with python3-vt, which has jsonschema)."""
import glob, json, sys, os
import jsonschema
V = os.path.dirname(os.path.dirname(os.path.abspath(__file__)))
ok = True
m = json.load(open(f"{V}/MANIFEST.json"))
jsonschema.validate(m, json.load(open("/root/.vp/MANIFEST.schema.json")))
print("MANIFEST ok; claimed", [c["property_id"] for c in m["checks"]])
es = json.load(open("/root/.vp/EVIDENCE.schema.json"))
for p in sorted(glob.glob(f"{V}/evidence/*.json")):
    try:
        jsonschema.validate(json.load(open(p)), es); print("ok", p)
    except Exception as e:
        ok = False; print("INVALID", p, str(e)[:300])
ids = {c["property_id"] for c in m["checks"]} | {n["property_id"] for n in m.get("not_applicable", [])}
allp = {json.loads(l)["id"] for l in open(f"{V}/properties.jsonl")}
if ids != allp: ok = False; print("property coverage mismatch", allp ^ ids)
sys.exit(0 if ok else 1)
