#!/bin/bash
# usage: tools/mutant_run_c03.sh <patch-file|NONE> [--tests] [extra dsim.check args]
# C03's check fires on the unchanged tree for four genuine credit-before-debit defects whose proposed fixes were written by
# the C04 builder (same sites). This is tools/mutant_run.sh with those fixes applied first (each only if it still applies,
# i.e. is not yet in /repo), so that a mutant is judged on its own effect. Scratch copy outside /repo and /verif, removed.
set -u
FIXES="C04-gmx1-buy-glp-pay-first C04-gmx2-deposit-pay-first C04-squeeth-deposit-pay-first C04-squeeth-burn-and-withdraw-all-or-nothing"
PATCH=$1; shift
[ "$PATCH" = "NONE" ] || PATCH=$(realpath "$PATCH")
TESTS=0; if [ "${1:-}" = "--tests" ]; then TESTS=1; shift; fi
S=$(mktemp -d /tmp/dsim-mutant-XXXXXX)
if [ -z "${KEEP:-}" ]; then trap 'rm -rf "$S"' EXIT; else echo "KEEPING $S"; fi
rsync -a --exclude .git --exclude __pycache__ /repo/ "$S/repo/"
cd "$S/repo"
for n in $FIXES; do
  f=/verif/proposed_fixes/$n.patch
  [ -f "$f" ] || { echo "FIX-MISSING $n"; continue; }
  if patch -p1 -s --dry-run < "$f" >/dev/null 2>&1; then patch -p1 -s < "$f" && echo "FIX-APPLIED $n"; else echo "FIX-SKIPPED $n (already in /repo or does not apply)"; fi
done
if [ "$PATCH" != "NONE" ]; then
  patch -p1 -s < "$PATCH" || { echo "PATCH-FAILED"; exit 3; }
fi
if [ $TESTS = 1 ]; then
  /venv/bin/python -m pytest -q -p no:cacheprovider --timeout=900 --continue-on-collection-errors 2>&1 | tail -1
fi
mkdir -p "$S/replays"
cd /verif && DSIM_REPO="$S/repo" DSIM_REPLAY_DIR="$S/replays" timeout 1200 /venv/bin/python -m dsim.check C03 --no-evidence "$@" 2>&1 | grep -v "conda" | grep -E "VIOLATION|HARNESS|KNOWN|oracle=|done" | cut -c1-420
echo "MUTANT-EXIT=${PIPESTATUS[0]}"
