#!/bin/bash
# usage: tools/quick_seeds.sh "<seeds>" [ids...]   quick tier under several master seeds (no evidence written)
SEEDS=$1; shift
ids=${@:-C01 C02 C03 C04 C05 C08 C09 C10 C11 C12 C13 C14 C15 C16 C17 C18 C19}
for s in $SEEDS; do for p in $ids; do
  out=$(VERIF_SEED=$s timeout 900 /venv/bin/python -m dsim.check $p --tier quick --workers ${QS_W:-8} --no-evidence 2>&1 | grep -v conda | grep -E "VIOLATION|HARNESS|oracle=|^done" | cut -c1-500)
  echo "seed=$s $p $(echo "$out" | grep -o 'exit=[0-9]*')"; echo "$out" | grep -E "VIOLATION|HARNESS|oracle=" | head -6
done; done
