"""C19 - strategies run by the backtest manager do not influence one another.

Real: BacktestManager.run (in-process path and pool path), _start / _start_with_global_data, Broker.add_market,
Actuator.run, UniLpMarket, Strategy.add_column.  Stub: demeter.core.backtest.Pool / set_start_method / cpu_count are
replaced by dsim.simpool (real forked workers, seeded schedule, one task in flight at a time).

One scenario = one world (1-2 Uniswap pools, ONE StrategyConfig whose market objects are shared by reference, ONE
BacktestData), 2-6 scripted strategies, one schedule (threads, order of the strategy list, virtual task durations,
worker start-up latencies, tie-break seed).  Every strategy is run ALONE through the manager (reference) and then all
of them together under the schedule.  No demeter code runs in the long-lived harness process: every manager run happens
in a fresh fork of it (which, on the pool path, forks the pool workers), so every run starts from the same pristine
process image and process-global leftovers cannot travel between scenarios.

Results leave a run the only way they can in production: Strategy.finalize() writes a pickle (account history, action
log, final positions) into the private directory named in the strategy object.

Oracle (exact): for every strategy  manager-run record == alone record  for account history (all rows), action log and
final positions.
"""
import io
import os
import pickle
import shutil
import sys
import tempfile
import types
from decimal import Decimal

import pandas as pd

from .. import rng as R
from .. import simpool as SP
from ..canon import canon, digest, D
from .. import donors as DN
from ..sim import OPS, MARKET_BUILDERS, HarnessError, Violation, op, amount
from ..ref import obsstate as OB
from ..worlds import uni as U
from .c08 import _grid, _round, _base, _quote, TOKEN_SETS, MIN_TICK, MAX_TICK

import demeter.core.backtest as BT
from demeter import BacktestManager, BacktestConfig, BacktestData, StrategyConfig, Strategy, TokenInfo
from demeter.strategy.trigger import CustomizedTrigger
from demeter.uniswap import UniLpMarket
from demeter.uniswap.helper import get_price_from_data
from demeter._typing import USD

ID = "C19"
ORACLE = "c19.isolation"
SESSION_TIMEOUT_S = 45.0  # wall bound of one manager run (alone or batch); the runner's own cap is 60 s per scenario
PHASE_ORDER = ["initialize", "before_bar", "trigger", "on_bar", "after_bar"]
COMPARED = (  # (what the property names, field of the finalize() record)
    ("account_history", "account_df"),
    ("account_history", "account_rows"),
    ("action_log", "actions"),
    ("final_positions", "positions"),
)


# ===================================================================================================== generation
DONOR_SHARE = 0.45  # share of scenarios whose world + base program come from another market family's generator


def generate(seed: int, tier: str = "quick") -> dict:
    if R.sub(seed, "family").random() < DONOR_SHARE:
        return _generate_donor(seed, tier)
    rw, rp, rs, rf = R.sub(seed, "world"), R.sub(seed, "program"), R.sub(seed, "sched"), R.sub(seed, "faults")
    interval = rw.choice(["1min"] * 6 + ["2min", "5min"])
    k = int(pd.Timedelta(interval) / pd.Timedelta("1min"))
    nbars = rw.choice([3, 4, 5, 6, 8, 10] if tier == "quick" else [3, 4, 6, 8, 10, 15, 24, 40])
    n = nbars * k
    start = pd.Timestamp("2023-08-13 00:00:00") + pd.Timedelta(minutes=k * rw.randint(0, 200) + (rw.choice([0, 0, 0, 1]) if k > 1 else 0))
    t0, t1 = rw.choice(TOKEN_SETS)
    if rw.random() < 0.5:
        t0, t1 = t1, t0
    quote = rw.choice([t0[0], t1[0]])
    import math

    base_price = math.exp(rw.uniform(math.log(0.05), math.log(5000)))
    markets = [U.gen_uni_market(rw, "uni0", n, t0, t1, quote, base_price=base_price)]
    if rw.random() < 0.3:
        fee2 = rw.choice([f for f in U.FEES if f != markets[0]["fee"]])
        markets.append(U.gen_uni_market(rw, "uni1", n, t0, t1, quote, fee=fee2, base_price=base_price))
    for mw in markets:
        mw["closeTick"] = [max(MIN_TICK + 1, min(MAX_TICK - 1, t)) for t in mw["closeTick"]]
    funds = rw.choice(["1000000", "25000", "300"])
    world = {
        "start": str(start), "n": n, "interval": interval,
        "tokens": {t0[0]: t0[1], t1[0]: t1[1]},
        "assets": {t0[0]: funds, t1[0]: funds},
        "prices": None, "markets": markets,
    }
    ro = R.sub(seed, "assets_omit")
    if ro.random() < 0.2:
        # the configured assets name only one of the pool's tokens (legal: the market opens a zero balance for the other
        # when the run starts; a strategy gets that token by trading)
        del world["assets"][ro.choice([t0[0], t1[0]])]
    grid = _grid(start, n, k)
    labels = sorted(set(grid))
    nb = len(labels)
    close_idx = [max(i for i, g in enumerate(grid) if g == lab) for lab in labels]

    ns = rs.choice([2, 2, 2, 3, 3, 4, 5, 6, 9, 10])  # 9, 10: more than 4 x 2 workers (the chunking rule of Pool.map)
    threads = rs.choice([1, 1, 1, 2, 2, 2, 3, 3, 4, 5, 6])
    n_noisy = rf.choice([0, 0, 1, 1, 1, 2])
    noisy = set(rf.sample(range(ns), min(n_noisy, ns)))
    strategies, program = [], []
    for s in range(ns):
        strategies.append({"name": f"s{s}", "noisy": s in noisy})
        program += _gen_program(rp, s, markets, nb, close_idx, lazy=rp.random() < 0.12)
        if s in noisy:
            program += _gen_noise(rf, s, markets, nb, close_idx)
    # a strategy that fails: an exception escaping its bar loop. Its own run is lost either way; the others' must not be
    failing = None
    if rf.random() < 0.22:
        failing = rf.randrange(ns)
        b = rf.randint(-1, nb - 1)
        program.append({"s": failing, "bar": b, "phase": "initialize" if b == -1 else rf.choice(["before_bar", "on_bar", "after_bar"]), "m": None, "op": "c19.raise", "a": {}})
    return _finish(seed, tier, world, strategies, program, ns, threads, noisy, failing, rs)


def _finish(seed, tier, world, strategies, program, ns, threads, noisy, failing, rs, donor=None):
    rt = R.sub(seed, "trigger_in_constructor")
    for spec in strategies:
        if rt.random() < 0.3:
            spec["trigger_in_constructor"] = True  # its trigger is attached when the strategy object is built
    program.sort(key=lambda o: (o["s"], o["bar"], PHASE_ORDER.index(o["phase"])))
    order = list(range(ns))
    if rs.random() < 0.6:
        rs.shuffle(order)
    sched = {
        "threads": threads,
        "order": order,
        "durations": [rs.choice([1, 1, 1, 2, 3, 5, 8]) for _ in range(ns)],
        "ready": [rs.choice([0, 0, 0, 0, 1, 2, 6]) for _ in range(threads)],
        "tie_seed": rs.getrandbits(32),
    }
    real_pool = tier == "thorough" and threads > 1 and rs.random() < 0.03
    faults = []
    if R.sub(seed, "add_strategy").random() < 0.3:
        sched["add_strategy"] = True  # managers built without a strategy list and filled through add_strategy()
    if R.sub(seed, "print").random() < 0.15:
        sched["print_actions"] = True  # BacktestConfig(print_actions=True): every recorded action is formatted and printed
        faults.append({"kind": "print_actions"})
    rr = R.sub(seed, "rounds")
    if ns >= 2 and rr.random() < 0.22:
        # several consecutive manager runs over the SAME configuration and data objects in one process. At most one of
        # them may take the pool path (multiprocessing's start method can be set once per process), so with threads > 1
        # every run but the last has a single strategy (which the manager runs in-process)
        if threads == 1:
            cuts = sorted(rr.sample(range(1, ns), min(ns - 1, rr.choice([1, 1, 2]))))
            sizes = [b - a for a, b in zip([0] + cuts, cuts + [ns])]
        else:
            singles = rr.choice([1, 1, 2]) if ns >= 3 else 1
            sizes = [1] * singles + [ns - singles]
        sched["rounds"] = sizes
        faults.append({"kind": "consecutive_manager_runs"})
    if order != sorted(order):
        faults.append({"kind": "order_perm"})
    if threads == 1:
        faults.append({"kind": "inprocess_batch"})
    else:
        faults.append({"kind": "assignment_perm"})
        if ns > threads:
            faults.append({"kind": "worker_reuse"})
    if noisy:
        faults.append({"kind": "noisy_neighbour"})
    if failing is not None:
        faults.append({"kind": "strategy_raises"})
    if R.sub(seed, "cfgdata").random() < 0.3:
        world["config_with_data"] = True  # the configuration's market objects already carry their frames
        faults.append({"kind": "config_carries_data"})
    sc = {"property": ID, "seed": seed, "world": world, "strategies": strategies, "program": program, "sched": sched, "faults": faults}
    if donor:
        sc["donor"] = donor
        faults.append({"kind": "family:" + donor})
    if real_pool:
        sc["real_pool"] = True
        faults.append({"kind": "real_pool_crosscheck"})
    return sc


def _generate_donor(seed: int, tier: str) -> dict:
    """World and base program borrowed from another family's generator (Aave incl. liquidations, Squeeth vault + pool with an
    LP lent as collateral, Deribit alone / beside a minutely pool incl. expiries, GMX v1 / v2); every strategy runs a
    seeded variation of the base program (sub-sample, bars shifted) over that ONE world."""
    rw, rp, rs, rf = R.sub(seed, "dworld"), R.sub(seed, "dprogram"), R.sub(seed, "sched"), R.sub(seed, "dfaults")
    name = DN.pick(rw)
    base = DN.base_scenario(name, seed, tier)
    world = base["world"]
    nb = len(DN.bar_times(world))
    ns = rs.choice([2, 2, 2, 3, 3, 4, 5])
    threads = rs.choice([1, 1, 1, 2, 2, 2, 3, 3, 4, 5])
    n_noisy = rf.choice([0, 0, 1, 1, 2])
    noisy = set(rf.sample(range(ns), min(n_noisy, ns)))
    names = []
    for mw in world["markets"]:
        if mw["kind"] == "squeeth" and isinstance(mw.get("pool"), dict):
            names.append(mw["pool"]["name"])
        names.append(mw["name"])
    strategies, program = [], []
    for s in range(ns):
        strategies.append({"name": f"s{s}", "noisy": s in noisy})
        if s == 0 or rp.random() < 0.2:
            ops = [dict(o) for o in base["program"]]
        else:
            keep = rp.uniform(0.25, 0.9)
            ops = [dict(o) for o in base["program"] if rp.random() < keep]
        d = rp.randint(1, max(1, nb // 3)) if s > 0 and rp.random() < 0.4 else 0
        for o in ops:
            if o["phase"] not in PHASE_ORDER:
                o["phase"] = "after_bar"
            if d and o["bar"] >= 0:
                o["bar"] = min(nb - 1, o["bar"] + d)
            o["s"] = s
        program += ops
        if s in noisy:
            kinds = ["add_column_new", "open_hook", "edit_prices", "read_helpers"]
            aave_names = [mw_["name"] for mw_ in world["markets"] if mw_.get("kind") == "aave"]
            if aave_names:
                kinds += ["edit_risk", "edit_risk"]
            for kind in rf.sample(kinds, rf.choice([1, 1, 2])):
                m = rf.choice(names)
                b = rf.randint(-1, nb - 1)
                if kind == "edit_risk":
                    program.append({"s": s, "bar": rf.choice([-1, -1, 0, b]), "phase": "initialize" if b == -1 else "before_bar", "m": rf.choice(aave_names),
                                    "op": "c19.edit_risk_parameters", "a": {"row": rf.randint(0, 5), "scale": rf.choice(["0.8", "0.5", "0.9"])}})
                    if program[-1]["bar"] == -1:
                        program[-1]["phase"] = "initialize"
                    elif program[-1]["phase"] == "initialize":
                        program[-1]["phase"] = "before_bar"
                elif kind == "edit_prices":
                    program.append({"s": s, "bar": b, "phase": "initialize" if b == -1 else "before_bar", "m": None, "op": "c19.edit_prices",
                                    "a": {"col": rf.randint(0, 3), "row": rf.randint(0, 40), "scale": rf.choice(["3", "0.5"])}})
                elif kind == "read_helpers":
                    program.append({"s": s, "bar": b, "phase": "initialize" if b == -1 else "on_bar", "m": None, "op": "c19.read_helpers", "a": {}})
                elif kind == "add_column_new":
                    program.append({"s": s, "bar": b, "phase": "initialize" if b == -1 else "on_bar", "m": m, "op": "c19.add_column",
                                    "a": {"name": rf.choice(["sma", "my_signal"]), "mode": "generic", "win": rf.randint(2, 5), "by": rf.choice(["market", "key"])}})
                else:
                    program.append({"s": s, "bar": b, "phase": "initialize" if b == -1 else "on_bar", "m": m, "op": "c19.set_open_hook",
                                    "a": {"x": rf.choice(["0.01", "3"]), "generic": True}})
    failing = None
    if rf.random() < 0.15:
        failing = rf.randrange(ns)
        b = rf.randint(-1, nb - 1)
        program.append({"s": failing, "bar": b, "phase": "initialize" if b == -1 else rf.choice(["before_bar", "on_bar", "after_bar"]), "m": None, "op": "c19.raise", "a": {}})
    return _finish(seed, tier, world, strategies, program, ns, threads, noisy, failing, rs, donor=name)


def _gen_program(rp, s, markets, nb, close_idx, lazy=False):
    out = []
    if lazy:  # a strategy that does nothing (pure observer)
        return out
    nops = rp.choice([1, 2, 2, 3, 4, 6])
    for j in range(nops):
        mw = rp.choice(markets)
        sp = U.spacing_of(mw["fee"])
        b = rp.randint(-1, nb - 1) if j == 0 else rp.randint(0, nb - 1)
        phase = "initialize" if b == -1 else rp.choice(["before_bar", "trigger", "on_bar", "on_bar", "after_bar"])
        cur = mw["closeTick"][close_idx[max(b, 0)]]
        kind = "add" if j == 0 and rp.random() < 0.8 else rp.choice(["add", "add", "add", "remove_part", "remove", "collect", "buy", "sell", "remove_all", "rebalance"])
        base_w, quote_w = f"wallet:{_base(mw)}", f"wallet:{_quote(mw)}"
        if kind == "add":
            lo = _round(cur + rp.randint(-10, 3) * sp, sp)
            hi = min(lo + rp.randint(1, 14) * sp, _round(MAX_TICK - sp, sp))
            if hi <= lo:
                lo = hi - sp
            a = {"lo": lo, "hi": hi, "base": {"f": base_w, "x": str(round(rp.uniform(0.02, 0.4), 3))}, "quote": {"f": quote_w, "x": str(round(rp.uniform(0.02, 0.4), 3))}}
            o = {"op": "uni.add_by_tick", "a": a}
        elif kind == "remove_part":
            o = {"op": "uni.remove", "a": {"pos": {"i": rp.randint(0, 3)}, "liq": {"f": f"liq:{mw['name']}#{rp.randint(0, 3)}", "x": str(round(rp.uniform(0.1, 0.9), 3))}, "collect": rp.random() < 0.5}}
        elif kind == "remove":
            o = {"op": "uni.remove", "a": {"pos": {"i": rp.randint(0, 3)}, "collect": rp.random() < 0.5}}
        elif kind == "collect":
            o = {"op": "uni.collect", "a": {"pos": {"i": rp.randint(0, 3)}}}
        elif kind == "buy":
            o = {"op": "uni.buy", "a": {"amount": {"f": base_w, "x": str(round(rp.uniform(0.005, 0.2), 3))}}}
        elif kind == "sell":
            o = {"op": "uni.sell", "a": {"amount": {"f": base_w, "x": str(round(rp.uniform(0.005, 0.2), 3))}}}
        elif kind == "remove_all":
            o = {"op": "uni.remove_all", "a": {}}
        else:
            o = {"op": "uni.even_rebalance", "a": {}}
        o.update({"s": s, "bar": b, "phase": phase, "m": mw["name"]})
        out.append(o)
    return out


def _gen_noise(rf, s, markets, nb, close_idx):
    """A noisy neighbour: leaves a position open at the end, mutates what the public API lets it reach."""
    out = []
    kinds = rf.sample(["leave_open", "add_column_new", "add_column_overwrite", "open_hook", "edit_prices", "read_helpers"], rf.choice([1, 2, 2, 3]))
    for kind in kinds:
        mw = rf.choice(markets)
        sp = U.spacing_of(mw["fee"])
        if kind == "leave_open":
            b = nb - 1 if rf.random() < 0.5 else rf.randint(0, nb - 1)
            cur = mw["closeTick"][close_idx[b]]
            lo = _round(cur - rf.randint(1, 6) * sp, sp)
            a = {"lo": lo, "hi": lo + rf.randint(8, 20) * sp, "base": {"f": f"wallet:{_base(mw)}", "x": "0.3"}, "quote": {"f": f"wallet:{_quote(mw)}", "x": "0.3"}}
            out.append({"s": s, "bar": b, "phase": rf.choice(["on_bar", "after_bar"]), "m": mw["name"], "op": "uni.add_by_tick", "a": a})
        elif kind == "add_column_new":
            b = rf.choice([-1, -1, rf.randint(0, nb - 1)])
            out.append({"s": s, "bar": b, "phase": "initialize" if b == -1 else "on_bar", "m": mw["name"], "op": "c19.add_column",
                        "a": {"name": rf.choice(["sma", "my_signal"]), "mode": "new", "win": rf.randint(2, 5), "by": rf.choice(["market", "key"])}})
        elif kind == "add_column_overwrite":
            b = rf.choice([-1, rf.randint(0, nb - 1)])
            out.append({"s": s, "bar": b, "phase": "initialize" if b == -1 else "before_bar", "m": mw["name"], "op": "c19.add_column",
                        "a": {"name": rf.choice(["inAmount0", "inAmount1", "currentLiquidity"]), "mode": "overwrite", "scale": rf.choice(["3", "0.25", "10"]), "by": rf.choice(["market", "key"])}})
        elif kind == "edit_prices":
            b = rf.choice([-1, -1, rf.randint(0, nb - 1)])
            out.append({"s": s, "bar": b, "phase": "initialize" if b == -1 else "before_bar", "m": None, "op": "c19.edit_prices",
                        "a": {"col": rf.randint(0, 3), "row": rf.randint(0, 40), "scale": rf.choice(["3", "0.5"])}})
        elif kind == "read_helpers":
            b = rf.randint(-1, nb - 1)
            out.append({"s": s, "bar": b, "phase": "initialize" if b == -1 else rf.choice(["before_bar", "on_bar"]), "m": None, "op": "c19.read_helpers", "a": {}})
        else:
            b = rf.randint(-1, nb - 1)
            out.append({"s": s, "bar": b, "phase": "initialize" if b == -1 else "on_bar", "m": mw["name"], "op": "c19.set_open_hook",
                        "a": {"x": rf.choice(["0.01", "0.05"])}})
    return out


# ===================================================================================================== world
class _NullBroker:
    """build_squeeth registers its embedded pool with the broker; here nothing is registered (the manager does that)."""

    def add_market(self, market):
        pass


class _Builder:
    """What the market builders of dsim.worlds.* need from a Sim."""

    def __init__(self, world):
        self.world = world
        self.tokens = {}
        self.mdata = {}
        self.markets = {}
        self.broker = _NullBroker()
        self.index = pd.date_range(start=pd.Timestamp(world["start"]), periods=int(world["n"]), freq="1min")

    def token(self, name):
        name = name.upper()
        if name not in self.tokens:
            dec = self.world.get("tokens", {}).get(name)
            if dec is None:
                raise HarnessError(f"token {name} not declared in world")
            self.tokens[name] = TokenInfo(name, int(dec))
        return self.tokens[name]


def market_kinds(world):
    return OB.kinds_of(types.SimpleNamespace(world=world))


def prepare_frames(world):
    """Market objects and market-data frames in the loaders' output format (dsim.worlds builders: raw frame -> the repo's
    own post-processing), the price frame and my per-market metadata. Built once per scenario in the harness process
    (pure functions of the world); every forked session works on its own copy-on-write image, so nothing a session does
    to an object or a frame can reach another session."""
    b = _Builder(world)
    for mw in world["markets"]:
        builder = MARKET_BUILDERS.get(mw["kind"])
        if builder is None:
            raise HarnessError(f"no builder for market kind {mw['kind']}")
        market = builder(b, mw)
        b.markets[mw["name"]] = market
    markets = list(b.markets.values())  # broker order: an embedded pool before its squeeth market
    data = {m.market_info: m.data for m in markets}
    if world.get("prices") is not None:
        cols = {k.upper(): [D(x) for x in v] for k, v in world["prices"].items()}
        pidx = b.index if "price_index" not in world else pd.DatetimeIndex([pd.Timestamp(t) for t in world["price_index"]])
        q = world.get("quote", "USD")
        prices = (pd.DataFrame(cols, index=pidx), USD if q == "USD" else b.token(q))
    else:
        first = markets[0]
        prices = get_price_from_data(data[first.market_info], first.pool_info)
    if not world.get("config_with_data"):
        for m in markets:  # as in docs/source/concurrent.md: the configuration's markets carry no data, BacktestData does
            m._data = None
    # sorted: the wallet's column order must not depend on the key order of a JSON object (replay files are sorted)
    assets = {b.token(k): D(v) for k, v in sorted(world.get("assets", {}).items())}
    return {"markets": markets, "data": data, "prices": prices, "assets": assets, "mdata": b.mdata, "tokens": b.tokens}


def build_world(world, frames=None):
    """ONE StrategyConfig (market objects shared by reference by all strategies) + ONE BacktestData."""
    fr = frames if frames is not None else prepare_frames(world)
    return StrategyConfig(assets=fr["assets"], markets=fr["markets"]), BacktestData(fr["data"], fr["prices"])


# ===================================================================================================== the strategy
class _Facade:
    """The slice of dsim.sim.Sim that the registered operations use (token/broker/markets/actuator/mdata/...)."""

    def __init__(self, strategy):
        self.strategy = strategy
        self.world = strategy.world
        self.tokens = dict(strategy.tokens0)
        self.mdata = strategy.mdata
        self.index = pd.date_range(start=pd.Timestamp(self.world["start"]), periods=int(self.world["n"]), freq="1min")
        self.broker = strategy.broker
        self.actuator = strategy.actuator
        self.markets = {mi.name: m for mi, m in strategy.markets.items()}
        self.kinds = market_kinds(self.world)
        self.bar = -1
        self.snapshot = None
        self.counters = {}

    token = _Builder.token

    def count(self, key, n=1):
        self.counters[key] = self.counters.get(key, 0) + n

    def positions(self):
        """final / initial positions of every market through the public accessors (dsim.ref.obsstate readers)"""
        return {n: (canon(m.positions) if self.kinds[n] == "uni" else canon(OB.READERS[self.kinds[n]](m))) for n, m in self.markets.items()}

    def held(self):
        out = {}
        for n, m in self.markets.items():
            k = self.kinds[n]
            if k == "uni":
                out[n] = len(m.positions)
            else:
                st = OB.READERS[k](m)
                out[n] = {"aave": lambda: len(st["supplies"]) + len(st["borrows"]), "squeeth": lambda: len(st["vaults"]),
                          "deribit": lambda: len(st["positions"]) + (1 if st["cash"] != "D:0" else 0),
                          "gmx1": lambda: int(st["glp_amount"] != "D:0"), "gmx2": lambda: int(st["amount"] not in ("F:0.0", "D:0"))}[k]()
        return out


class ScriptStrategy(Strategy):
    """Executes its little program inside the real bar loop and, in finalize(), writes what it saw to self.outdir."""

    def __init__(self, name, program, world, mdata, tokens0, outdir, trigger_in_constructor=False):
        super().__init__()
        self.name = name
        self.program = program
        self._early_trigger = bool(trigger_in_constructor) and any(o["phase"] == "trigger" for o in program)
        if self._early_trigger:
            # the strategy attaches its trigger when it is built, not in initialize() (bound methods: the object stays picklable)
            self.triggers.append(CustomizedTrigger(self._trig_when, self._trig_do))
        self.world = world
        self.mdata = mdata
        self.tokens0 = tokens0
        self.outdir = outdir
        self.fs = None
        self.ops_log = []
        self.entry = None
        self.hook_calls = 0

    # ---- phases
    def initialize(self):
        self.fs = _Facade(self)
        self.entry = {
            "positions": self.fs.held(),
            "open_hook": {n: m.open is not None for n, m in self.fs.markets.items()},
            "data": {n: digest(m.data) for n, m in self.fs.markets.items()},
            "columns": {n: [str(c) for c in m.data.columns] for n, m in self.fs.markets.items()},
            "wallet": {t.name: a.balance for t, a in self.broker.assets.items()},
        }
        if any(o["phase"] == "trigger" for o in self.program) and not self._early_trigger:
            self.triggers.append(CustomizedTrigger(lambda s: True, lambda snap: self._run(snap.row_id, "trigger", snap)))
        self._run(-1, "initialize", None)

    def _trig_when(self, snapshot):
        return True

    def _trig_do(self, snapshot):
        self._run(snapshot.row_id, "trigger", snapshot)

    def before_bar(self, snapshot):
        self._run(snapshot.row_id, "before_bar", snapshot)

    def on_bar(self, snapshot):
        self._run(snapshot.row_id, "on_bar", snapshot)

    def after_bar(self, snapshot):
        self._run(snapshot.row_id, "after_bar", snapshot)

    def _run(self, bar, phase, snapshot):
        fs = self.fs
        fs.bar, fs.snapshot = bar, snapshot
        for i, o in enumerate(self.program):
            if o["bar"] != bar or o["phase"] != phase:
                continue
            if o["op"] == "c19.raise":
                self.ops_log.append({"i": i, "op": o["op"], "status": "raised"})
                raise RuntimeError("scripted failure of strategy " + self.name)
            fn = OPS.get(o["op"])
            if fn is None:
                raise HarnessError(f"unknown op {o['op']}")
            market = fs.markets.get(o.get("m"))
            if o.get("m") and market is None:
                out = {"i": i, "op": o["op"], "status": "skipped"}
            else:
                call = fn(fs, market, o.get("a", {}))
                if call is None:
                    out = {"i": i, "op": o["op"], "status": "skipped"}
                else:
                    try:
                        out = {"i": i, "op": o["op"], "status": "ok", "result": canon(call())}
                    except HarnessError:
                        raise
                    except Exception as e:  # rejected by the protocol
                        out = {"i": i, "op": o["op"], "status": "rejected", "exc": type(e).__name__, "msg": str(getattr(e, "message", e))[:160]}
            self.ops_log.append(out)

    def open_hook(self, market_name, x, generic=False):
        """Installed as market.open by the noisy neighbour: a small purchase at the top of every bar (uniswap worlds), or a
        gift of x units of the first wallet token to whoever owns the market then (other families)."""

        def hook(snapshot):
            self.hook_calls += 1
            try:
                m = self.fs.markets[market_name]
                if generic:
                    tok = sorted(m.broker.assets.keys(), key=lambda t: t.name)[0]
                    m.broker.add_to_balance(tok, x)
                else:
                    m.buy(m.broker.get_token_balance(m.quote_token) * x / max(m.market_status.data.price, Decimal("1e-30")))
            except Exception:
                pass

        return hook

    # ---- the only way out of a worker process
    def finalize(self):
        rec = {
            "name": self.name,
            "pid": os.getpid(),
            "entry": canon(self.entry),
            "account_df": canon(self.account_status_df),
            "account_rows": [canon(r) for r in self.account_status],
            "actions": [canon(a) for a in self.actions],
            "positions": self.fs.positions(),
            "held": self.fs.held(),
            "wallet": {t.name: canon(a.balance) for t, a in self.broker.assets.items()},
            "ops": self.ops_log,
            "hook_calls": self.hook_calls,
            "n_bars": len(self.account_status),
        }
        tmp = os.path.join(self.outdir, self.name + ".tmp")
        with open(tmp, "wb") as f:
            pickle.dump(rec, f)
        os.replace(tmp, os.path.join(self.outdir, self.name + ".pkl"))


@op("c19.add_column")
def _add_column(sim, m, a):
    stg = sim.strategy
    name, mode = a["name"], a["mode"]

    def call():
        df = m.data
        if mode == "generic":
            win = int(a.get("win", 3))
            series = pd.Series([float(i % win) for i in range(len(df))], index=df.index)
        elif mode == "new":
            series = df["closeTick"].rolling(int(a.get("win", 3)), min_periods=1).mean()
        else:
            scale = D(a["scale"])
            series = df[name].map(lambda x: x * (scale if isinstance(x, Decimal) else float(scale)))
        stg.add_column(m if a.get("by") == "market" else m.market_info, name, series)
        return [name, mode]

    return call


@op("c19.edit_prices")
def _edit_prices(sim, m, a):
    """a what-if strategy edits ITS OWN price table (the actuator's token prices of this run): a helper column and a shock"""
    stg = sim.strategy

    def call():
        tp = stg.actuator.token_prices
        cols = [c for c in tp.columns if str(c) != "USD"]
        col = cols[int(a.get("col", 0)) % len(cols)]
        j = int(a.get("row", 0)) % len(tp.index)
        tp["MY_HELPER"] = 1
        tp.loc[tp.index[j]:, col] = tp.loc[tp.index[j]:, col] * D(a.get("scale", "3"))
        return [str(col), j]

    return call


@op("c19.read_helpers")
def _read_helpers(sim, m, a):
    """read-only helper functions a strategy may call for its own decisions (module level, no market state involved)"""

    def call():
        from demeter.uniswap.helper import get_greeks

        out = []
        for P, L, H in ((Decimal(2000), Decimal(1000), Decimal(1500)), (Decimal(900), Decimal(1000), Decimal(1500)), (Decimal(1200), Decimal(1000), Decimal(1500))):
            g = get_greeks(P, L, H)
            out.append([g.delta, g.gamma])
        # indicator helpers on a Decimal series (as the bollinger-band sample does with a pool's price column)
        from datetime import timedelta
        from demeter.indicator import realized_volatility, simple_moving_average

        idx = pd.date_range("2023-01-01", periods=24, freq="1min")
        ser = pd.Series([Decimal(1500) + Decimal((7 * i * i) % 31) / Decimal(3) for i in range(24)], index=idx)
        vol = realized_volatility(ser, timedelta(minutes=3), timedelta(hours=1))
        sma = simple_moving_average(ser.astype(float), timedelta(minutes=4))
        out.append([str(vol.iloc[-1]), str(sma.iloc[-1])])
        from ..worlds import helpers as LH

        out.append(LH.call_helpers(LH.NAMES))  # the whole catalogue of module-level helpers (values unjudged)
        return out

    return call


@op("c19.edit_risk_parameters")
def _edit_risk_parameters(sim, m, a):
    """a what-if strategy edits the risk-parameter table of ITS OWN run's lending market in place"""

    def call():
        rp_ = m.risk_parameters
        j = int(a.get("row", 0)) % len(rp_.index)
        col = "reserveLiquidationThreshold"
        rp_.loc[rp_.index[j], col] = rp_.loc[rp_.index[j], col] * D(a.get("scale", "0.8"))
        return [str(rp_.index[j]), str(rp_.loc[rp_.index[j], col])]

    return call


@op("c19.set_open_hook")
def _set_open_hook(sim, m, a):
    stg = sim.strategy
    x = D(a.get("x", "0.01"))

    def call():
        m.open = stg.open_hook(m.market_info.name, x, bool(a.get("generic")))
        return True

    return call


# ===================================================================================================== one manager run
def _members(scenario, idxs, outdir, frames):
    out = []
    for i in idxs:
        spec = scenario["strategies"][i]
        prog = [{k: v for k, v in o.items() if k != "s"} for o in scenario.get("program", []) if o.get("s") == i]
        out.append(ScriptStrategy(spec["name"], prog, scenario["world"], frames["mdata"], frames["tokens"], outdir,
                                  trigger_in_constructor=bool(spec.get("trigger_in_constructor"))))
    return out


def _round_sizes(sched, n):
    sizes = [int(x) for x in (sched.get("rounds") or []) if int(x) > 0]
    return sizes if sizes and sum(sizes) == n else [n]


def _session(scenario, idxs, threads, outdir, real_pool=False, frames=None, rounds=None):
    """Runs in a fresh fork: build the world, run BacktestManager over the given strategies (in one manager run, or in
    several consecutive manager runs over the SAME configuration and data objects), leave session.pkl."""
    os.makedirs(outdir, exist_ok=True)
    os.chdir(outdir)  # Actuator's RuntimeError path calls save_result('./')
    world = scenario["world"]
    if scenario.get("donor"):
        DN.prepare(scenario["donor"])
    frames = frames if frames is not None else prepare_frames(world)
    config, data = build_world(world, frames)
    strategies = _members(scenario, idxs, outdir, frames)
    info = {"exception": None, "pid": os.getpid()}
    seam = SP.Seam(BT, scenario.get("sched", {}))
    old_out, old_err = sys.stdout, sys.stderr
    sys.stdout, sys.stderr = io.StringIO(), io.StringIO()
    try:
        sizes = rounds or [len(strategies)]
        at, r = 0, 0
        try:
            with (seam if not real_pool else _Null()):
                for r, size in enumerate(sizes):
                    part, at = strategies[at:at + size], at + size
                    bc = BacktestConfig(interval=world.get("interval", "1min"), print_actions=bool(scenario.get("sched", {}).get("print_actions")))
                    if scenario.get("sched", {}).get("add_strategy"):
                        # the manager built empty and filled with add_strategy(), one by one
                        mgr = BacktestManager(config=config, data=data, backtest_config=bc, threads=threads)
                        for stg in part:
                            mgr.add_strategy(stg)
                    else:
                        mgr = BacktestManager(config=config, data=data, strategies=part, backtest_config=bc, threads=threads)
                    mgr.run()
        except SP.SimPoolError:
            raise
        except HarnessError:
            raise
        except Exception as e:
            import traceback

            tb = traceback.extract_tb(e.__traceback__)
            info["exception"] = {"type": type(e).__name__, "msg": str(getattr(e, "message", e))[:200], "where": [f"{os.path.basename(f.filename)}:{f.name}" for f in tb[-3:]], "round": r}
        info["stderr"] = sys.stderr.getvalue()[-4000:]
    finally:
        sys.stdout, sys.stderr = old_out, old_err
    info["log"] = seam.log
    info["pools"] = len(seam.pools)
    info["worker_pids"] = [list(p.worker_pids) for p in seam.pools]
    info["replacement_pids"] = [list(getattr(p, "replacement_pids", [])) for p in seam.pools]
    info["executed"] = seam.executed()
    info["task_of"] = seam.task_of()
    with open(os.path.join(outdir, "session.pkl"), "wb") as f:
        pickle.dump(info, f)


class _Null:
    def __enter__(self):
        return self

    def __exit__(self, *a):
        return False


def _run_session(scenario, idxs, threads, outdir, frames=None, rounds=None):
    os.makedirs(outdir, exist_ok=True)
    err = os.path.join(outdir, "harness.err")
    code = SP.forked(lambda: _session(scenario, idxs, threads, outdir, False, frames, rounds), SESSION_TIMEOUT_S, err)
    if code != 0:
        msg = ""
        if os.path.exists(err):
            with open(err) as f:
                msg = f.read()[-1500:]
        raise HarnessError(f"manager session failed in the harness (exit {code}):\n{msg}")
    with open(os.path.join(outdir, "session.pkl"), "rb") as f:
        info = pickle.load(f)
    recs = {}
    for i in idxs:
        p = os.path.join(outdir, scenario["strategies"][i]["name"] + ".pkl")
        if os.path.exists(p):
            with open(p, "rb") as f:
                recs[i] = pickle.load(f)
    return info, recs


def _real_pool_session(scenario, outdir):
    """Cross-validation with the un-stubbed multiprocessing.Pool, in a fresh interpreter (set_start_method is
    once-per-process); only results are compared, its schedule is neither controlled nor logged."""
    import json
    import subprocess

    os.makedirs(outdir, exist_ok=True)
    sc_path = os.path.join(outdir, "scenario.json")
    with open(sc_path, "w") as f:
        json.dump(scenario, f)
    env = dict(os.environ)
    env["PYTHONHASHSEED"] = "0"
    verif = os.path.dirname(os.path.dirname(os.path.dirname(os.path.abspath(__file__))))
    code = "import sys,json; from dsim.props import c19; sc=json.load(open(sys.argv[1])); c19._session(sc, sc['sched']['order'], sc['sched']['threads'], sys.argv[2], real_pool=True, rounds=c19._round_sizes(sc['sched'], len(sc['sched']['order'])))"
    p = subprocess.run([sys.executable, "-c", code, sc_path, outdir], cwd=verif, env=env, capture_output=True, text=True, timeout=SESSION_TIMEOUT_S)
    if p.returncode != 0:
        raise HarnessError("real-pool session failed: " + p.stderr[-1200:])
    recs = {}
    for i in scenario["sched"]["order"]:
        path = os.path.join(outdir, scenario["strategies"][i]["name"] + ".pkl")
        if os.path.exists(path):
            with open(path, "rb") as f:
                recs[i] = pickle.load(f)
    return recs


# ===================================================================================================== result + oracle
class Result:
    """What runner.run_scenario / check / replay read from a finished run."""

    def __init__(self, scenario):
        self.scenario = scenario
        self.events, self.violations, self.counters, self.states = [], [], {}, set()
        self.op_results = []
        self.crash = None
        self.seq = 0
        self.bar = -1
        self.bars = 0
        self.sim_minutes = 0
        self.actuator = types.SimpleNamespace(account_status=[])

    def event(self, *rec):
        self.seq += 1
        self.events.append([self.seq] + [canon(r) for r in rec])

    def count(self, key, n=1):
        self.counters[key] = self.counters.get(key, 0) + n

    def state(self, s):
        self.states.add(s)

    def violate(self, oracle, site, **detail):
        v = Violation(oracle=oracle, site=site, detail=canon(detail), seq=self.seq, bar=self.bar)
        self.violations.append(v)
        self.event("VIOLATION", oracle, site)
        return v

    def log_digest(self):
        return digest(self.events)


def _public(rec):
    return {k: v for k, v in rec.items() if k != "pid"}


def _first_diff(a, b):
    """Where two canonical lists / frames first differ (for the violation detail)."""
    if isinstance(a, dict) and "__frame__" in a and isinstance(b, dict) and "__frame__" in b:
        ca, ra = a["__frame__"]
        cb, rb = b["__frame__"]
        if ca != cb:
            return {"columns_alone": ca, "columns_manager": cb}
        for i, (x, y) in enumerate(zip(ra, rb)):
            if x != y:
                j = next((j for j, (p, q) in enumerate(zip(x, y)) if p != q), None)
                col = "index" if j == 0 else (ca[j - 1] if j is not None and j - 1 < len(ca) else None)
                return {"row": i, "column": col, "alone": x[j] if j is not None else None, "manager": y[j] if j is not None else None}
        return {"rows_alone": len(ra), "rows_manager": len(rb)}
    if isinstance(a, list) and isinstance(b, list):
        for i, (x, y) in enumerate(zip(a, b)):
            if x != y:
                return {"index": i, "alone": x, "manager": y}
        return {"len_alone": len(a), "len_manager": len(b)}
    return {"alone": a, "manager": b}


def _cause(ref, got):
    """Attribute a difference to what the strategy found when its run began (public accessors only)."""
    e0, e1 = ref["entry"], got["entry"]
    if e0["positions"] != e1["positions"]:
        return "inherited_positions"
    if e0["open_hook"] != e1["open_hook"]:
        return "inherited_open_hook"
    if e0["columns"] != e1["columns"] or e0["data"] != e1["data"]:
        return "input_data_changed"
    if e0["wallet"] != e1["wallet"]:
        return "initial_wallet_changed"
    return "state_not_visible_at_start"


def execute(scenario):
    res = Result(scenario)
    strategies = scenario["strategies"]
    ns = len(strategies)
    sched = scenario.get("sched", {})
    threads = int(sched.get("threads", 1))
    order = [i for i in sched.get("order", list(range(ns))) if 0 <= i < ns]
    order += [i for i in range(ns) if i not in order]
    k = int(pd.Timedelta(_iv(scenario["world"].get("interval", "1min"))) / pd.Timedelta("1min"))
    if scenario.get("donor"):
        DN.prepare(scenario["donor"])
    frames = prepare_frames(scenario["world"])
    root = tempfile.mkdtemp(prefix="dsim-c19-")
    try:
        # ---- reference: every strategy alone through the manager (fresh world objects, fresh process image)
        alone, alone_info = {}, {}
        for i in range(ns):
            info, recs = _run_session(scenario, [i], threads, os.path.join(root, f"alone{i}"), frames)
            alone_info[i], alone[i] = info, recs.get(i)
            _account(res, recs.get(i), k)
            res.event("alone", strategies[i]["name"], digest(_public(recs[i])) if i in recs else None, (info["exception"] or {}).get("type"))
        # ---- the batch under the schedule
        info, got = _run_session(scenario, order, threads, os.path.join(root, "mgr"), frames, _round_sizes(sched, len(order)))
        for e in info["log"]:
            res.event("sched", *e)
        real = _real_pool_session(scenario, os.path.join(root, "real")) if scenario.get("real_pool") and threads > 1 and ns > 1 else None
    finally:
        shutil.rmtree(root, ignore_errors=True)
        SP.cleanup_all()
    _judge(res, scenario, order, threads, alone, alone_info, info, got, k)
    if real is not None:
        res.count("probe:real_pool_crosscheck")
        for i in order:
            if real.get(i) is None and got.get(i) is None:
                # no result under the real pool and none under the simulated schedule either (a strategy that raises, or one
                # that was never started because an earlier in-process run of the session raised): judged above, once
                res.count("probe:real_pool_no_result_like_simulated")
                continue
            _compare(res, scenario, i, "realpool", alone[i], real.get(i), alone_info[i], None)
    res.actuator.account_status = [None] * res.bars
    return res


def _iv(iv):
    return iv if iv[0].isdigit() else "1" + iv


def _account(res, rec, k):
    if rec is None:
        return
    res.bars += rec["n_bars"]
    res.sim_minutes += rec["n_bars"] * k
    for o in rec["ops"]:
        res.op_results.append(o)
        res.count(f"op_{o['status']}:{o['op']}")


def _judge(res, scenario, order, threads, alone, alone_info, info, got, k):
    strategies = scenario["strategies"]
    ns = len(order)
    pool_path = info["pools"] > 0
    executed = info["executed"]  # task no -> (worker, k-th task of that worker)
    if pool_path:
        res.count("probe:pool_path")
        pids = info["worker_pids"][0]
    else:
        res.count("probe:inprocess_path")
        if ns >= 2:
            res.count("probe:inprocess_ge2_strategies")
    if order != sorted(order):
        res.count("fault:order_perm")
    res.count("probe:world_family:" + (scenario.get("donor") or "uni"))
    if scenario["world"].get("config_with_data"):
        res.count("fault:config_carries_data")
    per_worker = {}
    for no, (w, kth) in executed.items():
        per_worker[w] = max(per_worker.get(w, 0), kth + 1)
    if any(v >= 2 for v in per_worker.values()):
        res.count("probe:same_worker_ran_ge2")
        res.count("fault:worker_reuse")
    if pool_path and any(w != c for c, (w, kth) in executed.items()):
        res.count("fault:assignment_perm")
    if any(e[0] == "map" for e in info["log"]):
        res.count("probe:pool_map_chunks")
    if pool_path and any(e[0] == "assign" and e[5] == 0 for e in info["log"]):
        res.count("probe:task_waited_for_a_busy_pool")
    if "NoneType: None" in (info.get("stderr") or ""):
        res.count("probe:inprocess_e_callback_called_with_None")
    sizes = _round_sizes(scenario.get("sched", {}), ns)
    round_of, pos_of, r0 = [], [], 0
    for r, size in enumerate(sizes):
        round_of += [r] * size
        pos_of += list(range(size))
    pool_round = {r for r, size in enumerate(sizes) if size > 1 and threads > 1}  # the manager's own rule
    if len(pool_round) > 1:
        raise HarnessError("more than one pool round in a session (set_start_method is once per process)")
    if len(sizes) > 1:
        res.count("fault:consecutive_manager_runs")
    if scenario.get("sched", {}).get("print_actions"):
        res.count("fault:print_actions")
    exc_round = (info["exception"] or {}).get("round")
    aborted = info["exception"] is not None and exc_round not in pool_round
    left_open = False
    any_diff = False
    raiser_seen = False
    for j, i in enumerate(order):
        name = strategies[i]["name"]
        rec = got.get(i)
        _account(res, rec, k)
        in_pool = round_of[j] in pool_round
        call = pos_of[j]  # its number among the calls submitted to the (one) pool
        earlier_rounds = [order[j2] for j2 in range(ns) if round_of[j2] < round_of[j]]
        if in_pool:
            if info["exception"] is not None and exc_round is not None and exc_round < round_of[j]:
                res.count("probe:inprocess_batch_aborted_by_exception")
                res.event("mgr", name, "not_started", None)
                continue
            if call not in executed:
                # the pool was terminated (left the with-block) before this task's completion had been waited for
                res.count("probe:task_dropped_at_terminate")
                res.event("mgr", name, "pool_task_dropped", None)
                if rec is not None:
                    raise HarnessError(f"task {call} left a result although SimPool never executed it")
                res.violate(ORACLE, "pool_task_dropped:no_result_under_manager", strategy=name, task=call,
                            note="Pool.__exit__ terminates the pool; the task had not finished at the moment the manager stopped waiting")
                any_diff = True
                continue
            w, kth = executed[call]
            path = "pool_fresh_worker" if kth == 0 else "pool_reused_worker"
            repl = (info.get("replacement_pids") or [[]])[0]
            if repl:  # the pool replaced workers: the slot's process is one of them or the original
                if rec is not None and rec["pid"] != pids[w] and rec["pid"] not in repl:
                    raise HarnessError(f"strategy {name} ran in pid {rec['pid']}, which is no worker of the pool")
                res.count("probe:pool_replaced_a_worker")
            elif rec is not None and rec["pid"] != pids[w]:
                raise HarnessError(f"strategy {name} ran in pid {rec['pid']}, scheduler assigned worker {w} (pid {pids[w]})")
        else:
            path = "inprocess_first" if j == 0 else "inprocess_later"
            if rec is not None and rec["pid"] != info["pid"]:
                raise HarnessError("in-process strategy ran in another process")
        # neighbours that ran before this strategy in the same process (or, for a pool worker, in the process it was forked from)
        if in_pool:
            first = sum(1 for j2 in range(ns) if round_of[j2] < round_of[j])
            before = earlier_rounds + [order[first + c2] for c2 in range(sizes[round_of[j]]) if c2 in executed and executed[c2][0] == w and executed[c2][1] < kth]
        else:
            before = order[:j]
        pred_left = any(alone.get(p) and any(v for v in alone[p]["held"].values()) for p in before)
        pred_noisy = any(strategies[p].get("noisy") for p in before)
        if pred_left:
            left_open = True
        res.event("mgr", name, path, digest(_public(rec)) if rec is not None else None)
        if aborted and rec is None and not in_pool:
            # an exception escaping a strategy aborts an in-process batch (plain Python semantics): the first strategy
            # without a result is the one that raised (judged below against its own run alone), the ones after it were
            # never started and are not compared
            if raiser_seen:
                res.count("probe:inprocess_batch_aborted_by_exception")
                continue
            raiser_seen = True
            if alone[i] is not None:  # raised under the manager although it runs through alone
                res.count("probe:inprocess_batch_aborted_by_exception")
                diff = _compare(res, scenario, i, path, alone[i], rec, alone_info[i], info, task=None)
                any_diff = any_diff or diff
                continue
        diff = _compare(res, scenario, i, path, alone[i], rec, alone_info[i], info, task=call if in_pool else None)
        any_diff = any_diff or diff
        res.state((path, min(ns, 4), min(threads, 3), bool(before), pred_left, pred_noisy, bool(strategies[i].get("noisy")), "diff" if diff else "same"))
    if left_open:
        res.count("probe:neighbour_left_positions")
    if any(strategies[i].get("noisy") for i in order):
        for i in order:
            for o in (alone[i] or {}).get("ops", []):
                if o["status"] == "ok" and o["op"].startswith("c19."):
                    res.count("fault:noisy_neighbour:" + o["op"][4:] + (":" + o["result"][1] if o["op"] == "c19.add_column" else ""))
    if aborted:
        res.event("batch_exception", info["exception"]["type"])


def _compare(res, scenario, i, path, ref, rec, ref_info, info, task=None):
    """One strategy: manager-run record vs alone record. Returns True when they differ."""
    name = scenario["strategies"][i]["name"]
    if ref is None and rec is None:
        # crashed alone and under the manager: the same exception class is required, nothing else can be compared
        t0 = (ref_info["exception"] or {}).get("type")
        t1 = None
        if info is not None:
            if task is not None:
                t1 = next((e[3] for e in info["log"] if e[0] == "complete" and e[1] == info["task_of"].get(task, task)), None)
            else:
                t1 = (info["exception"] or {}).get("type")
        res.count("probe:strategy_crashed_both")
        if info is not None and t0 != t1:
            res.violate(ORACLE, f"{path}:crash_differs", strategy=name, alone=t0, manager=t1)
            return True
        return False
    if ref is None:
        res.violate(ORACLE, f"{path}:crashed_alone_only", strategy=name, alone_exception=ref_info["exception"])
        return True
    if rec is None:
        exc = None
        if info is not None:
            exc = info["exception"] if task is None else next((e[3] for e in info["log"] if e[0] == "complete" and e[1] == info["task_of"].get(task, task)), None)
        res.violate(ORACLE, f"{path}:no_result_under_manager", strategy=name, manager_exception=exc)
        return True
    whats = []
    detail = {}
    for what, field in COMPARED:
        if ref[field] != rec[field]:
            if what not in whats:
                whats.append(what)
                detail[what] = _first_diff(ref[field], rec[field])
    if not whats:
        if ref["ops"] != rec["ops"]:
            res.count("probe:only_op_results_differ")
        return False
    cause = _cause(ref, rec)
    res.violate(
        ORACLE, f"{path}:{cause}", strategy=name, differs=whats, first_difference=detail,
        entry_alone={k: ref["entry"][k] for k in ("positions", "open_hook", "columns")},
        entry_manager={k: rec["entry"][k] for k in ("positions", "open_hook", "columns")},
        final_net_value_alone=ref["account_rows"][-1]["net_value"] if ref["account_rows"] else None,
        final_net_value_manager=rec["account_rows"][-1]["net_value"] if rec["account_rows"] else None,
    )
    return True


# ===================================================================================================== plugin surface
def abstract(scenario, sim):
    return sim.states


def nontrivial(state) -> bool:
    path, ns, threads, has_pred, pred_left, pred_noisy, noisy, verdict = state
    return has_pred  # a neighbour really ran before this strategy in the same process


def shrink_candidates(sc):
    """Smaller schedules / fewer strategies / calmer neighbours; the generic minimiser has already ddmin-ed the ops."""
    import copy

    ns = len(sc["strategies"])
    if ns > 1:
        for drop in range(ns - 1, -1, -1):
            c = copy.deepcopy(sc)
            del c["strategies"][drop]
            c["program"] = [dict(o, s=o["s"] - (1 if o["s"] > drop else 0)) for o in c["program"] if o["s"] != drop]
            c["sched"]["order"] = [x - (1 if x > drop else 0) for x in c["sched"]["order"] if x != drop]
            if c["sched"].get("rounds"):  # keep the round structure: the dropped strategy leaves its round
                at = sc["sched"]["order"].index(drop)
                sizes, acc = list(c["sched"]["rounds"]), 0
                for r, size in enumerate(sizes):
                    if at < acc + size:
                        sizes[r] -= 1
                        break
                    acc += size
                c["sched"]["rounds"] = [x for x in sizes if x > 0]
            yield c
    sd = sc["sched"]
    if sd.get("rounds"):
        c = copy.deepcopy(sc)
        c["sched"].pop("rounds")
        yield c
    if sd["order"] != sorted(sd["order"]):
        c = copy.deepcopy(sc)
        c["sched"]["order"] = sorted(sd["order"])
        yield c
    if sd["threads"] > 2:
        c = copy.deepcopy(sc)
        c["sched"]["threads"] = 2
        yield c
    if any(x != 1 for x in sd["durations"]) or any(x != 0 for x in sd["ready"]):
        c = copy.deepcopy(sc)
        c["sched"]["durations"] = [1]
        c["sched"]["ready"] = [0]
        yield c
    if len(sc["world"]["markets"]) > 1:
        used = {o.get("m") for o in sc["program"]}
        for mi in range(len(sc["world"]["markets"]) - 1, 0, -1):
            if sc["world"]["markets"][mi]["name"] not in used:
                c = copy.deepcopy(sc)
                del c["world"]["markets"][mi]
                yield c
    if sc.get("real_pool"):
        c = copy.deepcopy(sc)
        c.pop("real_pool")
        yield c
    if sc.get("faults"):
        c = copy.deepcopy(sc)
        c["faults"] = []
        yield c


RULE = (
    "one case = one strategy inside one manager batch (seeded world x 2-6 scripted programs x schedule), compared with "
    "the same strategy run alone; distinct_nontrivial counts distinct abstract cases (execution path in-process first/"
    "later or pool fresh/re-used worker, number of strategies capped at 4, threads capped at 3, whether a neighbour ran "
    "before it in the same process, whether that neighbour left positions open, whether it was a noisy neighbour, "
    "whether the strategy itself is noisy, verdict) in which a neighbour really ran before the strategy in the same process"
)
BUDGET = {"quick": {"runs": 900, "wall": 55}, "thorough": {"runs": 16000, "wall": 1100}}
LEVEL = "exploration"
TECHNIQUE = (
    "deterministic simulation with a seeded scheduler: real BacktestManager/Actuator code, real forked workers, the "
    "pool's task-to-worker assignment, worker re-use, completion order and wait() return decided by a discrete-event "
    "model driven by the seed; reference = the same strategy alone; minimised replay"
)
ASSUMPTIONS = [
    "about 55 % of the worlds are Uniswap worlds (1-2 pools of one token pair, 2-10 strategies with programs of their own); the others borrow the world and a base program from the generators of the other families (Aave incl. liquidations, Squeeth vault + its pool with an LP lent as collateral, Deribit alone or beside a minutely pool incl. expiries, GMX v1 / v2) and give every strategy a seeded variation of it (sub-sample, bars shifted)",
    "the configuration's market objects carry no data in 70 % of the scenarios (as in docs/source/concurrent.md) and their frames in the others",
    "about a fifth of the batches are split into 2-3 consecutive manager runs over the same configuration and data objects in one process; at most one of them takes the pool path (multiprocessing's start method can be set once per process, a second pool run in one process raises before anything runs - not a C19 matter)",
    "SimPool models apply_async, map / starmap and their _async forms (chunks of ceil(n / 4p) calls pickled as one object and run back to back by one worker, as Pool._map_async does); imap is not modelled (HARNESS-ERROR if the manager used it)",
    "an exception escaping a strategy's bar loop aborts an in-process batch (plain Python semantics): strategies that were therefore never started are not compared (probe inprocess_batch_aborted_by_exception)",
    "the real multiprocessing.Pool internals are replaced by SimPool for the controlled runs: one task in flight at a time, every schedule produced is one a FIFO fork pool can produce; truly simultaneous execution is not explored (workers are isolated by the kernel, results leave only through files)",
    "results are observed the way production code can: Strategy.finalize() pickles account_status_df, the AccountStatus rows, the action log and the final positions",
    "a noisy neighbour only uses the public API: open positions, Strategy.add_column (new column, or overwriting an input column), Market.open hook",
]
LEVEL_TEXT = (
    "seeded exploration of (world of any market family x 2-10 strategy programs x threads 1..6 x order permutation x task-to-worker "
    "assignment x worker re-use x consecutive manager runs x noisy and failing neighbours) through the real BacktestManager in both the in-process and the (simulated-schedule, "
    "really forked) pool path; every strategy's account history, action log and final positions are compared exactly "
    "with the same strategy run alone. Sampling, not proof."
)
LEVEL_NOTE = (
    "trusted: SimPool's fidelity to a FIFO fork pool (DESIGN section 4/C19), the scripted strategies' reach (see reach_probes), "
    "pickle/canonical rendering of results; the un-stubbed Pool is only sampled (thorough tier, results only)"
)
