"""The simulation driver: builds a world from a scenario, attaches a scripted strategy to the *real* Actuator,
runs the real bar loop, records a totally ordered event log, and lets an oracle observe every step.

scenario = {"property": "...", "seed": int, "world": {...}, "program": [op, ...], "faults": [...], "opts": {...}}
op       = {"bar": int (-1 = initialize), "phase": "initialize|before_bar|trigger|on_bar|after_bar|notify",
            "op": "<family>.<name>", "m": "<market name>" | None, "a": {symbolic args}}
"""
import copy
import os
import shutil
import tempfile
import atexit
from decimal import Decimal

import pandas as pd

from . import bootstrap
from .canon import canon, digest, D

bootstrap.init()

import demeter  # noqa: E402
from demeter import Actuator, Strategy, TokenInfo, MarketInfo, Snapshot  # noqa: E402
from demeter.strategy.trigger import CustomizedTrigger  # noqa: E402
from demeter._typing import USD  # noqa: E402

PHASES = ("before_bar", "trigger", "on_bar", "after_bar", "notify")

_tmpdir = None


def private_cwd():
    """Actuator.run's RuntimeError path calls save_result('./'); keep that in a private scratch directory."""
    global _tmpdir
    if _tmpdir is None or not os.path.isdir(_tmpdir) or _tmpdir_pid != os.getpid():
        _make_tmp()
    os.chdir(_tmpdir)
    return _tmpdir


_tmpdir_pid = None


def _make_tmp():
    global _tmpdir, _tmpdir_pid
    _tmpdir = tempfile.mkdtemp(prefix=f"dsim-{os.getpid()}-")
    _tmpdir_pid = os.getpid()
    d, pid = _tmpdir, _tmpdir_pid

    def _rm():
        if os.getpid() == pid:
            shutil.rmtree(d, ignore_errors=True)

    atexit.register(_rm)


class HarnessError(Exception):
    pass


class Violation(dict):
    """{"oracle": id, "site": str, "detail": {...}, "seq": event number}"""

    @property
    def key(self):
        return (self["oracle"], self["site"])


class Oracle:
    """Base class of per-run oracles; every method is optional."""

    def start(self, sim):
        pass

    def phase(self, sim, bar, phase, pos):
        pass

    def before_op(self, sim, op):
        pass

    def after_op(self, sim, op, outcome):
        pass

    def finish(self, sim):
        pass


# registries filled by dsim.worlds.* and dsim.ops
MARKET_BUILDERS = {}
OPS = {}


def market_builder(kind):
    def deco(f):
        MARKET_BUILDERS[kind] = f
        return f

    return deco


def op(name):
    def deco(f):
        OPS[name] = f
        return f

    return deco


class ScriptedStrategy(Strategy):
    def __init__(self, sim):
        super().__init__()
        self.sim = sim
        self._in_notify = False

    def initialize(self):
        sim = self.sim
        sim.bar = -1
        if sim.uses_trigger_phase:
            self.triggers.append(CustomizedTrigger(lambda s: True, self._trigger_phase))
        sim.oracle.phase(sim, -1, "initialize", "begin")
        sim.run_ops(-1, "initialize")
        sim.oracle.phase(sim, -1, "initialize", "end")

    def before_bar(self, snapshot: Snapshot):
        sim = self.sim
        sim.bar = snapshot.row_id
        sim.snapshot = snapshot
        sim.event("phase", "before_bar", snapshot.row_id, snapshot.timestamp)
        sim.oracle.phase(sim, sim.bar, "before_bar", "begin")
        sim.run_ops(sim.bar, "before_bar")
        sim.oracle.phase(sim, sim.bar, "before_bar", "end")

    def _trigger_phase(self, snapshot):
        sim = self.sim
        sim.event("phase", "trigger", snapshot.row_id, snapshot.timestamp)
        sim.oracle.phase(sim, sim.bar, "trigger", "begin")
        sim.run_ops(sim.bar, "trigger")
        sim.oracle.phase(sim, sim.bar, "trigger", "end")

    def on_bar(self, snapshot: Snapshot):
        sim = self.sim
        sim.snapshot = snapshot
        sim.event("phase", "on_bar", snapshot.row_id, snapshot.timestamp)
        sim.oracle.phase(sim, sim.bar, "on_bar", "begin")
        sim.run_ops(sim.bar, "on_bar")
        sim.oracle.phase(sim, sim.bar, "on_bar", "end")

    def after_bar(self, snapshot: Snapshot):
        sim = self.sim
        sim.snapshot = snapshot
        sim.event("phase", "after_bar", snapshot.row_id, snapshot.timestamp)
        sim.oracle.phase(sim, sim.bar, "after_bar", "begin")
        sim.run_ops(sim.bar, "after_bar")
        sim.oracle.phase(sim, sim.bar, "after_bar", "end")

    def notify(self, action):
        sim = self.sim
        sim.event("notify", type(action).__name__, canon(action.timestamp), id_of(sim, action))
        sim.oracle.phase(sim, sim.bar, "notify", action)
        if not self._in_notify:
            self._in_notify = True
            try:
                sim.run_ops(sim.bar, "notify", once=True)
            finally:
                self._in_notify = False

    def finalize(self):
        self.sim.event("phase", "finalize")


def id_of(sim, action):
    """Index of an action object in the actuator's action list (identity), -1 if absent."""
    for i, a in enumerate(sim.actuator.actions):
        if a is action:
            return i
    return -1


class Sim:
    def __init__(self, scenario, oracle: Oracle | None = None, trace=False, strategy_cls=None, prebuilt=None, on_feed=None, reuse=None):
        self.scenario = scenario
        self.world = scenario["world"]
        self.program = scenario.get("program", [])
        self.oracle = oracle if oracle is not None else Oracle()
        self.events = []
        self.violations = []
        self.counters = {}
        self.states = set()
        self.seq = 0
        self.bar = -1
        self.snapshot = None
        self.crash = None
        self.trace_enabled = trace
        self.strategy_cls = strategy_cls
        self.prebuilt = prebuilt or {}  # name -> DataFrame object to feed instead of the freshly built one (C02)
        self.on_feed = on_feed  # callable(name, frame) invoked right before a frame is handed to demeter
        self.reuse = reuse  # an earlier Sim of the same world whose market OBJECTS are attached to this run's fresh actuator
        self.fed = {}  # name -> the frame objects actually handed to demeter ('__prices__' for the price frame)
        self.markets = {}  # name -> market object
        self.mdata = {}  # name -> my own pristine copy of what was fed (dict of python values)
        self.tokens = {}
        self.op_results = []  # outcome dicts in execution order
        self.done = []  # (op, outcome) in execution order
        self._ops_by_slot = {}
        self._notify_done = set()
        for i, o in enumerate(self.program):
            self._ops_by_slot.setdefault((o["bar"], o["phase"]), []).append((i, o))
        self.uses_trigger_phase = any(o["phase"] == "trigger" for o in self.program) or scenario.get("opts", {}).get(
            "trigger_phase", False
        )
        self._build()

    # ----------------------------------------------------------------------------------------------- building
    def token(self, name):
        name = name.upper()
        if name not in self.tokens:
            dec = self.world.get("tokens", {}).get(name)
            if dec is None:
                raise HarnessError(f"token {name} not declared in world")
            self.tokens[name] = TokenInfo(name, int(dec))
        return self.tokens[name]

    def _build(self):
        w = self.world
        private_cwd()
        self.actuator = Actuator(allow_negative_balance=bool(w.get("allow_negative_balance", False)))
        self.broker = self.actuator.broker
        self.index = pd.date_range(start=pd.Timestamp(w["start"]), periods=int(w["n"]), freq="1min")
        for mw in w["markets"]:
            builder = MARKET_BUILDERS.get(mw["kind"])
            if builder is None:
                raise HarnessError(f"no builder for market kind {mw['kind']}")
            if self.reuse is not None:
                market = self.reuse.markets[mw["name"]]
                self.mdata[mw["name"]] = self.reuse.mdata.get(mw["name"])
            else:
                market = builder(self, mw)
                if self.scenario.get("opts", {}).get("deepcopy_markets") and mw["kind"] in ("aave", "uni", "gmx", "gmx2", "deribit"):
                    # the market that runs is a deep copy of the one that was configured (what BacktestManager does with
                    # its config for every run): the copy reads its own positions and status, not the original's
                    market = copy.deepcopy(market)
            if mw["name"] in self.prebuilt:
                market.data = self.prebuilt[mw["name"]]
            self.fed[mw["name"]] = market.data
            if self.on_feed:
                self.on_feed(mw["name"], market.data)
            self.markets[mw["name"]] = market
            self.broker.add_market(market)
        for name, amt in w.get("assets", {}).items():
            self.broker.set_balance(self.token(name), D(amt))
        # prices
        if w.get("prices") is not None:
            cols = {k.upper(): [D(x) for x in v] for k, v in w["prices"].items()}
            pidx = self.index if "price_index" not in w else pd.DatetimeIndex([pd.Timestamp(t) for t in w["price_index"]])
            pdf = pd.DataFrame(cols, index=pidx)
            # token prices the user derives from a market's own data with the market's helper (the documented way for
            # option markets: `actuator.set_price(market.get_price_from_data())`), here per token: {"ETH": "drb0"}
            for tok, mname in (w.get("prices_from") or {}).items():
                got = self.markets[mname].get_price_from_data()
                col = got[tok] if isinstance(got, pd.DataFrame) else got
                pdf[tok] = col.reindex(pdf.index)
            if "__prices__" in self.prebuilt:
                pdf = self.prebuilt["__prices__"]
            self.fed["__prices__"] = pdf
            if self.on_feed:
                self.on_feed("__prices__", pdf)
            q = w.get("quote", "USD")
            qt = USD if q == "USD" else self.token(q)
            self.my_prices = pdf.copy()
            self.actuator.set_price(pdf, qt)
        else:
            m0 = self.markets[w["markets"][0]["name"]]
            self.actuator.set_price(m0.get_price_from_data())
            self.my_prices = None
        self.actuator.interval = w.get("interval", "1min")
        self.strategy = (self.strategy_cls or ScriptedStrategy)(self)
        self.actuator.strategy = self.strategy
        self.actuator.print_action = False
        if self.trace_enabled:
            self._install_trace()

    def _install_trace(self):
        sim = self
        for name, m in self.markets.items():
            orig_set = m.set_market_status
            orig_upd = m.update

            def set_w(data, price, _o=orig_set, _n=name):
                sim.event("set_status", _n, canon(data.timestamp))
                return _o(data, price)

            def upd_w(_o=orig_upd, _n=name):
                sim.event("update", _n)
                n0 = len(sim.actuator.actions)
                r = _o()
                if len(sim.actuator.actions) != n0:  # liquidation / expiry / settlement records created by the update itself
                    sim.event("update_actions", _n, len(sim.actuator.actions) - n0)
                return r

            m.set_market_status = set_w
            m.update = upd_w

    # ----------------------------------------------------------------------------------------------- logging
    def event(self, *rec):
        self.seq += 1
        self.events.append([self.seq] + [canon(r) for r in rec])
        return self.seq

    def count(self, key, n=1):
        self.counters[key] = self.counters.get(key, 0) + n

    def state(self, s):
        self.states.add(s)

    def violate(self, oracle, site, **detail):
        v = Violation(oracle=oracle, site=site, detail=canon(detail), seq=self.seq, bar=self.bar)
        self.violations.append(v)
        self.event("VIOLATION", oracle, site)
        return v

    # ----------------------------------------------------------------------------------------------- ops
    def run_ops(self, bar, phase, once=False):
        slot = (bar, phase)
        if once:
            if slot in self._notify_done:
                return
            self._notify_done.add(slot)
        for i, o in self._ops_by_slot.get(slot, ()):
            self.do_op(i, o)

    def do_op(self, i, o):
        fn = OPS.get(o["op"])
        if fn is None:
            raise HarnessError(f"unknown op {o['op']}")
        market = self.markets.get(o.get("m")) if o.get("m") else None
        self.oracle.before_op(self, o)
        n_act = len(self.actuator.actions)
        call = fn(self, market, o.get("a", {}))  # resolves symbolic args (harness code) -> thunk or None
        if call is None:
            outcome = {"i": i, "status": "skipped"}
            self.count("op_skipped:" + o["op"])
        else:
            try:
                res = call()
                outcome = {"i": i, "status": "ok", "result": res}
                self.count("op_ok:" + o["op"])
            except HarnessError:
                raise
            except Exception as e:  # the protocol rejected the operation
                outcome = {"i": i, "status": "rejected", "exc": type(e).__name__, "msg": str(getattr(e, "message", e))[:200]}
                self.count("op_rejected:" + o["op"])
        outcome["new_actions"] = len(self.actuator.actions) - n_act
        self.event("op", i, o["op"], o.get("m"), outcome["status"], canon(outcome.get("result")), outcome.get("exc"))
        self.op_results.append(outcome)
        self.done.append((o, outcome))
        self.oracle.after_op(self, o, outcome)
        return outcome

    # ----------------------------------------------------------------------------------------------- running
    def _drive_directly(self):
        """The markets driven without Actuator.run(), the way demeter's own unit tests and Actuator-free users do it: every
        minute each market is handed a MarketStatus that already CARRIES its data row, then the strategy's hooks run, then
        the markets update.  Single-index market families only (uniswap, aave, squeeth, gmx); no account history."""
        from demeter.broker import MarketStatus  # noqa

        st = self.strategy
        st.broker = self.broker
        st.markets = self.broker.markets
        st.actions = self.actuator.actions
        for k, m in self.broker.markets.items():
            setattr(st, k.name, m)
        prices = self.actuator.token_prices
        first = True
        # "direct_reuse_row": the caller keeps ONE row object per market and overwrites its cells for every new bar
        # (demeter's own aave tests hand the same Series to consecutive statuses)
        reuse_row = self.scenario.get("opts", {}).get("drive") == "direct_reuse_row"
        rows = {}
        for row_id, ts in enumerate(self.index):
            self.actuator._currents.timestamp = ts.to_pydatetime()
            self.actuator._currents.actions = []
            price_row = prices.loc[ts]
            for name, m in self.markets.items():
                fresh = m.data.loc[ts]
                if reuse_row and isinstance(fresh, pd.Series):
                    if name not in rows:
                        rows[name] = fresh.copy()
                    else:
                        for key, val in fresh.items():
                            rows[name][key] = val
                    fresh = rows[name]
                stamp = ts.to_pydatetime()
                if self.scenario.get("opts", {}).get("direct_stamp_offset_s"):
                    # the caller stamps the statuses it hands over with its own clock (a few seconds off the data's index)
                    from datetime import timedelta as _td

                    stamp = stamp + _td(seconds=int(self.scenario["opts"]["direct_stamp_offset_s"]))
                m.set_market_status(MarketStatus(stamp, fresh), price_row)
            if first:
                st.initialize()
                first = False
            snap = Snapshot(ts.to_pydatetime(), row_id, price_row.copy())  # the strategy's own copy of the bar's prices
            st.before_bar(snap)
            st.on_bar(snap)
            for m in self.markets.values():
                m.update()
            st.after_bar(snap)

    def run(self):
        self.oracle.start(self)
        try:
            # operations the user's script performs on the assembled actuator / strategy before calling run()
            # (slot bar -2, phase "pre_run"): e.g. triggers attached from outside or in the strategy's constructor
            if (-2, "pre_run") in self._ops_by_slot:
                self.bar = -2
                self.run_ops(-2, "pre_run")
                self.bar = -1
            if self.scenario.get("opts", {}).get("drive") in ("direct", "direct_reuse_row"):
                self._drive_directly()
            else:
                self.actuator.run(print_result=False)
        except HarnessError:
            raise
        except Exception as e:
            import traceback

            self.crash = e
            tb = traceback.extract_tb(e.__traceback__)
            where = [f"{os.path.basename(f.filename)}:{f.name}" for f in tb[-3:]]
            self.crash_where = where
            self.event("crash", type(e).__name__, str(getattr(e, "message", e))[:200], where)
        self.oracle.finish(self)
        return self

    def log_digest(self):
        return digest(self.events)

    def done_ops(self):
        return self.done

    # helpers for oracles ----------------------------------------------------------------------------------
    def wallet(self):
        return {k.name: v.balance for k, v in self.broker.assets.items()}

    def prices_now(self):
        return self.actuator.token_prices.loc[pd.Timestamp(self.actuator._currents.timestamp)]


def amount(sim, spec, default=None):
    """Resolve a symbolic amount. None -> default; {"abs": x}; {"f": "wallet:TOKEN", "x": frac}."""
    if spec is None:
        return default
    if isinstance(spec, (str, int, float)):
        return D(spec)
    if "abs" in spec:
        return D(spec["abs"])
    if "f" in spec:
        kind, _, what = spec["f"].partition(":")
        x = D(spec.get("x", 1))
        if kind == "wallet":
            t = sim.token(what)
            bal = sim.broker.assets[t].balance if t in sim.broker.assets else Decimal(0)
            return bal * x
        resolver = AMOUNT_RESOLVERS.get(kind)
        if resolver is None:
            raise HarnessError(f"unknown amount base {spec['f']}")
        return resolver(sim, what, spec) * x
    raise HarnessError(f"bad amount spec {spec}")


AMOUNT_RESOLVERS = {}
