"""C10 - Aave balances accrue exactly with the indices; operations move the stated amounts; split/merge changes nothing.

Real: AaveV3Market.supply/withdraw/borrow/repay(+-collateral)/set_market_status/sub_base_amount inside Actuator.run.
Oracle: exact-Fraction ledger of (amount, index at entry) lots (dsim.ref.aave.Ledger), checked after every operation
(accepted or rejected) and at every bar; twin run Y re-issues run X's flows split into pieces (same bar, or - for
supplies - on later bars with the index compensated) and must end every comparable bar with the same balances.
"""
import copy
from decimal import Decimal
from fractions import Fraction

from ..sim import Sim, Oracle, HarnessError
from ..worlds import aave as A
from ..ref import aave as RA
from ..ref.aave import F, fstr
from .. import rng as R

ID = "C10"
TOL_AMOUNT = Fraction(1, 10**18)  # property: "changes nothing beyond 1e-18" (token amounts)
WALLET_EPS = Fraction(1, 10**24)  # wallet arithmetic is Decimal at 35 significant digits; balances < 1e10 keep >= 24 exact places
WALLET_REL = Fraction(1, 10**33)  # ... and larger balances (an overdrawn account can borrow a lot) keep 33 significant digits
SNAP_REL = Fraction(1, 10**5)  # Asset.sub documents: a debit within 0.001% of the balance takes the whole balance
PHASES = ["initialize", "before_bar", "trigger", "on_bar", "after_bar", "notify"]
WRITE_KINDS = {"aave.supply": "supply", "aave.withdraw": "withdraw", "aave.borrow": "borrow", "aave.repay": "repay"}


# --------------------------------------------------------------------------------------------------- generation
def generate(seed: int, tier: str = "quick") -> dict:
    rw, rp, rf = R.sub(seed, "world"), R.sub(seed, "program"), R.sub(seed, "faults")
    interval = rw.choice(["1min"] * 8 + ["2min", "5min"])
    k = {"1min": 1, "2min": 2, "5min": 5}[interval]
    nbars = rw.choice([10, 12, 16, 24, 40] if tier == "quick" else [10, 16, 24, 40, 60])
    n = nbars * k
    start = "2023-08-13 00:00:00" if k > 1 or rw.random() < 0.7 else "2023-08-13 07:13:00"
    world, mw = A.base_world(rw, n, interval=interval, start=start, price_style=rw.choice([0.0, 0.0, 0.0005, 0.002]))
    toks = mw["tokens"]
    for t in toks:
        world["assets"][t] = "1000000"
    faults = []
    # index_jump: a step in one index at a chosen bar (still non-decreasing)
    ref = RA.AaveRef(world, mw)
    nb = ref.nbars
    for _ in range(rf.choice([0, 0, 1, 2])):
        t = rf.choice(toks)
        col = rf.choice(["liquidity_index", "variable_borrow_index"])
        b = rf.randint(1, nb - 1)
        raw = ref.rows[b][1]
        mult = Decimal(A.dstr(1 + rf.uniform(0.01, 0.2), 6))
        s = mw[col][t]
        for i in range(raw, n):
            s[i] = format((Decimal(s[i]) * mult).quantize(Decimal(1).scaleb(-27)), "f")
        faults.append({"kind": "index_jump", "bar": b, "token": t, "col": col})
    ref = RA.AaveRef(world, mw)
    coll_flag = {t: (rp.random() < 0.8 and mw["risk"][t]["collateral"]) for t in toks}
    program = []
    nops = rp.choice([4, 6, 8, 12, 16, 24])
    slots = sorted((rp.randint(-1, nb - 1), rp.choice([1, 2, 3, 3, 4])) for _ in range(nops))
    supplied, borrowed = set(), set()
    if R.sub(seed, "via_files").random() < 0.15:
        mw["via_files"] = True  # the index history reaches the market through minute files and the real loader
        faults.append({"kind": "data_read_from_minute_files"})
    overdraft = R.sub(seed, "overdraft").random() < 0.1
    if overdraft:
        # Actuator(allow_negative_balance=True): the wallet subtracts exactly (no snap-to-zero), may go below zero
        world["allow_negative_balance"] = True
        faults.append({"kind": "overdraft_allowed"})
    rx = R.sub(seed, "extras")
    for j, (b, ph) in enumerate(slots):
        phase = "initialize" if b == -1 else PHASES[ph]
        r = rp.random()
        o = None
        if supplied and rx.random() < 0.07:
            # the collateral flag of a supply is switched: balances must not notice
            program.append({"op": "aave.change_collateral", "a": {"token": {"supplied": rx.randint(0, 3)}}, "bar": b, "phase": phase, "m": "aave0"})
        if not supplied or r < 0.32:
            t = rp.choice(toks)
            dec = rp.choice([0, 2, 6, 18])
            amt = Decimal(A.dstr(float(BASE_UNITS(world, t)) * rp.uniform(0.2, 5), dec))
            if overdraft and rx.random() < 0.35:  # (nearly) the whole wallet balance, a little less or a little more
                amt = {"f": "wallet", "x": rx.choice(["0.999995", "0.999999", "1", "1.000004", "1.3"])}
            flag = coll_flag[t]
            if rf.random() < 0.04:
                flag = not flag  # reject:supply:flag differs from the existing supply / token not usable as collateral
                faults.append({"kind": "reject:supply:flag", "bar": b})
            o = {"op": "aave.supply", "a": {"token": t, "amount": amt if isinstance(amt, dict) else str(amt), "collateral": flag}}
            if rf.random() < 0.03:
                o["a"]["amount"] = "100000000"  # reject:supply:wallet short
                faults.append({"kind": "reject:supply:wallet", "bar": b})
            else:
                supplied.add(t)
        elif r < 0.52:
            t = rp.choice(toks)
            x = rp.choice(["0.05", "0.1", "0.2", "0.3", "0.5"])
            o = {"op": "aave.borrow", "a": {"token": t, "amount": {"f": "ref_max_borrow", "x": x}}}
            if rf.random() < 0.06:
                o["a"]["amount"]["x"] = rf.choice(["1.0001", "1.5", "30"])
                faults.append({"kind": "reject:borrow:ltv", "bar": b})
            elif rp.random() < 0.05:
                o["a"]["amount"] = None
            borrowed.add(t)
        elif r < 0.76:
            t = {"supplied": rp.randint(0, 3)}
            mode = rp.random()
            if mode < 0.2:
                amt = None
            elif mode < 0.3:
                amt = {"f": "supply", "x": "1"}  # the whole balance as an 18-place number (residue < 1e-18)
            elif mode < 0.4:
                kk = rp.choice([3, 6, 9, 12, 15])
                amt = {"f": "supply", "x": str(1 - Decimal(10) ** -kk)}  # leaves a small residue
            else:
                amt = {"f": "ref_max_withdraw", "x": rp.choice(["0.1", "0.25", "0.5", "0.8"])}
            o = {"op": "aave.withdraw", "a": {"token": t, "amount": amt}}
            if rf.random() < 0.1:
                o["a"]["amount"] = rf.choice([{"f": "supply", "x": "1.5"}, {"f": "ref_max_withdraw", "x": "1.01"}, {"f": "ref_max_withdraw", "x": "3"}, "0"])
                faults.append({"kind": "reject:withdraw", "bar": b})
        else:
            t = {"borrowed": rp.randint(0, 3)}
            mode = rp.random()
            if mode < 0.25:
                amt = None
            elif mode < 0.35:
                amt = {"f": "debt", "x": "1"}
            elif mode < 0.45:
                kk = rp.choice([3, 6, 9, 12, 15])
                amt = {"f": "debt", "x": str(1 - Decimal(10) ** -kk)}
            else:
                amt = {"f": "debt", "x": rp.choice(["0.1", "0.3", "0.5", "0.9"])}
            o = {"op": "aave.repay", "a": {"token": t, "amount": amt}}
            if rp.random() < 0.4:
                o["a"]["with_collateral"] = True
                if rp.random() < 0.7:
                    o["a"]["collateral_token"] = {"supplied": rp.randint(0, 3)}
            elif rp.random() < 0.2:
                o["a"]["named_token"] = {"supplied": rp.randint(0, 3)}
            if rf.random() < 0.08:
                o["a"]["amount"] = {"f": "debt", "x": rf.choice(["1.001", "2"])}
                faults.append({"kind": "reject:repay:beyond_debt", "bar": b})
            elif rf.random() < 0.08 and not o["a"].get("with_collateral"):
                # reject:repay:wallet short - the wallet is first lowered below the amount to pay back
                o["a"]["amount"] = rf.choice([None, {"f": "debt", "x": "1"}, {"f": "debt", "x": "0.9"}])
                program.append({"op": "broker.drain_to", "a": {"token": t, "amount": {"f": "debt", "x": rf.choice(["0.1", "0.5", "0.85"])}},
                                "bar": b, "phase": phase, "m": "aave0"})
                faults.append({"kind": "reject:repay:wallet_short", "bar": b})
        o.update({"bar": b, "phase": phase, "m": "aave0"})
        # split/merge twin: how run Y re-issues this flow
        if rp.random() < 0.6:
            kparts = rp.choice([2, 2, 3, 4, 5])
            ws = sorted(rp.uniform(0.05, 0.95) for _ in range(kparts - 1))
            w = [ws[0]] + [ws[i] - ws[i - 1] for i in range(1, len(ws))]
            sp = {"w": [A.dstr(x, 6) for x in w]}
            nxt = slots[j + 1][0] if j + 1 < len(slots) else nb - 1
            if o["op"] == "aave.supply" and b >= 0 and nxt - b >= 2 and rp.random() < 0.5:
                sp["bars"] = sorted(rp.randint(b + 1, nxt - 1) for _ in range(kparts - 1))  # later bars, index compensated
            o["split"] = sp
        program.append(o)
    if A.add_bystander(R.sub(seed, "bystander"), world) is not None:
        faults.append({"kind": "second_market_of_the_same_kind_registered_first"})
    if not mw.get("via_files") and R.sub(seed, "row_order").random() < 0.08:
        mw["row_order"] = "newest_half_first"
        faults.append({"kind": "index_history_rows_not_in_chronological_order"})
    opts = {"twin": True}
    if interval == "1min" and R.sub(seed, "direct_drive").random() < 0.1:
        # the market driven without Actuator.run(): statuses that already carry their data row (as demeter's unit tests do)
        opts = {"twin": False, "drive": R.sub(seed, "direct_drive_kind").choice(["direct", "direct", "direct_reuse_row"])}
        program = [o for o in program if o["phase"] != "trigger"]
        faults.append({"kind": "market_driven_without_the_actuator"})
    if interval != "1min" and not mw.get("via_files") and R.sub(seed, "earlier_run").random() < 0.2:
        # the market objects have served an earlier back test on ANOTHER index history (same timestamps) before they are
        # given this run's data (`market.data = frame`): what this run accrues follows this run's data
        opts["earlier_run"] = True
        faults.append({"kind": "market_objects_served_an_earlier_run_on_other_data"})
    return {"property": ID, "seed": seed, "world": world, "program": program, "faults": faults, "opts": opts}


def _sim_after_an_earlier_run(scenario, ox):
    """run an idle back test over a DIFFERENT index history on fresh market objects, then hand the same objects this
    scenario's frames through the public `data` setter and return the Sim that runs the scenario on them"""
    sa = copy.deepcopy({k: v for k, v in scenario.items() if k not in ("program", "expect", "minimised")})
    sa["program"] = []
    for m in sa["world"]["markets"]:
        if m.get("kind") != "aave":
            continue
        for col in ("liquidity_index", "variable_borrow_index"):
            for t, series in m[col].items():
                n = len(series)
                m[col][t] = [format((Decimal(v) * (1 + Decimal(3 * i + 1) / Decimal(100 * n))).quantize(Decimal(1).scaleb(-27)), "f") for i, v in enumerate(series)]
    earlier = Sim(sa, None).run()
    if earlier.crash is not None:
        raise HarnessError(f"the idle earlier run crashed: {earlier.crash!r}")
    own = Sim(scenario, None)  # never run: only the frames its builders made are used
    frames = {name: mk.data for name, mk in own.markets.items()}
    sim = Sim(scenario, ox, reuse=earlier, prebuilt=frames)
    sim.mdata = dict(own.mdata)
    sim.count("fault:market_objects_served_an_earlier_run_on_other_data")
    return sim


def BASE_UNITS(world, t):
    """roughly 1000 USD worth of token t at the first price"""
    return Decimal(1000) / Decimal(world["prices"][t][0])


# --------------------------------------------------------------------------------------------------- oracle
class LedgerOracle(Oracle):
    def __init__(self, run="X"):
        self.run = run
        self.dead = False  # after the first violation (or a liquidation) the ledger is no longer a valid reference
        self.records = {}  # op index -> what was actually requested / moved (used to build the twin program)
        self.bars = {}  # bar -> {"sup": {t: amount}, "debt": {...}, "wallet": {...}}
        self.stop_bar = None

    def start(self, sim):
        self.m = sim.markets["aave0"]
        self.ref = RA.ref_for(sim, self.m)
        self.sup, self.debt = RA.Ledger(), RA.Ledger()
        self.n_actions = 0

    # ---- helpers
    def _bar(self, sim):
        return max(sim.bar, 0)

    def _wallet(self, sim):
        return {k.name: F(v.balance) for k, v in sim.broker.assets.items()}

    def _real(self):
        m = self.m
        return ({k.name: F(m.get_supply(k).amount) for k in m.supply_keys}, {k.name: F(m.get_borrow(k).amount) for k in m.borrow_keys})

    def _v(self, sim, site, **d):
        if not self.dead:
            sim.violate("c10.ledger", site, run=self.run, **d)
            self.dead = True

    def _compare(self, sim, where):
        """real positions vs ledger, token by token"""
        if self.dead:
            return
        bar = self._bar(sim)
        rs, rb = self._real()
        for kind, real, led, idx in (("supply", rs, self.sup, self.ref.Is), ("debt", rb, self.debt, self.ref.Ib)):
            for t in sorted(set(real) | set(led.tokens())):
                i_now = idx(t, bar)
                want = led.balance(t, i_now)
                dust = TOL_AMOUNT * max(1, i_now)  # the clamp works on scaled amounts: residue band [0, 1e-18 * index]
                if t not in real:
                    if want > dust:
                        return self._v(sim, f"{where}:{kind}_vanished", token=t, want=fstr(want), bar=bar)
                    if want > 0:
                        sim.count("probe:residue_clamped")
                        led.clear(t)
                    continue
                if t not in led.tokens():
                    if real[t] > dust:
                        return self._v(sim, f"{where}:{kind}_appeared", token=t, got=fstr(real[t]), bar=bar)
                    continue
                if abs(real[t] - want) > TOL_AMOUNT:
                    return self._v(sim, f"{where}:{kind}_amount", token=t, got=fstr(real[t]), want=fstr(want), diff=fstr(real[t] - want), bar=bar)

    # ---- hooks
    def phase(self, sim, bar, phase, pos):
        if phase == "notify":
            return
        if self.dead:
            return
        acts = sim.actuator.actions
        if any(type(a).__name__ == "LiquidationAction" for a in acts[self.n_actions:]):
            # what a liquidation takes is C12's subject: the ledger adopts the positions it left as fresh lots at this bar's
            # indices and goes on checking accrual and stated amounts from there (twin runs are compared up to this bar only)
            sim.count("probe:ledger_rebased_after_liquidation")
            if self.stop_bar is None:
                self.stop_bar = self._bar(sim)
            b = self._bar(sim)
            rs, rb = self._real()
            self.sup, self.debt = RA.Ledger(), RA.Ledger()
            for t, amt in rs.items():
                self.sup.add(t, amt, self.ref.Is(t, b))
            for t, amt in rb.items():
                self.debt.add(t, amt, self.ref.Ib(t, b))
        self.n_actions = len(acts)
        if pos == "begin" and phase in ("before_bar", "after_bar"):
            self._compare(sim, f"bar:{phase}")
        if phase == "after_bar" and pos == "end" and not self.dead:
            rs, rb = self._real()
            self.bars[bar] = {"sup": rs, "debt": rb, "wallet": self._wallet(sim)}

    def before_op(self, sim, op):
        if op.get("m") not in (None, "aave0"):
            return  # an operation on the second pool: not this oracle\'s market
        self.w0 = self._wallet(sim)
        self.a0 = len(sim.actuator.actions)

    def after_op(self, sim, op, outcome):
        if op.get("m") not in (None, "aave0"):
            return
        kind = WRITE_KINDS.get(op["op"])
        status = outcome["status"]
        i = outcome["i"]
        if status == "skipped":
            self.records[i] = {"status": "skipped"}
            return
        call = dict(getattr(sim, "last_call", {}))
        rec = {"status": status, "call": call, "kind": kind}
        self.records[i] = rec
        if self.dead or kind is None:
            return
        bar = self._bar(sim)
        ref = self.ref
        t = call["token"]
        w1 = self._wallet(sim)
        name = kind if not call.get("with_collateral") else "repay_with_collateral"
        acts = sim.actuator.actions[self.a0:]
        self.n_actions = len(sim.actuator.actions)
        if status == "rejected":
            sim.count(f"fault:reject:{name}")
            for tok in sorted(set(self.w0) | set(w1)):
                if self.w0.get(tok, 0) != w1.get(tok, 0):
                    return self._v(sim, f"{name}:rejected:wallet_changed", token=tok, before=fstr(self.w0.get(tok, 0)), after=fstr(w1.get(tok, 0)))
            if acts:
                return self._v(sim, f"{name}:rejected:action_recorded", n=len(acts))
            self._compare(sim, f"{name}:rejected")
            sim.state((name, "rejected", 0, 0, False))
            return
        # ---------------- accepted: expected movement from the stated amounts
        x = call.get("amount")
        moved_wallet = {}  # token -> expected delta
        act_amount = F(acts[0].amount) if len(acts) == 1 and hasattr(acts[0], "amount") else None
        if len(acts) != 1:
            return self._v(sim, f"{name}:ok:action_count", n=len(acts))
        lots_before = len(self.sup.lots.get(t, ())) if kind in ("supply", "withdraw") else len(self.debt.lots.get(t, ()))
        if kind == "supply":
            x = F(x)
            self.sup.add(t, x, ref.Is(t, bar))
            moved_wallet[t] = -x
            after_want = self.sup.balance(t, ref.Is(t, bar))
        elif kind == "withdraw":
            bal = self.sup.balance(t, ref.Is(t, bar))
            full = x is None
            x = bal if x is None else F(x)
            left = self.sup.reduce(t, x, ref.Is(t, bar))
            moved_wallet[t] = x
            after_want = left
            rec["full"] = full
        elif kind == "borrow":
            if x is None:  # "borrow the helper's maximum": the stated amount is the one the action reports
                x = act_amount
                sim.count("probe:borrow_none")
            x = F(x)
            self.debt.add(t, x, ref.Ib(t, bar))
            moved_wallet[t] = x
            after_want = self.debt.balance(t, ref.Ib(t, bar))
        else:  # repay
            bal = self.debt.balance(t, ref.Ib(t, bar))
            full = x is None
            x = bal if x is None else F(x)
            if call.get("with_collateral"):
                c = call.get("collateral_token") or t
                need = x * ref.P(t, bar) / ref.P(c, bar)
                cbal = self.sup.balance(c, ref.Is(c, bar))
                if need > cbal:  # the protocol repays what the collateral can buy instead of failing
                    x = cbal * ref.P(c, bar) / ref.P(t, bar)
                    need = cbal
                    sim.count("probe:repay_with_collateral_capped")
                self.sup.reduce(c, need, ref.Is(c, bar))
                rec["collateral_token"] = c
                if c == t:
                    sim.count("probe:repay_with_own_collateral")
            else:
                moved_wallet[t] = -x
            left = self.debt.reduce(t, x, ref.Ib(t, bar))
            after_want = left
            rec["full"] = full
        rec["amount"] = x
        # stated amount on the action record
        if act_amount is None or abs(act_amount - x) > TOL_AMOUNT:
            return self._v(sim, f"{name}:ok:action_amount", got=fstr(act_amount), want=fstr(x))
        after_field = getattr(acts[0], "deposit_after", None) if kind in ("supply", "withdraw") else getattr(acts[0], "debt_after", None)
        if after_field is not None and abs(F(after_field) - after_want) > TOL_AMOUNT * max(1, ref.Is(t, bar), ref.Ib(t, bar)):
            return self._v(sim, f"{name}:ok:action_balance_after", got=fstr(F(after_field)), want=fstr(after_want))
        # wallet deltas
        for tok in sorted(set(self.w0) | set(w1) | set(moved_wallet)):
            before, after = self.w0.get(tok, Fraction(0)), w1.get(tok, Fraction(0))
            want = moved_wallet.get(tok, Fraction(0))
            if want < 0 and before > 0 and abs(before + want) < SNAP_REL * before and not sim.world.get("allow_negative_balance"):
                sim.count("probe:wallet_snap_zone")
                continue
            if abs((after - before) - want) > max(WALLET_EPS, WALLET_REL * max(abs(before), abs(after))):
                return self._v(sim, f"{name}:ok:wallet_delta", token=tok, got=fstr(after - before), want=fstr(want))
        self._compare(sim, f"{name}:ok")
        both = t in self.sup.tokens() and t in self.debt.tokens()
        if both:
            sim.count("probe:same_token_supplied_and_borrowed")
        if rec.get("full"):
            sim.count(f"probe:full_{kind}")
        sim.state((name, "ok", min(lots_before, 3), "full" if rec.get("full") else "part", both))

    def finish(self, sim):
        if sim.crash is not None and not self.dead:
            where = "/".join(getattr(sim, "crash_where", [])[-1:])
            if "_liquidate" in where or "_do_liquidate" in where:
                sim.count("probe:crash_in_liquidation")  # C12's business
                return
            sim.violate("c10.crash", f"{type(sim.crash).__name__}@{where}", run=self.run, msg=str(sim.crash)[:200])


# --------------------------------------------------------------------------------------------------- twin run
def _q18(x: Decimal) -> Decimal:
    return x.quantize(Decimal(1).scaleb(-18))


def build_twin(scenario, orc: LedgerOracle, ref):
    """Program of run Y from run X's *resolved* requests. Returns (program, inflight intervals, has_cross_bar)."""
    prog, inflight = [], []
    cross = False
    for i, o in enumerate(scenario["program"]):
        rec = orc.records.get(i)
        if rec is None or rec["status"] == "skipped":
            continue
        call = rec["call"]
        if o["op"] not in WRITE_KINDS:
            prog.append(dict(o, x_index=i))
            continue
        a = {"token": call["token"]}
        for k in ("collateral", "with_collateral", "collateral_token"):
            if call.get(k) is not None:
                a[k] = call[k]
        amt = call.get("amount")
        base = {"bar": o["bar"], "phase": o["phase"], "op": o["op"], "m": o["m"], "x_index": i}
        sp = o.get("split")
        if not sp or rec["status"] != "ok" or rec.get("amount") is None or (rec["kind"] == "borrow" and amt is None):
            prog.append(dict(base, a=dict(a, amount=None if amt is None else {"abs": str(amt), "q": False})))
            continue
        total = amt if amt is not None else RA.to_dec(rec["amount"], 40)
        ws = [Decimal(w) for w in sp["w"]]
        pieces = [_q18(total * w) for w in ws]
        if any(p <= 0 for p in pieces) or sum(pieces) >= total:
            prog.append(dict(base, a=dict(a, amount=None if amt is None else {"abs": str(amt)})))
            continue
        last = None if amt is None else total - sum(pieces)  # "everything" stays "everything" in the last piece
        amounts = pieces + [last]
        bars = sp.get("bars")
        if bars and o["op"] == "aave.supply" and o["bar"] >= 0 and max(bars) < ref.nbars:
            cross = True
            t = call["token"]
            i0 = ref.Is(t, o["bar"])
            # first piece in place, later pieces on later bars, scaled by I(b)/I(b0) so the scaled amount is the same
            prog.append(dict(base, a=dict(a, amount={"abs": str(amounts[0])})))
            for b, am in zip(bars, amounts[1:]):
                comp = RA.to_dec(F(am) * ref.Is(t, b) / i0, 34)
                prog.append(dict(base, bar=b, phase="before_bar", a=dict(a, amount={"abs": str(comp)})))
            inflight.append((o["bar"], max(bars)))
        else:
            for am in amounts:
                prog.append(dict(base, a=dict(a, amount=None if am is None else {"abs": str(am)})))
    order = {p: k for k, p in enumerate(PHASES)}
    prog = [p for _, p in sorted(enumerate(prog), key=lambda e: (e[1]["bar"], order[e[1]["phase"]], e[0]))]
    return prog, inflight, cross


def compare_twins(sim, ox: LedgerOracle, oy: LedgerOracle, simy, yprog, inflight, cross):
    # comparable only while every X request and all of its Y pieces had the same outcome
    first_bad = None
    xstat = {i: r["status"] for i, r in ox.records.items()}
    for j, (o, out) in enumerate(simy.done):
        xi = o.get("x_index")
        if xi is None or xstat.get(xi) in (None, "skipped"):
            continue
        if out["status"] != xstat[xi]:
            first_bad = o["bar"] if first_bad is None else min(first_bad, o["bar"])
    if len(simy.done) != len(yprog) and simy.crash is None:
        pass
    stops = [b for b in (first_bad, ox.stop_bar, oy.stop_bar) if b is not None]
    stop = min(stops) if stops else None
    if first_bad is not None:
        sim.count("probe:twin_outcomes_diverged")
    compared = 0
    for bar in sorted(set(ox.bars) & set(oy.bars)):
        if stop is not None and bar >= max(stop, 0):
            break
        if any(b0 <= bar < b1 for b0, b1 in inflight):
            continue
        bx, by = ox.bars[bar], oy.bars[bar]
        compared += 1
        for kind in ("sup", "debt"):
            for t in sorted(set(bx[kind]) | set(by[kind])):
                gx, gy = bx[kind].get(t, Fraction(0)), by[kind].get(t, Fraction(0))
                if abs(gx - gy) > TOL_AMOUNT * 2:  # each run is within 1e-18 of the exact ledger
                    sim.violate("c10.twin", f"split_merge:{kind}_differs", token=t, bar=bar, merged=fstr(gx), split=fstr(gy))
                    return
        if not cross:
            for t in sorted(set(bx["wallet"]) | set(by["wallet"])):
                gx, gy = bx["wallet"].get(t, Fraction(0)), by["wallet"].get(t, Fraction(0))
                if gx == 0 or gy == 0:
                    continue  # snap-to-zero zone of Asset.sub
                if abs(gx - gy) > TOL_AMOUNT:
                    sim.violate("c10.twin", "split_merge:wallet_differs", token=t, bar=bar, merged=fstr(gx), split=fstr(gy))
                    return
    if compared:
        sim.count("probe:twin_bars_compared", compared)
        sim.count("probe:twin_runs_compared")
        if cross:
            sim.count("probe:twin_cross_bar_split")


# --------------------------------------------------------------------------------------------------- execution
def execute(scenario) -> Sim:
    ox = LedgerOracle("X")
    if scenario.get("opts", {}).get("earlier_run"):
        sim = _sim_after_an_earlier_run(scenario, ox).run()
    else:
        sim = Sim(scenario, ox).run()
    if not scenario.get("opts", {}).get("twin", True) or sim.violations:
        return sim
    if not any(o.get("split") for o in scenario["program"]):
        return sim
    ref = RA.AaveRef(scenario["world"], A.market_of(scenario["world"]))
    yprog, inflight, cross = build_twin(scenario, ox, ref)
    sy = copy.deepcopy({k: v for k, v in scenario.items() if k not in ("program", "expect", "minimised")})
    sy["program"] = yprog
    oy = LedgerOracle("Y")
    simy = Sim(sy, oy).run()
    for v in simy.violations:
        sim.violate(v["oracle"], v["site"], **dict(v["detail"], twin_run="Y"))
    for k, v in simy.counters.items():
        if k.startswith("probe:") or k.startswith("fault:"):
            sim.count(k, v)
    sim.states |= simy.states
    sim.event("twin", simy.log_digest(), len(yprog))
    if not sim.violations:
        compare_twins(sim, ox, oy, simy, yprog, inflight, cross)
    return sim


def abstract(scenario, sim):
    return sim.states


def nontrivial(state) -> bool:
    name, status, lots, part, both = state
    return status == "ok" and (lots >= 1 or both or part == "full")


def shrink_candidates(scenario):
    prog = scenario["program"]
    for i, o in enumerate(prog):
        if o.get("split"):
            c = copy.deepcopy(scenario)
            del c["program"][i]["split"]
            yield c
    if scenario.get("faults"):
        c = copy.deepcopy(scenario)
        c["faults"] = []
        yield c
    w = scenario["world"]
    for t, series in w["prices"].items():
        if len(set(series)) > 1:
            c = copy.deepcopy(scenario)
            c["world"]["prices"][t] = [series[0]] * len(series)
            yield c
    for col in ("liquidity_rate", "variable_borrow_rate", "stable_borrow_rate"):
        mw = A.market_of(w)
        for t, series in mw.get(col, {}).items():
            if any(x != "0" for x in series):
                c = copy.deepcopy(scenario)
                A.market_of(c["world"])[col][t] = ["0"] * len(series)
                yield c
                break


RULE = (
    "one case = one accepted or rejected Aave write (supply/withdraw/borrow/repay/repay-with-collateral) checked against "
    "the exact lot ledger inside a seeded run of the real bar loop; distinct_nontrivial counts distinct abstract cases "
    "(operation, outcome, number of lots the token already had capped at 3, partial/full, token both supplied and "
    "borrowed) that are accepted and touch an existing position, a full exit, or a token held on both sides"
)
BUDGET = {"quick": {"runs": 1500, "wall": 60}, "thorough": {"runs": 60000, "wall": 1200}}
LEVEL = "exploration"
ASSUMPTIONS = [
    "requested amounts have at most 18 decimal places (no token has more); pieces of a cross-bar split are index-compensated to 34 digits",
    "a residue whose scaled amount is below 1e-18 (token amount below 1e-18 x index) may either vanish or stay: the clamp of sub_base_amount is part of the property",
    "wallet deltas are compared to 1e-24, or to 1e-33 of the balance where that is larger: wallet arithmetic is Decimal with 35 significant digits",
    "a wallet debit within 0.001% of the whole balance is not checked (Asset.sub documents that it then takes the whole balance) - except in the 10 % of the worlds whose account may be overdrawn, where the wallet subtracts exactly and is held to that",
    "what a liquidation takes is C12's subject: when one occurs the ledger adopts the positions it left (as fresh lots at that bar's indices) and continues; twin runs are compared up to that bar",
    "twin runs are compared only on bars where every request of run X and all of its pieces in run Y had the same outcome and no cross-bar split is in flight; with a cross-bar split wallets are not compared (the compensated pieces differ by design)",
    "borrow(None) takes the amount stated on the recorded action as the stated amount",
]
LEVEL_TEXT = (
    "seeded exploration: generated index paths (flat/slow/fast/jumpy, index_jump faults, 1-5 min bars, different per token, "
    "supply index != borrow index) x programs of supplies, withdrawals, borrows and repayments (cash and collateral, full "
    "and partial, tiny residues, rejected requests) run through the real bar loop; every operation and every bar is "
    "compared with an exact Fraction lot ledger, and a twin run issues the same flows split into 2-5 pieces. Sampling, not proof."
)
LEVEL_NOTE = (
    "trusted: the ledger's reading of the property (DESIGN appendix A.3), Python Fraction/Decimal, the generator's reach "
    "(see reach_probes); histories are synthetic frames in the loader's output format"
)
