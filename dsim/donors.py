"""Base scenarios borrowed from the family-specific property modules, so that the history-level properties (C02 no
look-ahead, C05 bar loop) are exercised on every market type and on minutely + hourly mixes, not only on Uniswap
worlds.  A donor's `generate` yields a world and a scripted program for its family; here only world + program are
kept (the donor's oracle is not used) and everything else a history-level check needs is derived generically.
"""
import importlib

import pandas as pd

from . import rng as R
from .worlds import deribit as W

# (module, weight): aave ledger / aave liquidations / aave views, squeeth vaults (pool + vault market, LP lent as
# collateral, liquidations at bar end), deribit orders (alone = hourly bars, or beside a minutely uniswap market),
# deribit expiries (actions created by update()), gmx v1/v2
DONORS = (("c10", 2), ("c12", 2), ("c13", 1), ("c14", 3), ("c15", 3), ("c16", 3), ("c17", 2))


def pick(rng):
    names = [n for n, w in DONORS for _ in range(w)]
    return rng.choice(names)


def module(name):
    return importlib.import_module(f"dsim.props.{name}")


def base_scenario(name, seed, tier="quick"):
    """world + program of donor `name` for `seed` (plain JSON, self-contained)."""
    mod = module(name)
    sc = mod.generate(R.h64(seed, "donor", name) >> 1, "quick")
    prog = [{k: o[k] for k in ("bar", "phase", "op", "m", "a") if k in o} for o in sc["program"]]
    # what only the donor's own check is about stays with the donor: a strategy scribbling over the price row it was handed
    # (C13's what-if; the borrowers compare snapshots and price columns themselves); operations the donor's script performs
    # before run() are performed at the head of initialize here (the borrowers know five phases)
    prog = [o for o in prog if o["op"] != "strat.scribble_snapshot_prices"]
    for o in prog:
        if o.get("phase") == "pre_run":
            o["bar"], o["phase"] = -1, "initialize"
    return {"world": sc["world"], "program": prog, "donor_faults": [f.get("kind") for f in sc.get("faults", [])]}


def interval_minutes(world) -> int:
    iv = world.get("interval", "1min")
    return int(pd.Timedelta(iv if iv[0].isdigit() else "1" + iv) / pd.Timedelta("1min"))


def bar_times(world):
    """The bar timestamps the run must visit, derived from the world alone: the minute grid of the world (hour grid
    when every market is an hourly option market) resampled to the interval, bins aligned to midnight, left label."""
    return W.bar_times(world)


def minute_of(world, ts) -> int:
    return int((pd.Timestamp(ts) - pd.Timestamp(world["start"])) / pd.Timedelta("1min"))


def prepare(name):
    """donor-side set-up a plain Sim run needs (argument resolvers registered by the donor module)."""
    module(name)
