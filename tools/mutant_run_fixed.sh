#!/bin/bash
# usage: tools/mutant_run_fixed.sh <patch-file> <PROP-ID> [--tests] [extra dsim.check args]
# Like tools/mutant_run.sh, but the scratch copy of /repo first receives every proposed fix of that property
# (/verif/proposed_fixes/<PROP-ID>-*.patch, in name order) and only then the mutant. Needed while proposed fixes are
# not yet committed to /repo: on the unfixed tree the check exits 1 whatever the mutant does, and reverse-of-fix
# mutants do not even apply. Once the fixes are committed, tools/mutant_run.sh gives the same answer.
# <patch-file> may be "-" for "no mutant" (baseline of the fixed tree: must print MUTANT-EXIT=0).
set -u
PATCH=$1; PID=$2; shift 2
[ "$PATCH" != "-" ] && PATCH=$(realpath "$PATCH")
TESTS=0; if [ "${1:-}" = "--tests" ]; then TESTS=1; shift; fi
S=$(mktemp -d /tmp/dsim-mutant-XXXXXX)
if [ -z "${KEEP:-}" ]; then trap 'rm -rf "$S"' EXIT; else echo "KEEPING $S"; fi
rsync -a --exclude .git --exclude __pycache__ /repo/ "$S/repo/"
cd "$S/repo" || exit 3
for f in /verif/proposed_fixes/"$PID"-*.patch; do
  [ -e "$f" ] || continue
  patch -p1 -s < "$f" || { echo "FIX-PATCH-FAILED $f"; exit 3; }
done
if [ "$PATCH" != "-" ]; then
  patch -p1 -s < "$PATCH" || { echo "PATCH-FAILED"; exit 3; }
fi
if [ $TESTS = 1 ]; then
  /venv/bin/python -m pytest -q -p no:cacheprovider --timeout=900 --continue-on-collection-errors 2>&1 | tail -1
fi
mkdir -p "$S/replays"
cd /verif && DSIM_REPO="$S/repo" DSIM_REPLAY_DIR="$S/replays" timeout 1200 /venv/bin/python -m dsim.check "$PID" --no-evidence "$@" 2>&1 | grep -v "conda" | grep -E "VIOLATION|HARNESS|KNOWN|done|oracle=" | cut -c1-300
echo "MUTANT-EXIT=${PIPESTATUS[0]}"
