#!/venv/bin/python
"""Regenerate /verif/MANIFEST.json from the property modules present in dsim/props (run from /verif)."""
import importlib
import json
import os
import sys

sys.path.insert(0, os.path.dirname(os.path.dirname(os.path.abspath(__file__))))
from dsim import bootstrap

bootstrap.init()

ALL = [f"C{i:02d}" for i in range(1, 21)]
NA = {
    "C06": "pure functions of one tick/price (tick<->sqrt-price conversion, usable-tick rounding): no state, schedule, clock, fault or interleaving for a simulator to control; the property's own quantifier is exhaustive enumeration over 1,774,545 ticks, a different technique",
    "C07": "pure arithmetic of get_liquidity/get_amounts/new_position on (price, ticks, decimals, amounts): no schedule, clock, fault or history; sampling its arguments would be input generation dressed as simulation",
    "C20": "performance metrics are pure functions of a net-value series: nothing to schedule, no fault to inject, no history to replay",
}
HOOK_COMMITS = []
# properties whose check has been reviewed, triaged on the unchanged tree and is claimed (maintained by hand)
CLAIMED = ["C01", "C04", "C03", "C02", "C05", "C08", "C09", "C10", "C11", "C12", "C13", "C14", "C15", "C16", "C17", "C18", "C19"]

checks, na = [], []
for pid in ALL:
    if pid in NA:
        na.append({"property_id": pid, "reason": NA[pid]})
        continue
    try:
        if pid not in CLAIMED:
            raise ModuleNotFoundError(pid)
        prop = importlib.import_module(f"dsim.props.{pid.lower()}")
    except ModuleNotFoundError:
        na.append({"property_id": pid, "reason": "simulated check designed (DESIGN.md section 4) but not yet built in this round; not claimed"})
        continue
    if getattr(prop, "DISABLED", None):
        na.append({"property_id": pid, "reason": prop.DISABLED})
        continue
    checks.append(
        {
            "property_id": pid,
            "quick_cmd": f"cd /verif && /venv/bin/python -m dsim.check {pid} --tier quick",
            "thorough_cmd": f"cd /verif && /venv/bin/python -m dsim.check {pid} --tier thorough",
            "evidence_file": f"/verif/evidence/{pid}.json",
            "replay_cmd_template": "cd /verif && /venv/bin/python -m dsim.replay {path}",
            "engine": "dsim",
            "level_claimed": {
                "category": getattr(prop, "LEVEL", "exploration"),
                "text": prop.LEVEL_TEXT,
                "design_ref": f"DESIGN.md section 4 / {pid}",
            },
            "level_note": prop.LEVEL_NOTE,
            "technique": getattr(prop, "TECHNIQUE", "deterministic simulation with fault injection: seeded search over (history x program x fault placement) through the real bar loop, reference-model oracle, minimised replay"),
        }
    )

doc = {
    "version": 1,
    "setup_cmd": "cd /verif && /venv/bin/python -m dsim.selftest --quick",
    "hooks": {
        "guard": "DEMETER_VERIF",
        "enable": "no source hooks are needed: every seam (Strategy subclass, per-instance market wrappers, demeter.core.backtest.Pool module attribute, tqdm/logging) is reachable from Python; dsim sets DEMETER_VERIF=1 in its own processes only as a marker",
        "baseline_off_cmd": "cd /repo && /venv/bin/python -m pytest -q -p no:cacheprovider --timeout=900 --continue-on-collection-errors",
        "source_commits": HOOK_COMMITS,
        "add_only": True,
    },
    "engines": [
        {
            "name": "dsim",
            "path": "/verif/dsim",
            "serves_properties": [c["property_id"] for c in checks],
            "kind_free_text": "deterministic simulator: seeded worlds (market-data histories), scripted strategies executed by the real Actuator bar loop, hostile-history and rejection faults, executable reference oracles, ddmin minimiser, fresh-interpreter replay",
        }
    ],
    "checks": checks,
    "not_applicable": na,
    "notes": "exit 2 = HARNESS-ERROR (never a pass). VERIF_SEED selects the master seed; VERIF_TIER overrides --tier. Known findings: /verif/known_findings.json (read-only at run time).",
}
with open(os.path.join(os.path.dirname(os.path.dirname(os.path.abspath(__file__))), "MANIFEST.json"), "w") as f:
    json.dump(doc, f, indent=1)
print("claimed:", [c["property_id"] for c in checks])
print("not_applicable:", [n["property_id"] for n in na])
