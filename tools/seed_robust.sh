#!/bin/bash
# usage: tools/seed_robust.sh "<seeds>" <seeded-id>...   e.g. tools/seed_robust.sh "1 7" C13-F C02-E
# Runs the quick check of the property a seeded change was written against, under other master seeds, in a scratch
# worktree with the change applied (removed afterwards). Prints one line per (change, seed): exit code and violation classes.
SEEDS=$1; shift
WT=$(mktemp -d /tmp/robust-XXXXXX); rmdir $WT
git -C /repo worktree add -q --detach $WT HEAD || exit 9
trap 'git -C /repo worktree remove --force $WT; rm -rf /tmp/robust-replays-$$' EXIT
for sid in "$@"; do
  P=${sid%%-*}
  git -C $WT checkout -q -- . ; git -C $WT apply /verif/seeded/$sid/patch.diff || { echo "$sid PATCH-FAILS"; continue; }
  for s in $SEEDS; do
    out=$(cd /verif && VERIF_SEED=$s DSIM_REPO=$WT DSIM_REPLAY_DIR=/tmp/robust-replays-$$ timeout 900 /venv/bin/python -m dsim.check $P --tier quick --workers ${ROBUST_W:-8} --no-evidence 2>&1 | grep -E "^done")
    echo "$sid seed=$s $(echo $out | grep -o 'unlisted_violation_classes=[0-9]*') $(echo $out | grep -o 'exit=[0-9]*')"
  done
done
