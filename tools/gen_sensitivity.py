#!/venv/bin/python
"""Write /verif/reports/sensitivity.md from /verif/seeded/*/meta.json and /verif/reports/mutants-*.txt (sweep logs)."""
import glob, json, os, re
V = os.path.dirname(os.path.dirname(os.path.abspath(__file__)))
out = ["# Sensitivity of the checks", "", "## Breaking changes written by independent agents (`/verif/seeded/<id>/`)", "",
       "Each change was written by a fresh sub-agent that saw only the property text and its own scratch worktree of /repo "
       "(nothing from /verif). Kept only after `tools/seed_verify.sh` confirmed: the demonstration passes on the unchanged "
       "tree, the patch applies, the baseline suite is unchanged (111 passed / 52 failed), the demonstration fails with the "
       "patch. `caught` = the property's **quick** check (default seed) exits 1 on the patched tree.", "",
       "| id | property | what was changed | needs | quick check | first violation class |", "|---|---|---|---|---|---|"]
n = c = 0
for d in sorted(glob.glob(f"{V}/seeded/*/meta.json")):
    m = json.load(open(d))
    sid = os.path.basename(os.path.dirname(d))
    q = m["dsim_quick_check"]
    fv = q.get("first_violation") or ""
    mm = re.search(r"oracle=(\S+) site=(\S+)", fv)
    n += 1; c += 1 if q["caught"] else 0; c2 = globals().get("c2", 0) + (1 if (not q["caught"] and m.get("also_run_against")) else 0); globals()["c2"] = c2
    cell = lambda t: (t or "").replace("|", "/").replace("\n", " ")[:260]
    out.append(f"| {sid} | {m['property']} | {cell(m.get('summary'))} | {cell(m.get('needs'))} | {'**caught**' if q['caught'] else ('missed by this check; caught by ' + ', '.join(m.get('also_run_against', {})) + ' - ' + m.get('note', '') if m.get('also_run_against') else 'MISSED')} | {(mm.group(1) + ' / ' + mm.group(2)) if mm else ''} |")
out += ["", f"{c} of {n} caught by the quick check of the property they were written against, {globals().get('c2', 0)} more by the quick check of the property they actually violate.", ""]
out += ["## Hand-written and reverse-fix mutants (`/verif/mutants/`)", "",
        "`tools/mutants_all.sh` applies each patch to a scratch copy of /repo and runs the property's quick check there. "
        "`*-EQUIVALENT-*` / `*-MUSTNOTALARM-*` patches change nothing the property can see and must NOT be reported.", "",
        "| mutant | result | baseline tests with the mutant | first violation class |", "|---|---|---|---|"]
seen = {}
for f in sorted(glob.glob(f"{V}/reports/mutants-*.txt")):
    for line in open(f):
        mm = re.match(r"(\S+) (\S+) mutants/(\S+)\.patch tests=\[(.*?)\]\s*(.*)", line.strip())
        if mm:
            seen[mm.group(3)] = (mm.group(1), mm.group(2), mm.group(4), mm.group(5))
k = u = 0
for name in sorted(seen):
    res, flag, tests, viol = seen[name]
    k += 1; u += flag != "ok"
    out.append(f"| {name} | {res}{'' if flag == 'ok' else ' **(unexpected)**'} | {tests} | {viol} |")
out += ["", f"{k} mutants run, {u} with an unexpected result.", ""]
open(f"{V}/reports/sensitivity.md", "w").write("\n".join(out))
print(f"seeded {c}/{n} caught; mutants {k} run, {u} unexpected")
