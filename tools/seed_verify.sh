#!/bin/bash
# usage: tools/seed_verify.sh <ID> <A|B> [check args]
# Verifies an independently written breaking change (/tmp/seed-<ID>-out/{patch,demo,meta}_<k>) in the scratch worktree
# /tmp/seed-<ID>: demo passes unchanged, patch applies, baseline tests unchanged, demo fails with the patch; then runs
# the property's quick check against the patched worktree; stores everything under /verif/seeded/<ID>-<k>/; reverts.
ID=$1; K=$2; shift 2
P=${SEEDPFX:-seed}; WT=/tmp/$P-$ID; OUT=/tmp/$P-$ID-out; DEST=/verif/seeded/$ID-$K
cd $WT || exit 9
git checkout -q -- . ; git status --short | grep -v '^??' && { echo "worktree dirty"; exit 9; }
PYTHONPATH=$WT timeout 600 /venv/bin/python $OUT/demo_$K.py > /tmp/seed-demo0-$$.log 2>&1; d0=$?
git apply $OUT/patch_$K.diff || { echo "PATCH does not apply"; exit 9; }
t=$(/venv/bin/python -m pytest -q -p no:cacheprovider --timeout=900 --continue-on-collection-errors 2>&1 | tail -1)
PYTHONPATH=$WT timeout 600 /venv/bin/python $OUT/demo_$K.py > /tmp/seed-demo1-$$.log 2>&1; d1=$?
echo "demo_unchanged_exit=$d0 demo_changed_exit=$d1 tests=[$t]"
mkdir -p /tmp/seed-replays-$ID
cd /verif && DSIM_REPO=$WT DSIM_REPLAY_DIR=/tmp/seed-replays-$ID timeout 1500 /venv/bin/python -m dsim.check $ID --no-evidence "$@" 2>&1 | grep -v conda | grep -E "VIOLATION|HARNESS|KNOWN|done|oracle=" | cut -c1-500 > /tmp/seed-check-$$.log; c=${PIPESTATUS[0]}
cat /tmp/seed-check-$$.log; echo "CHECK-EXIT=$c"
cd $WT && git checkout -q -- . && git clean -fdq -e out
rm -rf /tmp/seed-replays-$ID
if [ $d0 = 0 ] && [ $d1 != 0 ] && echo "$t" | grep -q "52 failed, 111 passed"; then
  mkdir -p $DEST; cp $OUT/patch_$K.diff $DEST/patch.diff; cp $OUT/demo_$K.py $DEST/demo.py
  /venv/bin/python - "$ID" "$K" "$c" "$d0" "$d1" "$t" "/tmp/seed-check-$$.log" <<'P'
import json,sys
ID,K,c,d0,d1,t,logf=sys.argv[1:8]
m=json.load(open(f"/tmp/{__import__('os').environ.get('SEEDPFX','seed')}-{ID}-out/meta_{K}.json"))
first=[l.strip() for l in open(logf) if "oracle=" in l][:1]
meta={"property":ID,"origin":"independent sub-agent given only the property text and a scratch worktree","summary":m.get("summary"),"needs":m.get("needs"),"files":m.get("files"),
 "confirmed":{"baseline_tests_with_change":t,"demo_exit_unchanged":int(d0),"demo_exit_changed":int(d1),"how":"tools/seed_verify.sh: demo on the clean worktree, git apply, full pytest baseline, demo again"},
 "dsim_quick_check":{"cmd":f"DSIM_REPO=<worktree with patch> /venv/bin/python -m dsim.check {ID}","exit":int(c),"caught":int(c)==1,"first_violation":first[0] if first else None}}
json.dump(meta,open(f"/verif/seeded/{ID}-{K}/meta.json","w"),indent=1)
print("stored", f"/verif/seeded/{ID}-{K}", "caught" if int(c)==1 else "MISSED")
P
else echo "NOT-KEPT (demo/tests conditions not met)"; fi
