"""Process bootstrap: pin hash seed, import demeter from the /repo working tree, stub tqdm and logging.

Nothing here draws random numbers or reads a clock.
"""
import logging
import os
import sys

REPO = os.environ.get("DSIM_REPO", "/repo")
GUARD = "DEMETER_VERIF"


def ensure_hashseed():
    """Re-exec the interpreter with PYTHONHASHSEED=0 so that set/dict-of-str iteration order inside demeter
    (AaveV3Market._tokens, GmxMarket._tokens are sets of TokenInfo hashed by name) is the same in every process."""
    if os.environ.get("PYTHONHASHSEED") != os.environ.get("DSIM_HASHSEED", "0"):
        env = dict(os.environ)
        env["PYTHONHASHSEED"] = os.environ.get("DSIM_HASHSEED", "0")
        os.execve(sys.executable, [sys.executable] + _orig_argv(), env)


def _orig_argv():
    # python -m dsim.check ...  -> sys.argv[0] is a file path; rebuild "-m module" form
    main = sys.modules.get("__main__")
    spec = getattr(main, "__spec__", None)
    if spec is not None and spec.name:
        name = spec.name
        if name.endswith(".__main__"):
            name = name[: -len(".__main__")]
        return ["-m", name] + sys.argv[1:]
    return sys.argv


class FakeTqdm:
    def __init__(self, *a, **k):
        pass

    def __enter__(self):
        return self

    def __exit__(self, *a):
        return False

    def set_description(self, *a, **k):
        pass

    def update(self, *a, **k):
        pass


_done = False


def init():
    global _done
    if _done:
        return
    os.environ[GUARD] = "1"
    if REPO in sys.path:
        sys.path.remove(REPO)
    sys.path.insert(0, REPO)
    logging.disable(logging.CRITICAL)
    import demeter  # noqa

    real = os.path.realpath(demeter.__file__)
    if not real.startswith(os.path.realpath(REPO) + os.sep):
        raise RuntimeError(f"demeter imported from {real}, expected under {REPO}")
    import demeter.core.actuator as act

    act.tqdm = FakeTqdm
    logging.disable(logging.CRITICAL)
    global _decimal_context
    import decimal

    _decimal_context = decimal.getcontext().copy()  # as demeter's import left it (prec = 35)
    _done = True


_decimal_context = None


def reset_process_state():
    """Every scenario starts from the process state demeter's import left behind.  The only process-global state the
    simulated code can reach is the thread's Decimal context; without this reset a scenario's outcome could depend
    on which scenarios the same worker process ran before it (no replay), and a leak *inside* a scenario - e.g. a
    read-only helper that changes the global precision - could not be told from one inherited from an earlier run."""
    import decimal

    if _decimal_context is not None:
        decimal.setcontext(_decimal_context.copy())
