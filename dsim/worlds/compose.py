"""Cross-market world composer used by C01-C05: one broker, several markets, one price frame.

Families register themselves in FAMILIES when their module is importable; each entry provides
  gen(rng, name, n, prices, ctx) -> market world dict     (ctx: dict with token decimals etc.)
  ops(rng, mw, bar, ctx)         -> one random op dict (without bar/phase)
"""
import math
from decimal import Decimal

from . import uni as U

STABLE = ("USDC", "USDT", "DAI")
DECIMALS = {"USDC": 6, "USDT": 6, "DAI": 18, "WETH": 18, "WBTC": 8, "OSQTH": 18, "UNI": 18}
BASE_PRICE = {"WETH": 1800.0, "WBTC": 27000.0, "OSQTH": 110.0, "UNI": 6.0}


def gen_price_paths(rw, tokens, n, vol=0.004, shock=None):
    """dict token -> list of n floats (USD). shock=(bar, token, factor) applies a step change from that bar on."""
    out = {}
    for t in tokens:
        p = 1.0 if t in STABLE else BASE_PRICE.get(t, 10.0) * math.exp(rw.uniform(-0.5, 0.5))
        xs = []
        for i in range(n):
            step = rw.uniform(-vol, vol) * (0.02 if t in STABLE else 1.0)
            p *= 1 + step
            if shock and shock[1] == t and shock[0] == i:
                p *= shock[2]
            xs.append(p)
        out[t] = xs
    return out


def fmt(x) -> str:
    return format(Decimal(repr(round(float(x), 10))), "f")


def uni_from_prices(rw, name, n, t0, t1, quote, prices, fee=None):
    """uniswap market whose close ticks track the account prices: tick[i] ~ P_base[i+1]/P_quote[i+1]
    (the pool 'price' column of bar i is the previous bar's close)."""
    mw = U.gen_uni_market(rw, name, n, t0, t1, quote, fee=fee)
    b, q = U.base_quote(mw)
    t0q = quote == t0[0]
    ticks = []
    for i in range(n):
        j = min(n - 1, i + 1)
        pb = prices[b][j] / prices[q][j]
        ticks.append(U.tick_for_price(pb, t0[1], t1[1], t0q))
    mw["closeTick"] = ticks
    mw["currentLiquidity"] = [x if int(x) > 0 else "1000000000000" for x in mw["currentLiquidity"]]
    return mw
