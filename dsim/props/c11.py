"""C11 - Aave borrow / withdraw / collateral-flag limits and the reported risk figures follow the v3 definitions.

Real: preconditions of AaveV3Market.borrow / withdraw / change_collateral, health_factor / max_ltv /
liquidation_threshold, get_max_borrow_amount / get_max_withdraw_amount, inside Actuator.run.
Oracle: reference definitions in exact Fractions (dsim.ref.aave, DESIGN A.3) evaluated on the position book read
before each request; three-valued verdict (must accept / must reject / either inside a 1e-9 band around the threshold).
"""
import copy
from decimal import Decimal
from fractions import Fraction

from ..sim import Sim, Oracle
from ..worlds import aave as A
from ..ref import aave as RA
from ..ref.aave import F, fstr, BAND
from .. import rng as R

ID = "C11"
FIG_TOL = Fraction(1, 10**30)  # relative, on the three reported figures (Decimal precision is 35 digits)
HF_FLOOR_TOL = Fraction(1, 10**30)  # "health factor >= 1" after an accepted operation, same arithmetic allowance
PHASES = ["initialize", "before_bar", "trigger", "on_bar", "after_bar", "notify"]
KS = (2, 4, 6, 9, 12)


# --------------------------------------------------------------------------------------------------- generation
def generate(seed: int, tier: str = "quick") -> dict:
    rw, rp, rf = R.sub(seed, "world"), R.sub(seed, "program"), R.sub(seed, "faults")
    nb = rw.choice([6, 8, 12, 16, 24] if tier == "quick" else [8, 12, 16, 24, 40])
    world, mw = A.base_world(rw, nb, price_style=rw.choice([0.0, 0.001, 0.004, 0.01]))
    toks = mw["tokens"]
    # non-collateral tokens mostly carry LTV = LT = 0 as on chain
    for t in toks:
        r = mw["risk"][t]
        if not r["collateral"] and rw.random() < 0.8:
            r["ltv"], r["lt"] = 0, 0
    for t in toks:
        world["assets"][t] = "1000000"
    unit = {t: Decimal(1000) / Decimal(world["prices"][t][0]) for t in toks}
    program, faults = [], []
    build_end = max(1, nb // 3)

    def add(b, ph, opn, a, **extra):
        program.append(dict({"bar": b, "phase": "initialize" if b == -1 else PHASES[ph], "op": opn, "m": "aave0", "a": a}, **extra))

    # --- phase 1: portfolio (collateral and non-collateral supplies, several debts)
    for t in toks:
        if rp.random() < 0.85:
            flag = mw["risk"][t]["collateral"] and rp.random() < 0.8
            amt = Decimal(A.dstr(float(unit[t]) * rp.uniform(0.3, 8), rp.choice([2, 6, 18])))
            add(rp.randint(-1, build_end - 1), rp.choice([1, 2, 3]), "aave.supply", {"token": t, "amount": str(amt), "collateral": flag})
    if rf.random() < 0.15:  # borrow before anything is supplied: zero collateral
        add(-1, 0, "aave.borrow", {"token": rf.choice(toks), "amount": "1"})
        faults.append({"kind": "reject:borrow:no_collateral", "bar": -1})
    for _ in range(rp.choice([0, 1, 1, 2, 3])):
        t = rp.choice(toks)
        add(rp.randint(build_end, min(nb - 1, build_end + 2)), 3, "aave.borrow", {"token": t, "amount": {"f": "ref_max_borrow", "x": rp.choice(["0.2", "0.4", "0.6", "0.8", "0.95"])}})
    # --- phase 2: requests on and around the frontier, helper amounts, figure reads, flag changes
    first = min(nb - 1, build_end + 1)
    for _ in range(rp.choice([4, 6, 8, 12, 16])):
        b = rp.randint(first, nb - 1)
        ph = rp.choice([1, 2, 3, 3, 4])
        r = rp.random()
        sign = rp.choice([1, -1])
        k = rp.choice(KS)
        x = str(1 + sign * Decimal(10) ** -k)
        if r < 0.22:
            t = rp.choice(toks)
            add(b, ph, "aave.borrow", {"token": t, "amount": {"f": "ref_max_borrow", "x": x, "q": False}})
            faults.append({"kind": f"frontier:borrow:{'+' if sign > 0 else '-'}1e-{k}", "bar": b})
        elif r < 0.44:
            add(b, ph, "aave.withdraw", {"token": {"supplied": rp.randint(0, 3)}, "amount": {"f": "ref_max_withdraw", "x": x, "q": False}})
            faults.append({"kind": f"frontier:withdraw:{'+' if sign > 0 else '-'}1e-{k}", "bar": b})
        elif r < 0.56:
            tk = {"supplied": rp.randint(0, 3)}
            add(b, ph, "aave.read", {"view": "get_max_withdraw_amount", "token": tk})
            mode = rp.choice(["exact", "exact", "plus"])
            add(b, ph, "aave.withdraw", {"token": tk, "amount": {"f": "helper_max_withdraw", "x": "1" if mode == "exact" else "1.000001", "q": False}}, helper=mode)
        elif r < 0.64:
            t = rp.choice(toks)
            add(b, ph, "aave.read", {"view": "get_max_borrow_amount", "token": t})
            add(b, ph, "aave.borrow", {"token": t, "amount": {"f": "helper_max_borrow", "x": "1", "q": False}}, helper="exact")
        elif r < 0.76:
            add(b, ph, "aave.change_collateral", {"token": {"supplied": rp.randint(0, 3)}})
        elif r < 0.84:
            add(b, ph, "aave.read", {"view": rp.choice(["health_factor", "max_ltv", "liquidation_threshold"])})
        elif r < 0.90:
            t = rp.choice(toks)
            add(b, ph, "aave.supply", {"token": t, "amount": str(Decimal(A.dstr(float(unit[t]) * rp.uniform(0.1, 2), 6))), "collateral": mw["risk"][t]["collateral"]})
        elif r < 0.95:
            a = {"token": {"borrowed": rp.randint(0, 3)}, "amount": {"f": "debt", "x": rp.choice(["0.3", "0.7"])}}
            if rp.random() < 0.5:
                a["with_collateral"] = True
                if rp.random() < 0.7:
                    a["collateral_token"] = {"supplied": rp.randint(0, 3)}
            add(b, ph, "aave.repay", a)
        else:
            add(b, ph, "aave.withdraw", {"token": {"supplied": rp.randint(0, 3)}, "amount": rp.choice([None, {"f": "supply", "x": "0.5"}, {"f": "supply", "x": "1.2"}])})
    # same-bar sequences: borrow, partial repayment out of collateral (collateral shrinks), then a request on the
    # borrow frontier / a figure read / a frontier withdrawal - all before the next status refresh
    for _ in range(rp.choice([0, 0, 1, 1, 2])):
        b = rp.randint(first, nb - 1)
        ph = rp.choice([1, 2, 3, 3, 4])
        t = rp.choice(toks)
        add(b, ph, "aave.borrow", {"token": t, "amount": {"f": "ref_max_borrow", "x": rp.choice(["0.3", "0.5", "0.7"])}})
        ra = {"token": {"borrowed": rp.randint(0, 3)}, "amount": {"f": "debt", "x": rp.choice(["0.2", "0.5", "0.9"])}, "with_collateral": True,
              "collateral_token": {"supplied": rp.randint(0, 3)}}
        add(b, ph, "aave.repay", ra)
        sign, k = rp.choice([1, -1]), rp.choice(KS)
        x = str(1 + sign * Decimal(10) ** -k)
        follow = rp.choice(["borrow", "borrow", "withdraw", "read"])
        if follow == "borrow":
            add(b, ph, "aave.borrow", {"token": rp.choice(toks), "amount": {"f": "ref_max_borrow", "x": x, "q": False}})
        elif follow == "withdraw":
            add(b, ph, "aave.withdraw", {"token": {"supplied": rp.randint(0, 3)}, "amount": {"f": "ref_max_withdraw", "x": x, "q": False}})
        else:
            add(b, ph, "aave.read", {"view": rp.choice(["health_factor", "max_ltv", "liquidation_threshold"])})
        faults.append({"kind": "same_bar:borrow_repay_with_collateral_" + follow, "bar": b})
    rs_ = R.sub(seed, "stress")
    for _ in range(rs_.choice([0, 0, 0, 1, 2])):
        # what-if read: this bar's status handed to the market again with another price vector, figures read, prices put back
        fs = {t: rs_.choice(["0.5", "0.8", "0.97", "1.1", "2"]) for t in rs_.sample(toks, rs_.randint(1, len(toks)))}
        add(rs_.randint(first, nb - 1), rs_.choice([1, 3, 3, 4]), "aave.stress_read", {"factors": fs})
        faults.append({"kind": "status_of_the_bar_set_again_with_other_prices"})
    program = [p for _, p in sorted(enumerate(program), key=lambda e: (e[1]["bar"], PHASES.index(e[1]["phase"]), e[0]))]
    re_ = R.sub(seed, "edit_risk")
    if re_.random() < 0.12:
        # the risk-parameter table edited in place after the market was built (before run() is called, or at the head of a
        # bar): limits and figures follow the table as it is now
        cands = [t for t in toks if mw["risk"][t]["collateral"] and mw["risk"][t]["lt"] > 0]
        if cands:
            t = re_.choice(cands)
            f = re_.choice([0.85, 0.93, 1.04, 1.1])
            lt = max(200, min(9800, int(mw["risk"][t]["lt"] * f)))
            ltv = max(100, min(lt - 100, int(mw["risk"][t]["ltv"] * f)))
            eb = re_.choice([-2, -2, re_.randint(0, nb - 1)])
            e = {"bar": eb, "phase": "pre_run" if eb == -2 else "before_bar", "op": "aave.edit_risk", "m": "aave0", "a": {"token": t, "ltv": ltv, "lt": lt}}
            pos = 0 if eb == -2 else next((i for i, o in enumerate(program) if o["bar"] >= eb), len(program))
            program.insert(pos, e)
            faults.append({"kind": "risk_parameter_table_edited_in_place:" + ("before_run" if eb == -2 else "mid_run")})
    by = A.add_bystander(R.sub(seed, "bystander"), world)
    if by is not None:
        faults.append({"kind": "second_market_of_the_same_kind_registered_first"})
        if R.sub(seed, "bystander_busy").random() < 0.6:  # the second pool is in use too (positions, reads at the head of the bars)
            order = ["initialize", "before_bar", "trigger", "on_bar", "after_bar", "notify"]
            program = A.bystander_program(R.sub(seed, "bystander_ops"), world, by, nb) + program
            program = [p for _, p in sorted(enumerate(program), key=lambda e: (e[1]["bar"], order.index(e[1]["phase"]) if e[1]["phase"] in order else -1, e[0]))]
    return {"property": ID, "seed": seed, "world": world, "program": program, "faults": faults}


# --------------------------------------------------------------------------------------------------- oracle
class FrontierOracle(Oracle):
    def start(self, sim):
        self.m = sim.markets["aave0"]
        self.ref = RA.ref_for(sim, self.m)

    def _bar(self, sim):
        return max(sim.bar, 0)

    def before_op(self, sim, op):
        if op.get("m") not in (None, "aave0"):
            return  # an operation on the second pool: not this oracle\'s market
        self.st0 = RA.read_state(self.m)

    def _figures(self, sim, where):
        """reported HF / weighted max-LTV / weighted LT vs the definitions"""
        m, ref, bar = self.m, self.ref, self._bar(sim)
        st = RA.read_state(m)
        hf = ref.hf(st, bar)
        got = m.health_factor
        if hf is None:
            if got != Decimal("inf"):
                sim.violate("c11.figure", f"{where}:health_factor:no_debt_not_inf", got=str(got))
        elif not got.is_finite() or not RA.close(F(got), hf, FIG_TOL):
            sim.violate("c11.figure", f"{where}:health_factor", got=str(got), want=fstr(hf))
        if ref.total_coll(st, bar) > 0:  # weighted figures are defined for accounts with collateral
            for name, want in (("max_ltv", ref.max_ltv(st, bar)), ("liquidation_threshold", ref.lt_weighted(st, bar))):
                g = getattr(m, name)
                if not g.is_finite() or not RA.close(F(g), want, FIG_TOL):
                    sim.violate("c11.figure", f"{where}:{name}", got=str(g), want=fstr(want))
            sim.count("probe:figures_checked_with_collateral")

    def phase(self, sim, bar, phase, pos):
        if phase == "after_bar" and pos == "begin":
            self._figures(sim, "bar")

    def after_op(self, sim, op, outcome):
        if op.get("m") not in (None, "aave0"):
            return
        status = outcome["status"]
        if status == "skipped":
            return
        call = getattr(sim, "last_call", {})
        ref, bar, st0, m = self.ref, self._bar(sim), self.st0, self.m
        kind = op["op"].split(".", 1)[1]
        ok = status == "ok"
        if kind == "read":
            view, t = call["view"], call.get("token")
            v = sim.last_read[2] if ok else None
            if not ok:
                # a helper that raises is judged only where the property speaks: accounts with collateral, and (for the
                # withdraw helper, which divides by the token's LT) a token with a non-zero liquidation threshold
                judged = view in ("get_max_withdraw_amount", "get_max_borrow_amount") and ref.total_coll(st0, bar) > 0
                if view == "get_max_withdraw_amount" and ref.risk[t]["lt"] == 0:
                    judged = False
                if judged:
                    sim.violate("c11.helper", f"read:{view}:raised", exc=outcome.get("exc"), msg=outcome.get("msg"))
                else:
                    sim.count(f"probe:read_raised_unjudged:{view}")
                return
            if view == "get_max_withdraw_amount":
                bal = ref.sup_amount(st0, t, bar)
                sim.count("probe:helper_withdraw_read")
                if ref.total_coll(st0, bar) > 0 and F(v) > bal * (1 + FIG_TOL):
                    sim.violate("c11.helper", "read:get_max_withdraw_amount:exceeds_supplied", token=t, helper=str(v), supplied=fstr(bal), collateral=st0.sup[t][1], debt=fstr(ref.total_debt(st0, bar)))
            elif view == "get_max_borrow_amount":
                sim.count("probe:helper_borrow_read")
                # "helper amounts are themselves accepted": an amount below zero never is (the helper's answer to "nothing
                # more can be borrowed" is 0)
                if ref.total_coll(st0, bar) > 0 and v is not None and v == v and v < 0:
                    sim.violate("c11.helper", "read:get_max_borrow_amount:negative", token=t, helper=str(v), debt=fstr(ref.total_debt(st0, bar)))
            elif view in ("health_factor", "max_ltv", "liquidation_threshold"):
                self._figures(sim, f"read:{view}")
            return
        if kind == "stress_read":
            if ok:
                got = outcome["result"]
                ref.stress = {k: F(v) for k, v in call["factors"].items()}
                try:
                    hf = ref.hf(st0, bar)
                    g = got["health_factor"]
                    if hf is None:
                        if g != Decimal("inf"):
                            sim.violate("c11.figure", "stress_read:health_factor:no_debt_not_inf", got=str(g))
                    elif not g.is_finite() or not RA.close(F(g), hf, FIG_TOL):
                        sim.violate("c11.figure", "stress_read:health_factor", got=str(g), want=fstr(hf), factors=call["factors"])
                    if ref.total_coll(st0, bar) > 0:
                        for name, want in (("max_ltv", ref.max_ltv(st0, bar)), ("liquidation_threshold", ref.lt_weighted(st0, bar))):
                            if not got[name].is_finite() or not RA.close(F(got[name]), want, FIG_TOL):
                                sim.violate("c11.figure", f"stress_read:{name}", got=str(got[name]), want=fstr(want), factors=call["factors"])
                        sim.count("probe:stressed_figures_checked_with_collateral")
                finally:
                    ref.stress = None
            self._figures(sim, "stress_read:prices_put_back")
            return
        if kind not in ("borrow", "withdraw", "change_collateral"):
            self._figures(sim, kind)
            return
        t = call["token"]
        if kind == "borrow":
            x = call.get("amount")
            verdict, cause = ref.verdict_borrow(st0, t, x, bar)
        elif kind == "withdraw":
            x = call.get("amount")
            verdict, cause = ref.verdict_withdraw(st0, t, x, bar)
        else:
            x = call.get("flag")
            verdict, cause = ref.verdict_flag(st0, t, x, bar)
        sim.state((kind, verdict, cause, status))
        if not ok:
            sim.count(f"fault:reject:{kind}:{cause}")
        sim.count(f"probe:{kind}:{verdict}:{cause}:{status}")
        detail = dict(token=t, request=str(x), hf_before=fstr(ref.hf(st0, bar), 25), exc=outcome.get("exc"), msg=outcome.get("msg"), bar=bar)
        if kind == "borrow" and ref.max_borrow(st0, t, bar) is not None:
            detail["limit"] = fstr(ref.max_borrow(st0, t, bar))
        if kind == "withdraw" and t in st0.sup:
            detail["limit"] = fstr(ref.max_withdraw(st0, t, bar))
            detail["supplied"] = fstr(ref.sup_amount(st0, t, bar))
        if verdict == "accept" and not ok:
            sim.violate("c11.frontier", f"{kind}:must_accept:{cause}:rejected", **detail)
        elif verdict == "reject" and ok:
            sim.violate("c11.frontier", f"{kind}:must_reject:{cause}:accepted", **detail)
        # helper amounts are themselves accepted (accounts with collateral)
        helper = op.get("helper")
        if helper == "exact" and not ok and x is not None and F(x) > 0 and ref.total_coll(st0, bar) > 0:
            if kind == "withdraw" and t in st0.sup:
                bal = ref.sup_amount(st0, t, bar)
                hf0 = ref.hf(st0, bar)
                if F(x) > bal * (1 + FIG_TOL):
                    sim.violate("c11.helper", "withdraw:helper_amount_rejected:exceeds_supplied", **detail)
                elif hf0 is None or hf0 >= 1 + BAND or not st0.sup[t][1]:
                    sim.violate("c11.helper", "withdraw:helper_amount_rejected:hf_frontier", **detail)
            elif kind == "borrow" and ref.max_borrow(st0, t, bar) is not None:
                sim.violate("c11.helper", "borrow:helper_amount_rejected", **detail)
        if helper == "exact" and ok:
            sim.count(f"probe:helper_amount_accepted:{kind}")
        # after an accepted risk-increasing operation an account with debt has HF >= 1
        if ok and (kind == "borrow" or (kind == "withdraw" and t in st0.sup and st0.sup[t][1]) or (kind == "change_collateral" and x is False)):
            st1 = RA.read_state(m)
            hf1 = ref.hf(st1, bar)
            if hf1 is not None and hf1 < 1 - HF_FLOOR_TOL:
                sim.violate("c11.hf_floor", f"{kind}:accepted:hf_below_1", hf_after=fstr(hf1), **detail)
        self._figures(sim, kind)

    def finish(self, sim):
        if sim.crash is not None:
            where = "/".join(getattr(sim, "crash_where", [])[-1:])
            if "_liquidate" in where or "_do_liquidate" in where:
                sim.count("probe:crash_in_liquidation")  # C12's business
                return
            sim.violate("c11.crash", f"{type(sim.crash).__name__}@{where}", msg=str(sim.crash)[:200])


def execute(scenario) -> Sim:
    return Sim(scenario, FrontierOracle()).run()


def abstract(scenario, sim):
    return sim.states


def nontrivial(state) -> bool:
    kind, verdict, cause, status = state
    return verdict != "either" and cause not in ("not_supplied", "no_change")


def shrink_candidates(scenario):
    w = scenario["world"]
    for t, series in w["prices"].items():
        if len(set(series)) > 1:
            c = copy.deepcopy(scenario)
            c["world"]["prices"][t] = [series[0]] * len(series)
            yield c
    mw = A.market_of(w)
    for col in ("liquidity_index", "variable_borrow_index"):
        for t, series in mw.get(col, {}).items():
            if len(set(series)) > 1:
                c = copy.deepcopy(scenario)
                A.market_of(c["world"])[col][t] = [series[0]] * len(series)
                yield c
    for i, o in enumerate(scenario["program"]):
        a = o.get("a", {})
        if isinstance(a.get("amount"), dict) and a["amount"].get("f") in ("ref_max_borrow",) and a["amount"].get("x") not in ("0.5",) and not o.get("helper"):
            c = copy.deepcopy(scenario)
            c["program"][i]["a"]["amount"]["x"] = "0.5"
            yield c


RULE = (
    "one case = one borrow / withdraw / change_collateral request judged by the reference limits inside a seeded run of "
    "the real bar loop; distinct_nontrivial counts distinct (operation, reference verdict, deciding cause, real outcome) "
    "tuples whose verdict is must-accept or must-reject (not inside the 1e-9 band) on an existing position"
)
BUDGET = {"quick": {"runs": 2500, "wall": 60}, "thorough": {"runs": 100000, "wall": 1200}}
LEVEL = "exploration"
ASSUMPTIONS = [
    "three-valued frontier: requests within a relative 1e-9 band of a limit (balance, LTV cover, HF = 1) may be accepted or rejected",
    "weighted max-LTV and liquidation threshold are only checked for accounts with collateral (undefined otherwise)",
    "enabling the collateral flag on a token whose risk parameters forbid collateral use is not judged (the property does not say)",
    "zero and negative request amounts and requests on tokens that are not supplied are not judged; a helper amount of 0 (nothing can be borrowed / withdrawn) is not submitted as a request, a helper amount below 0 is a violation",
    "HF >= 1 is demanded after accepted borrow, collateral withdrawal and collateral-flag removal (the operations that can lower it)",
    "helper checks ('accepted', 'never exceeds what is supplied') apply to accounts with collateral value > 0; a withdraw helper read while HF < 1 is only held to 'not more than supplied'",
]
LEVEL_TEXT = (
    "seeded exploration: random portfolios (collateral and non-collateral supplies, several debts, random risk tables incl. "
    "LTV 0 and disabled flags) built by accepted operations over bars with moving prices and indices, then requests "
    "placed at limit x (1 +- 10^-k), k in {2,4,6,9,12}, the helper amounts themselves and helper x (1+1e-6), flag changes; "
    "every outcome is compared with a three-valued reference verdict, the reported figures with exact definitions. "
    "Sampling, not proof."
)
LEVEL_NOTE = (
    "trusted: the reference reading of the Aave v3 rules (DESIGN appendix A.3), Python Fraction/Decimal, generator reach "
    "(see reach_probes); histories are synthetic frames in the loader's output format"
)
