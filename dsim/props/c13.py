"""C13 - every derived Aave view always equals a from-scratch recomputation (no stale memoised view).

Real: the five DictCaches behind AaveV3Market.supplies / borrows / supplies_value / borrows_value / collateral_value and
everything derived from them, under any interleaving of reads with writes, rejected calls, bar changes and liquidations.
Oracle: every value returned by a read operation (and, in sweep runs, all views after every step) is recomputed in exact
Fractions from the position book (scaled amounts + flags) and the scenario's own index / rate / price rows.
"""
import copy
from decimal import Decimal
from fractions import Fraction

from ..sim import Sim, Oracle, op
from ..canon import D
from ..worlds import aave as A
from ..ref import aave as RA
from ..ref.aave import F, fstr
from .. import rng as R

ID = "C13"
REL = Fraction(1, 10**30)  # relative tolerance on Decimal views (35-digit arithmetic)
APY_ABS = Fraction(1, 10**24)  # (1 + r/N)^N with N = 31 536 000 amplifies the 35-digit rounding of the base to ~2e-27
QUANT = Fraction(1, 10**4)  # AaveBalance reports its totals / figures / APYs rounded to 1e-4
PHASES = ["initialize", "before_bar", "trigger", "on_bar", "after_bar", "notify"]
CACHES = ("_supplies_amount_cache", "_collaterals_amount_cache", "_borrows_amount_cache", "_supplies_cache", "_borrows_cache")
READ_VIEWS = A.PROPERTY_VIEWS + A.METHOD_VIEWS + ("get_supply", "get_borrow", "get_max_repay_amount", "get_max_borrow_amount", "get_max_withdraw_amount") + A.SIDE_VIEWS
SWEEP_VIEWS = A.PROPERTY_VIEWS + A.METHOD_VIEWS


@op("strat.scribble_snapshot_prices")
def _scribble(sim, market, a):
    """The strategy uses the price row it was handed as scratch space (a what-if: `snapshot.prices[token] /= 2`). What it
    does to its own copy of the bar's prices is its own business: the markets value positions at the bar's prices."""
    snap = sim.snapshot
    if snap is None:
        return None
    f = D(a.get("factor", "0.5"))

    def call():
        done = []
        for t in a.get("tokens", []):
            if t in snap.prices.index:
                snap.prices[t] = snap.prices[t] * f
                done.append(t)
        return done

    return call


# --------------------------------------------------------------------------------------------------- generation
def generate(seed: int, tier: str = "quick") -> dict:
    rw, rp, rf = R.sub(seed, "world"), R.sub(seed, "program"), R.sub(seed, "faults")
    nb = rw.choice([4, 6, 8, 12] if tier == "quick" else [6, 8, 12, 20, 30])
    interval = rw.choice(["1min"] * 6 + ["2min"])
    k = 2 if interval == "2min" else 1
    world, mw = A.base_world(rw, nb * k, interval=interval, all_enabled=rw.random() < 0.6, price_style=rw.choice([0.0, 0.002, 0.01]))
    toks = mw["tokens"]
    for t in toks:
        world["assets"][t] = "1000000"
    rz = R.sub(seed, "zero_threshold")
    for t in toks:  # reserves that cannot be collateral mostly carry LTV = threshold = 0 in the real tables
        if not mw["risk"][t]["collateral"] and rz.random() < 0.6:
            mw["risk"][t]["ltv"], mw["risk"][t]["lt"] = 0, 0
    unit = {t: Decimal(1000) / Decimal(world["prices"][t][0]) for t in toks}
    coll_flag = {t: (mw["risk"][t]["collateral"] and rp.random() < 0.8) for t in toks}
    program, faults = [], []

    def add(b, ph, opn, a):
        program.append({"bar": b, "phase": "initialize" if b == -1 else PHASES[ph], "op": opn, "m": "aave0", "a": a})

    def reads(b, ph, n):
        for _ in range(n):
            v = rp.choice(READ_VIEWS)
            a = {"view": v}
            if v in A.TOKEN_VIEWS:
                a["token"] = {"supplied": rp.randint(0, 3)} if v in ("get_supply", "get_max_withdraw_amount") else (
                    {"borrowed": rp.randint(0, 3)} if v in ("get_borrow", "get_max_repay_amount") else rp.choice(toks))
            add(b, ph, "aave.read", a)
            faults.append({"kind": "view_read", "bar": b})

    have_supply = False
    for b in range(-1, nb):
        if b >= 0 and rp.random() < 0.5:
            reads(b, 1, rp.randint(1, 3))  # right after the bar change
        for _ in range(rp.choice([0, 1, 1, 2, 3])):
            ph = 0 if b == -1 else rp.choice([1, 2, 3, 3, 4])
            r = rp.random()
            rej = rf.random() < 0.25
            if not have_supply or r < 0.25:
                t = rp.choice(toks)
                amt = Decimal(A.dstr(float(unit[t]) * rp.uniform(0.2, 5), rp.choice([2, 6, 18])))
                flag = coll_flag[t]
                if rej:
                    if rf.random() < 0.5:
                        flag = not flag
                    else:
                        amt = Decimal("100000000")
                    faults.append({"kind": "reject:supply", "bar": b})
                if not rej and have_supply and rp.random() < 0.06:
                    amt = Decimal(0)  # "supply what is left" when nothing is: accepted, opens (or leaves) an empty position
                    faults.append({"kind": "zero_amount_supply", "bar": b})
                add(b, ph, "aave.supply", {"token": t, "amount": str(amt), "collateral": flag})
                have_supply = True
            elif r < 0.45:
                t = rp.choice(toks)
                x = rp.choice(["0.2", "0.5", "0.8", "0.97"]) if not rej else rf.choice(["1.2", "30"])
                add(b, ph, "aave.borrow", {"token": t, "amount": {"f": "ref_max_borrow", "x": x}})
                if rej:
                    faults.append({"kind": "reject:borrow", "bar": b})
            elif r < 0.62:
                tk = {"supplied": rp.randint(0, 3)}
                if rej:
                    amt = rf.choice([{"f": "supply", "x": "1.5"}, {"f": "ref_max_withdraw", "x": "1.05"}, "0"])
                    faults.append({"kind": "reject:withdraw", "bar": b})
                else:
                    amt = rp.choice([None, {"f": "ref_max_withdraw", "x": "0.5"}, {"f": "ref_max_withdraw", "x": "0.9"}, {"f": "supply", "x": "0.1"}])
                add(b, ph, "aave.withdraw", {"token": tk, "amount": amt})
            elif r < 0.8:
                tk = {"borrowed": rp.randint(0, 3)}
                a = {"token": tk, "amount": rp.choice([None, {"f": "debt", "x": "0.3"}, {"f": "debt", "x": "0.7"}])}
                if rp.random() < 0.45:
                    a["with_collateral"] = True
                    if rp.random() < 0.7:
                        a["collateral_token"] = {"supplied": rp.randint(0, 3)}
                if rej:
                    a["amount"] = {"f": "debt", "x": "2"}
                    faults.append({"kind": "reject:repay", "bar": b})
                add(b, ph, "aave.repay", a)
            else:
                add(b, ph, "aave.change_collateral", {"token": {"supplied": rp.randint(0, 3)}})
            reads(b, ph, rp.randint(2, 6) if rp.random() < 0.8 else 0)
        if b >= 0 and rp.random() < 0.5:
            reads(b, 4, rp.randint(1, 3))  # after update(): sees liquidations
    # hostile history: a crash of some prices from a chosen bar (drives liquidations in runs that carry debt)
    if nb >= 3 and rf.random() < 0.5:
        bs = rf.randint(1, nb - 1)
        mult = Decimal(rf.choice(["0.85", "0.7", "0.5"]))
        for t in rf.sample(toks, rf.randint(1, len(toks) - 1)):
            s = world["prices"][t]
            for i in range(bs * k, len(s)):
                s[i] = A.dstr(Decimal(s[i]) * mult, 12)
        faults.append({"kind": "price_shock", "bar": bs})
    program = [p for _, p in sorted(enumerate(program), key=lambda e: (e[1]["bar"], PHASES.index(e[1]["phase"]), e[0]))]
    by = A.add_bystander(R.sub(seed, "bystander"), world)
    if by is not None:
        faults.append({"kind": "second_market_of_the_same_kind_registered_first"})
        if R.sub(seed, "bystander_busy").random() < 0.6:  # the second pool is in use too (positions, reads at the head of the bars)
            order = ["initialize", "before_bar", "trigger", "on_bar", "after_bar", "notify"]
            program = A.bystander_program(R.sub(seed, "bystander_ops"), world, by, nb) + program
            program = [p for _, p in sorted(enumerate(program), key=lambda e: (e[1]["bar"], order.index(e[1]["phase"]), e[0]))]
    rs_ = R.sub(seed, "scribble")
    if nb >= 2 and rs_.random() < 0.08:
        sb = rs_.randint(0, nb - 1)
        e = {"bar": sb, "phase": rs_.choice(["before_bar", "on_bar"]), "op": "strat.scribble_snapshot_prices", "m": None,
             "a": {"tokens": rs_.sample(toks, rs_.randint(1, len(toks))), "factor": rs_.choice(["0.5", "2", "0.9"])}}
        pos = next((i for i, o in enumerate(program) if (o["bar"], PHASES.index(o["phase"])) >= (sb, PHASES.index(e["phase"]))), len(program))
        program.insert(pos, e)
        faults.append({"kind": "strategy_overwrites_the_price_row_it_was_handed"})
    opts = {"sweep": rw.random() < 0.5}
    if R.sub(seed, "deepcopy").random() < 0.12:
        opts["deepcopy_markets"] = True  # the markets that run are deep copies of the configured ones (BacktestManager's way)
        faults.append({"kind": "markets_are_deep_copies_of_the_configured_ones"})
    if k == 1 and R.sub(seed, "direct_drive").random() < 0.08:
        # the market driven without Actuator.run(), the way demeter's unit tests do: every bar's status carries its data row -
        # a fresh row, or one row object the caller keeps and overwrites for each new bar
        opts["drive"] = R.sub(seed, "direct_drive_kind").choice(["direct", "direct_reuse_row"])
        program = [o for o in program if o["phase"] not in ("trigger", "notify")]
        faults.append({"kind": "market_driven_without_the_actuator:" + opts["drive"]})
    return {"property": ID, "seed": seed, "world": world, "program": program, "faults": faults, "opts": opts}


# --------------------------------------------------------------------------------------------------- oracle
def _num(x):
    """Decimal -> Fraction, or 'inf' / 'nan'"""
    if isinstance(x, Decimal):
        if x.is_nan():
            return "nan"
        if x.is_infinite():
            return "inf"
        return Fraction(x)
    return F(x)


class StaleOracle(Oracle):
    def __init__(self, sweep=False):
        self.sweep = sweep
        self.last_write = ("none", "-")
        self.mask_at_write = 0

    def start(self, sim):
        self.m = sim.markets["aave0"]
        self.ref = RA.ref_for(sim, self.m)
        self.n_actions = 0
        self.opcount = 0

    def _bar(self, sim):
        return max(sim.bar, 0)

    def _mask(self):
        bits = 0
        for i, c in enumerate(CACHES):
            cache = getattr(self.m, c, None)
            if cache is not None and not getattr(cache, "empty", True):
                bits |= 1 << i
        return bits

    # ---- expected values from scratch
    def expected(self, st, bar):
        ref = self.ref
        sv, cv, bv = ref.sup_values(st, bar), ref.coll_values(st, bar), ref.debt_values(st, bar)
        S, C, B = sum(sv.values(), Fraction(0)), sum(cv.values(), Fraction(0)), sum(bv.values(), Fraction(0))
        e = {"supplies_value": sv, "collateral_value": cv, "borrows_value": bv, "total_supply_value": S, "total_collateral_value": C, "total_borrows_value": B}
        e["health_factor"] = "inf" if B == 0 else ref.lt_sum(st, bar) / B
        e["ltv"] = "inf" if S == 0 else B / S
        e["max_ltv"] = "undef" if C == 0 else ref.ltv_sum(st, bar) / C
        e["liquidation_threshold"] = "undef" if C == 0 else ref.lt_sum(st, bar) / C
        apy_s = {t: F(ref.apy(ref.rate_s(t, bar))) for t in st.sup}
        apy_b = {t: F(ref.apy(ref.rate_b(t, bar))) for t in st.debt}
        sa = sum((sv[t] * apy_s[t] for t in sv), Fraction(0)) / S if S != 0 else Fraction(0)
        ba = sum((bv[t] * apy_b[t] for t in bv), Fraction(0)) / B if B != 0 else Fraction(0)
        e["supply_apy"], e["borrow_apy"] = sa, ba
        e["total_apy"] = (sa * S - ba * B) / (S - B) if S != B else Fraction(0)
        e["supplies"] = {t: {"base_amount": v[0], "collateral": v[1], "amount": v[0] * ref.Is(t, bar), "apy": apy_s[t], "value": sv[t]} for t, v in st.sup.items()}
        e["borrows"] = {t: {"base_amount": v, "amount": v * ref.Ib(t, bar), "apy": apy_b[t], "value": bv[t]} for t, v in st.debt.items()}
        return e

    # ---- comparison helpers
    def _bad(self, sim, view, field, got, want, **d):
        kind, status = self.last_write
        site = f"{view}{('.' + field) if field else ''}:after:{kind}:{status}"
        sim.violate("c13.stale", site, got=str(got), want=fstr(want) if isinstance(want, Fraction) else str(want), bar=self._bar(sim),
                    warm_caches_at_write=self.mask_at_write, **d)
        return False

    def _eq(self, sim, view, field, got, want, rel=REL, abs_=Fraction(0), **d):
        g = _num(got)
        if want == "inf":
            return True if g == "inf" else self._bad(sim, view, field, got, want, **d)
        if want == "undef":  # no collateral: the weighted figure is undefined; a finite positive number would be a leftover
            return True if (g in ("inf", "nan") or g == 0) else self._bad(sim, view, field, got, "undefined (no collateral)", **d)
        if g in ("inf", "nan"):
            return self._bad(sim, view, field, got, want, **d)
        return True if RA.close(g, want, rel, abs_) else self._bad(sim, view, field, got, want, **d)

    def _eq_map(self, sim, view, got, want, **kw):
        gk = sorted(k.name if hasattr(k, "name") else str(k) for k in got.keys())
        if gk != sorted(want):
            return self._bad(sim, view, "keys", gk, sorted(want))
        for k, v in got.items():
            name = k.name if hasattr(k, "name") else str(k)
            if not self._eq(sim, view, "", v, want[name], token=name, **kw):
                return False
        return True

    def _eq_pos(self, sim, view, got, want, token):
        for f, w in want.items():
            g = getattr(got, f)
            if f == "collateral":
                if bool(g) != bool(w):
                    return self._bad(sim, view, "collateral", g, w, token=token)
            elif f == "base_amount":
                if F(g) != w:
                    return self._bad(sim, view, "base_amount", g, w, token=token)
            elif not self._eq(sim, view, f, g, w, abs_=APY_ABS if f == "apy" else Fraction(0), token=token):
                return False
        if got.token.name != token:
            return self._bad(sim, view, "token", got.token.name, token)
        return True

    def check_view(self, sim, view, token, got, e, st, bar):
        ref = self.ref
        if view in ("supplies_value", "collateral_value", "borrows_value"):
            return self._eq_map(sim, view, got, e[view])
        if view in ("total_supply_value", "total_collateral_value", "total_borrows_value", "health_factor", "ltv", "max_ltv", "liquidation_threshold"):
            return self._eq(sim, view, "", got, e[view])
        if view in ("supply_apy", "borrow_apy"):
            return self._eq(sim, view, "", got, e[view], abs_=APY_ABS)
        if view == "total_apy":
            S, B = e["total_supply_value"], e["total_borrows_value"]
            if S != B and abs(S - B) * 10**6 < S + B:
                sim.count("probe:total_apy_ill_conditioned")
                return True
            cond = (S + B) / abs(S - B) if S != B else Fraction(1)
            return self._eq(sim, view, "", got, e[view], abs_=APY_ABS * cond)
        if view in ("supplies", "borrows"):
            gk = sorted(k.name for k in got.keys())
            if gk != sorted(e[view]):
                return self._bad(sim, view, "keys", gk, sorted(e[view]))
            for k, v in got.items():
                if not self._eq_pos(sim, view, v, e[view][k.name], k.name):
                    return False
            return True
        if view == "get_supply":
            return self._eq_pos(sim, view, got, e["supplies"][token], token)
        if view == "get_borrow":
            return self._eq_pos(sim, view, got, e["borrows"][token], token)
        if view == "get_max_repay_amount":
            return self._eq(sim, view, "", got, e["borrows"][token]["amount"])
        if view == "get_market_balance":
            S, B, C = e["total_supply_value"], e["total_borrows_value"], e["total_collateral_value"]
            if got.supplies_count != len(st.sup) or got.borrows_count != len(st.debt):
                return self._bad(sim, view, "counts", (got.supplies_count, got.borrows_count), (len(st.sup), len(st.debt)))
            for f, w in (("supplies_value", S), ("borrows_value", B), ("collaterals_value", C)):
                if not self._eq(sim, view, f, getattr(got, f), w, rel=Fraction(0), abs_=QUANT):
                    return False
            if not self._eq(sim, view, "net_value", got.net_value, S - B, rel=Fraction(0), abs_=2 * QUANT):
                return False
            for f in ("health_factor", "max_ltv", "liquidation_threshold"):
                if not self._eq(sim, view, f, getattr(got, f), e[f], rel=Fraction(0), abs_=QUANT):
                    return False
            if not self._eq(sim, view, "ltv", got.ltv, e["ltv"], abs_=Fraction(0)):
                return False
            for f in ("supply_apy", "borrow_apy"):
                if not self._eq(sim, view, f, getattr(got, f), e[f], rel=Fraction(0), abs_=QUANT):
                    return False
            if S != B and abs(S - B) * 10**3 > S + B:
                # net_apy is formed from the rounded figures: propagate their 1e-4 steps
                bound = QUANT * (S + B + abs(e["supply_apy"]) + abs(e["borrow_apy"]) + 1) / abs(S - B) + QUANT
                if not self._eq(sim, view, "net_apy", got.net_apy, e["total_apy"], rel=Fraction(0), abs_=bound):
                    return False
            return True
        return True  # get_max_borrow_amount / get_max_withdraw_amount: helpers, judged by C11 (read here only to warm caches)

    def _sweep(self, sim):
        m, bar = self.m, self._bar(sim)
        st = RA.read_state(m)
        e = self.expected(st, bar)
        views = SWEEP_VIEWS[self.opcount % len(SWEEP_VIEWS):] + SWEEP_VIEWS[: self.opcount % len(SWEEP_VIEWS)]
        for v in views:
            got = A.read_view(m, v)
            if isinstance(got, dict):
                got = dict(got)
            sim.state((self.mask_at_write, self.last_write[0], self.last_write[1], v))
            if not self.check_view(sim, v, None, got, e, st, bar):
                return

    # ---- hooks
    def phase(self, sim, bar, phase, pos):
        if phase == "notify" or pos != "begin":
            return
        if phase == "before_bar":
            self.mask_at_write = self._mask()
            self.last_write = ("new_bar", "-")
        elif phase == "after_bar":
            acts = sim.actuator.actions[self.n_actions:]
            if any(type(a).__name__ == "LiquidationAction" for a in acts):
                self.last_write = ("liquidation", "-")
                sim.count("fault:liquidation")
        self.n_actions = len(sim.actuator.actions)
        if self.sweep and phase in ("before_bar", "after_bar") and not sim.violations:
            self._sweep(sim)

    def before_op(self, sim, op):
        if op.get("m") not in (None, "aave0"):
            return  # an operation on the second pool: not this oracle\'s market
        self.n_actions_op = len(sim.actuator.actions)
        if op["op"] != "aave.read":
            self._mask_before = self._mask()

    def after_op(self, sim, op, outcome):
        if op.get("m") not in (None, "aave0"):
            return
        self.opcount += 1
        status = outcome["status"]
        if status == "skipped":
            return
        call = getattr(sim, "last_call", {})
        if sim.violations:
            return
        if op["op"] == "aave.read":
            if status != "ok":
                sim.count("probe:read_raised:" + call.get("view", "?"))
                return
            view, token, got = sim.last_read
            bar = self._bar(sim)
            st = RA.read_state(self.m)
            sim.state((self.mask_at_write, self.last_write[0], self.last_write[1], view))
            sim.count("fault:view_read")
            self.check_view(sim, view, token, got, self.expected(st, bar), st, bar)
            return
        kind = op["op"].split(".", 1)[1]
        if kind == "repay" and call.get("with_collateral"):
            kind = "repay_with_collateral"
        if kind in ("supply", "withdraw", "borrow", "repay", "repay_with_collateral", "change_collateral"):
            self.last_write = (kind, status)
            self.mask_at_write = self._mask_before
            sim.count(f"probe:write:{kind}:{status}")
        if self.sweep:
            self._sweep(sim)

    def finish(self, sim):
        if sim.crash is not None:
            where = "/".join(getattr(sim, "crash_where", [])[-1:])
            if "_liquidate" in where:
                sim.count("probe:crash_in_liquidation")  # C12's business
                return
            sim.violate("c13.crash", f"{type(sim.crash).__name__}@{where}", msg=str(sim.crash)[:200])


def execute(scenario) -> Sim:
    return Sim(scenario, StaleOracle(sweep=bool(scenario.get("opts", {}).get("sweep")))).run()


def abstract(scenario, sim):
    return sim.states


def nontrivial(state) -> bool:
    mask, kind, status, view = state
    return mask != 0 and kind not in ("none",)


def shrink_candidates(scenario):
    if scenario.get("opts", {}).get("sweep"):
        c = copy.deepcopy(scenario)
        c["opts"]["sweep"] = False
        yield c
    w = scenario["world"]
    for t, series in w["prices"].items():
        if len(set(series)) > 1:
            c = copy.deepcopy(scenario)
            c["world"]["prices"][t] = [series[0]] * len(series)
            yield c
    mw = A.market_of(w)
    for col in ("liquidity_rate", "variable_borrow_rate", "stable_borrow_rate"):
        for t, series in mw.get(col, {}).items():
            if any(x != "0" for x in series):
                c = copy.deepcopy(scenario)
                for tt in A.market_of(c["world"])[col]:
                    A.market_of(c["world"])[col][tt] = ["0"] * len(series)
                yield c
                break


RULE = (
    "one case = one read of a derived view compared with its from-scratch recomputation inside a seeded run; "
    "distinct_nontrivial counts distinct (bitmask of the five caches that were warm when the last write ran, last write "
    "kind incl. new_bar / liquidation, its outcome, view read) tuples with at least one warm cache"
)
BUDGET = {"quick": {"runs": 1500, "wall": 60}, "thorough": {"runs": 60000, "wall": 1200}}
LEVEL = "exploration"
ASSUMPTIONS = [
    "positions are read as (scaled amount, collateral flag) from the market's position dicts so that observing never warms or resets a cache; the cache 'empty' flags are read only for the coverage measure",
    "weighted max-LTV / liquidation threshold without collateral are undefined: any of inf / NaN / 0 is accepted there",
    "ltv is the view's own definition (total debt value / total supply value, inf without supplies); total_apy = (supply_apy*S - borrow_apy*B)/(S-B), skipped when |S-B| < 1e-6 (S+B)",
    "APYs are compared to 1e-24 absolute; AaveBalance fields to its 1e-4 rounding step (net_apy with the propagated bound, skipped when |S-B| < 1e-3 (S+B))",
    "get_max_borrow_amount / get_max_withdraw_amount are issued as reads (they touch the caches) but their values are judged by C11, not here",
    "the first violation of a run ends that run's checking (later differences would be echoes)",
]
LEVEL_TEXT = (
    "seeded exploration: programs in which reads of 20 public views are operations, placed before / after every kind of "
    "write (supply, withdraw, borrow, repay with cash and with collateral, change_collateral, rejected variants of each), "
    "across bar changes and price-shock liquidations, 1-2 min bars; half of the runs additionally sweep all 16 views after "
    "every step; each value is recomputed from the position book and the scenario's rows. Sampling, not proof."
)
LEVEL_NOTE = (
    "trusted: the recomputation formulas (DESIGN appendix A.3 and the views' documented definitions), Python "
    "Fraction/Decimal, generator reach (see reach_probes); histories are synthetic frames in the loader's output format"
)
