for p in C01 C02 C03 C05 C14 C08 C09 C18 C19; do
  VERIF_SEED=${SOAK_SEED:-202} timeout 1500 /venv/bin/python -m dsim.check $p --tier thorough --workers ${SOAK_W:-4} --wall ${SOAK_WALL:-700} --no-evidence 2>&1 | grep -v conda | grep -E "VIOLATION|HARNESS|KNOWN|done|oracle=" | cut -c1-600
done
