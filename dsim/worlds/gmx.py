"""GMX worlds: v1 (GLP, `kind: gmx1`) and v2 (GM, `kind: gmx2`).

Builders feed the real `GmxMarket` / `GmxV2Market` with frames in the loaders' output format:

* v1: the generated rows are rendered to CSV text and parsed with exactly the `read_csv` call of
  `demeter.gmx.helper.load_gmx_v1_data` (same converters), so dtype inference is the loader's own: Decimal for
  glp / aum / glp_price / weth_price / wavax_price, object columns of python ints for 1e30-scaled prices and USDG
  amounts, int64 weights, float64 `interval`. (The loader's CacheManager/feather step is not exercised.)
* v2: ten float64 columns, as `load_gmx_v2_data` produces.

Per-run oracles read their own copy of the state through `v1_state` / `v2_state` (scenario numbers, never the frame).
"""
import io
import math
from decimal import Decimal, ROUND_DOWN, Context
from fractions import Fraction

import numpy as np
import pandas as pd

from ..sim import market_builder, op, amount, HarnessError, AMOUNT_RESOLVERS
from ..canon import D
from ..ref import gmx as R

from demeter import MarketInfo, TokenInfo
from demeter.broker import MarketTypeEnum
from demeter.gmx import GmxMarket, GmxV2Market
from demeter.gmx._typing2 import GmxV2Pool
from demeter.gmx.gmx_v2 import PoolConfig
from demeter.utils import to_decimal

# GLP basket of the recorded Avalanche data (name -> decimals, recorded weight)
GLP_CATALOGUE = {"WETH": 18, "WAVAX": 18, "BTC.B": 8, "WBTC": 8, "MIM": 18, "USDC.E": 6, "USDC": 6}
RECORDED_WEIGHTS = {"WETH": 20000, "WAVAX": 10000, "BTC.B": 20000, "WBTC": 3000, "MIM": 1, "USDC.E": 1000, "USDC": 46000}
BASE_PRICE = {"WETH": 2629.059, "WAVAX": 29.07, "BTC.B": 66066.487, "WBTC": 66066.487, "MIM": 1.0, "USDC.E": 1.0, "USDC": 1.0}
STABLES = ("MIM", "USDC.E", "USDC")
V2_COLUMNS = ["longAmount", "shortAmount", "virtualSwapInventoryLong", "virtualSwapInventoryShort", "poolValue",
              "marketTokensSupply", "impactPoolAmount", "longPrice", "shortPrice", "indexPrice"]
V2_CONFIG_FIELDS = ("swapImpactFactorPositive", "swapImpactFactorNegative", "depositFeeFactorForPositiveImpact",
                    "depositFeeFactorForNegativeImpact", "withdrawFeeFactorForPositiveImpact", "withdrawFeeFactorForNegativeImpact")
# GMX ETH/USD market parameters (on-chain configuration; the ones DESIGN A.6 quotes for the fees)
V2_DEFAULT_CONFIG = {"swapImpactFactorPositive": repr(2e-10), "swapImpactFactorNegative": repr(4e-10),
                     "depositFeeFactorForPositiveImpact": repr(0.0005), "depositFeeFactorForNegativeImpact": repr(0.0007),
                     "withdrawFeeFactorForPositiveImpact": repr(0.0005), "withdrawFeeFactorForNegativeImpact": repr(0.0007)}
UINT64_MAX = 2**64 - 1
_WIDE = Context(prec=120)


# ================================================================================================== builders
def _ts(index):
    return [t.strftime("%Y-%m-%d %H:%M:%S") for t in index]


def v1_csv(mw, index) -> str:
    toks = list(mw["tokens"].keys())
    low = [t.lower() for t in toks]
    cols = ["glp"] + [f"{t}_price" for t in low]
    for t in low:
        cols += [f"{t}_pool", f"{t}_reserved", f"{t}_usdg", f"{t}_guaranteed"]
    cols += ["interval"] + [f"{t}_weight" for t in low] + ["usdg", "aum", "glp_price"]
    lines = ["," + ",".join(cols)]
    stamps = _ts(index)
    n = len(index)
    for i in range(n):
        glp, aum = int(mw["glp"][i]), int(mw["aum"][i])
        row = [str(glp)]
        row += [str(int(mw["price"][t][i])) for t in toks]
        for t in toks:
            dec = int(mw["tokens"][t])
            usdg = int(mw["usdg_amounts"][t][i])
            price = int(mw["price"][t][i])
            pool = usdg * 10**dec * R.PRICE_PRECISION // (price * 10**18) if price else 0
            # the recorded files carry pool/reserved of 6- and 8-decimal tokens in float notation
            if dec < 18:
                row += [f"{pool}.0", f"{pool // 3}.0"]
            else:
                row += [str(pool), str(pool // 3)]
            row += [str(usdg), "0" if t in STABLES else str(usdg * 10**12 // 2)]
        row += [repr(float(mw["interval"][i]))]
        row += [str(int(mw["weight"][t][i])) for t in toks]
        glp_price = (Decimal(aum) / Decimal(10**12) / Decimal(glp)) if glp else Decimal(0)
        row += [str(int(mw["usdg"][i])), str(aum), format(glp_price, ".16g")]
        lines.append(stamps[i] + "," + ",".join(row))
    return "\n".join(lines) + "\n"


def v1_frame(mw, index) -> pd.DataFrame:
    text = v1_csv(mw, index)
    return pd.read_csv(
        io.StringIO(text), index_col=0, parse_dates=True,
        converters={"glp_price": to_decimal, "weth_price": to_decimal, "wavax_price": to_decimal, "glp": to_decimal, "aum": to_decimal},
    )


@market_builder("gmx1")
def build_gmx1(sim, mw):
    toks = [sim.token(t) for t in mw["tokens"]]
    for t, d in mw["tokens"].items():
        if int(sim.world["tokens"][t]) != int(d):
            raise HarnessError(f"token {t}: world decimals differ from market decimals")
    key = MarketInfo(mw["name"], MarketTypeEnum.gmx_v1)
    market = GmxMarket(key, tokens=toks)
    for t in mw.get("registered_again", []):  # add_token with a token the market already knows (an equal TokenInfo, a new object)
        market.add_token(TokenInfo(str(t).lower() if len(mw["registered_again"]) % 2 else str(t), int(mw["tokens"][t])))
    market.data = v1_frame(mw, sim.index)
    sim.mdata[mw["name"]] = {"mw": mw, "kind": "gmx1"}
    return market


def v2_frame(mw, index) -> pd.DataFrame:
    return pd.DataFrame({c: np.array([float(x) for x in mw[c]], dtype="float64") for c in V2_COLUMNS}, index=index)


def v2_config_of(mw) -> dict:
    cfg = dict(V2_DEFAULT_CONFIG)
    cfg.update(mw.get("config") or {})
    return cfg


@market_builder("gmx2")
def build_gmx2(sim, mw):
    if sim.world.get("interval", "1min") not in ("1min", "1T", "min") and not sim.world.get("allow_gmx2_resample"):
        raise HarnessError("gmx2 worlds run at the 1-minute interval only (GmxV2Market._resample uses a pandas API that does not exist)")
    lt, st, it = sim.token(mw["long"]), sim.token(mw["short"]), sim.token(mw.get("index", mw["long"]))
    key = MarketInfo(mw["name"], MarketTypeEnum.gmx_v2)
    market = GmxV2Market(key, GmxV2Pool(lt, st, it))
    cfg = v2_config_of(mw)
    # market configuration is an input of the world ("configurations" quantifier)
    if mw.get("config_how") == "in_place":
        # the user adjusts the factors on the configuration object the market came with, field by field
        for k in V2_CONFIG_FIELDS:
            setattr(market.pool_config, k, float(cfg[k]))
    else:
        market.pool_config = PoolConfig(lt.decimal, st.decimal, **{k: float(cfg[k]) for k in V2_CONFIG_FIELDS})
    market.data = v2_frame(mw, sim.index)
    sim.mdata[mw["name"]] = {"mw": mw, "kind": "gmx2"}
    return market


# ================================================================================================== own copies
def v1_state(mw, row: int) -> R.V1State:
    toks = mw["tokens"]
    return R.V1State(
        glp_supply=mw["glp"][row], aum=mw["aum"][row], usdg_supply=mw["usdg"][row],
        weights={t: mw["weight"][t][row] for t in toks}, usdg={t: mw["usdg_amounts"][t][row] for t in toks},
        price={t: mw["price"][t][row] for t in toks}, decimals=toks,
    )


def v1_interval(mw, row: int) -> Fraction:
    return Fraction(float(mw["interval"][row]))


def v2_state(mw, row: int) -> R.V2State:
    f = lambda c: None if float(mw[c][row]) != float(mw[c][row]) else Fraction(float(mw[c][row]))
    return R.V2State(f("longAmount"), f("shortAmount"), f("virtualSwapInventoryLong"), f("virtualSwapInventoryShort"),
                     f("poolValue"), f("marketTokensSupply"), f("impactPoolAmount"), f("longPrice"), f("shortPrice"))


def v2_config(mw) -> R.V2Config:
    c = v2_config_of(mw)
    F = lambda k: Fraction(float(c[k]))
    return R.V2Config(F("swapImpactFactorPositive"), F("swapImpactFactorNegative"), F("depositFeeFactorForPositiveImpact"),
                      F("depositFeeFactorForNegativeImpact"), F("withdrawFeeFactorForPositiveImpact"), F("withdrawFeeFactorForNegativeImpact"))


def bar_labels(world):
    """Bar labels of the run and, per label, the raw minute rows in it (bins aligned to midnight, like pandas)."""
    iv = world.get("interval", "1min")
    iv = iv if iv[0].isdigit() else "1" + iv
    k = int(pd.Timedelta(iv) / pd.Timedelta("1min"))
    start = pd.Timestamp(world["start"])
    rows = {}
    for i in range(int(world["n"])):
        ts = start + pd.Timedelta(minutes=i)
        mins = ts.hour * 60 + ts.minute
        lab = ts.normalize() + pd.Timedelta(minutes=(mins // k) * k)
        rows.setdefault(lab, []).append(i)
    labels = sorted(rows)
    return labels, [rows[l] for l in labels], k


# ================================================================================================== operations
def _scratch(sim):
    s = getattr(sim, "_gmx", None)
    if s is None:
        s = sim._gmx = {"last_mint": {}, "call": None}
    return s


def _q(x: Decimal, decimals: int) -> Decimal:
    """Amounts are handed over in whole smallest units (a chain cannot take a fraction of a wei)."""
    return Decimal(x).quantize(Decimal(1).scaleb(-int(decimals)), rounding=ROUND_DOWN, context=_WIDE)


def _holding(sim, what, spec):
    m = sim.markets[what]
    return Decimal(m.glp_amount) if hasattr(m, "glp_amount") else Decimal(repr(float(m.amount)))


def _last_mint(sim, what, spec):
    v = _scratch(sim)["last_mint"].get(what)
    if v is None:
        return Decimal(0)
    return v if isinstance(v, Decimal) else Decimal(repr(float(v)))


def _plus(spec):
    """{"f": ..., "x": ..., "plus": c}: a constant added to the resolved amount (oversize recipes need it when nothing is held)."""
    return D(spec["plus"]) if isinstance(spec, dict) and "plus" in spec else Decimal(0)


AMOUNT_RESOLVERS["held"] = _holding
AMOUNT_RESOLVERS["lastmint"] = _last_mint


@op("gmx1.buy_glp")
def _buy_glp(sim, m, a):
    tok = sim.token(a["token"])
    amt = _q(amount(sim, a.get("amount")), tok.decimal)
    name = m.market_info.name
    _scratch(sim)["call"] = {"op": "buy", "m": name, "token": tok.name, "amount": amt}

    def call():
        res = m.buy_glp(tok, amt)
        _scratch(sim)["last_mint"][name] = res
        return res

    return call


@op("gmx1.sell_glp")
def _sell_glp(sim, m, a):
    tok = sim.token(a["token"])
    spec = a.get("amount")
    name = m.market_info.name
    if spec is None:  # the API's "sell everything" form
        _scratch(sim)["call"] = {"op": "sell", "m": name, "token": tok.name, "amount": None}
        return lambda: m.sell_glp(tok)
    amt = _q(amount(sim, spec) + _plus(spec), R.GLP_DECIMALS)
    if amt == 0:  # sell_glp treats 0 as "everything"; keep the two forms apart
        _scratch(sim)["call"] = {"op": "sell", "m": name, "token": tok.name, "amount": None}
        return lambda: m.sell_glp(tok, amt)
    _scratch(sim)["call"] = {"op": "sell", "m": name, "token": tok.name, "amount": amt}
    return lambda: m.sell_glp(tok, amt)


@op("gmx1.fee_bps")
def _fee_bps(sim, m, a):
    tok = sim.token(a["token"])
    usdg_wei = Decimal(int(_q(amount(sim, a.get("usdg")), 18) * 10**18))
    inc = bool(a.get("increase", True))
    _scratch(sim)["call"] = {"op": "fee", "m": m.market_info.name, "token": tok.name, "usdg_wei": int(usdg_wei), "increase": inc}
    return lambda: m.get_fee_basis_points(tok, usdg_wei, inc)


@op("gmx1.read_balance")
def _read1(sim, m, a):
    _scratch(sim)["call"] = {"op": "read", "m": m.market_info.name}
    return lambda: m.get_market_balance()


@op("gmx2.deposit")
def _deposit(sim, m, a):
    la = _q(amount(sim, a.get("long"), Decimal(0)), m.long_token.decimal)
    sa = _q(amount(sim, a.get("short"), Decimal(0)), m.short_token.decimal)
    name = m.market_info.name
    _scratch(sim)["call"] = {"op": "deposit", "m": name, "long": la, "short": sa}

    def call():
        res = m.deposit(la, sa)
        _scratch(sim)["last_mint"][name] = res.gm_amount
        return res

    return call


@op("gmx2.withdraw")
def _withdraw(sim, m, a):
    spec = a.get("amount")
    name = m.market_info.name
    if spec is None:
        _scratch(sim)["call"] = {"op": "withdraw", "m": name, "amount": None}
        return lambda: m.withdraw()
    amt = float(amount(sim, spec) + _plus(spec))
    _scratch(sim)["call"] = {"op": "withdraw", "m": name, "amount": amt}
    return lambda: m.withdraw(amt)


@op("gmx2.read_balance")
def _read2(sim, m, a):
    _scratch(sim)["call"] = {"op": "read", "m": m.market_info.name}
    return lambda: m.get_market_balance()


# ================================================================================================== generation
def _sig(x: float, digits=12) -> str:
    """decimal string with `digits` significant digits (exactly representable in the scenario and in 1e30 fixed point)."""
    if x == 0:
        return "0"
    return format(Decimal(f"{x:.{digits}g}"), "f")


def gen_gmx_prices(rng, n, tokens, style=None):
    """Price paths (decimal strings) for GMX tokens: stables near/at 1, the rest geometric walks around recorded levels."""
    out = {}
    style = style or rng.choice(["calm", "calm", "moving", "flat"])
    for t in tokens:
        base = BASE_PRICE.get(t, 100.0)
        if t in STABLES:
            p0 = rng.choice([1.0, 1.0, 1.0, 0.9996, 1.0003])
            vol = 0.0 if rng.random() < 0.7 else 2e-5
        else:
            p0 = base * math.exp(rng.uniform(-0.7, 0.7))
            vol = {"calm": 3e-4, "moving": 4e-3, "flat": 0.0}[style]
        path, p = [], p0
        for _ in range(n):
            path.append(_sig(p))
            if vol:
                p *= math.exp(rng.gauss(0, vol))
        out[t] = path
    # BTC.B and WBTC are the same asset
    if "BTC.B" in out and "WBTC" in out:
        out["WBTC"] = list(out["BTC.B"])
    return out


DEV_CLASSES = ("under_far", "under", "on_exact", "on_near", "over", "over_far", "zero")


def _regime_cuts(rng, n):
    k = rng.choice([1, 1, 2, 3, 4])
    cuts = sorted(set([0] + [rng.randrange(n) for _ in range(k - 1)]))
    return cuts


def gen_gmx1_market(rng, name, n, prices, tokens=None, **opts):
    """GLP pool history consistent with `prices` (token -> n prices). Sweeps, per regime and token: weight (incl. 0),
    USDG amount relative to target (zero / under / exactly on / over / far over), AUM vs USDG, GLP price (AUM/supply),
    reward emission. Always contains WETH and WAVAX (the loader's Decimal columns) and >= 1 token with 6 or 8 decimals."""
    toks = dict(tokens) if tokens else {t: GLP_CATALOGUE[t] for t in prices if t in GLP_CATALOGUE}
    if "WETH" not in toks or "WAVAX" not in toks or not any(d != 18 for d in toks.values()):
        raise HarnessError("gmx1 world needs WETH, WAVAX and at least one token with decimals != 18")
    names = list(toks)
    price_int = {t: [int(D(prices[t][i] if not isinstance(prices[t][i], float) else repr(prices[t][i])) * R.PRICE_PRECISION) for i in range(n)] for t in names}
    cuts = _regime_cuts(rng, n)
    glp, aum, usdg_total, interval = [], [], [], []
    weight = {t: [] for t in names}
    usdg_amt = {t: [] for t in names}
    devs = {}
    reg = None
    for i in range(n):
        if i in cuts:
            U6 = int(10 ** rng.uniform(3.3, 9.0) * 10**6)  # USDG supply in 1e-6 units
            wstyle = rng.choice(["recorded", "recorded", "random", "equal"])
            w = {}
            for t in names:
                w[t] = RECORDED_WEIGHTS.get(t, 1000) if wstyle == "recorded" else (rng.randint(1, 50000) if wstyle == "random" else 10000)
            if rng.random() < 0.45:  # a de-listed token: target weight 0
                z = rng.choice(names)
                if sum(v for k, v in w.items() if k != z) > 0:
                    w[z] = 0
            tw = sum(w.values())
            dev = {t: rng.choice(DEV_CLASSES) for t in names}
            base_usdg = {}
            for t in names:
                target6 = w[t] * U6 // tw
                c = dev[t]
                if w[t] == 0:
                    u6 = rng.choice([0, int(10 ** rng.uniform(1, 5) * 10**6)])
                elif c == "zero":
                    u6 = 0
                elif c == "under_far":
                    u6 = int(target6 * rng.uniform(0.02, 0.5))
                elif c == "under":
                    u6 = int(target6 * rng.uniform(0.5, 0.995))
                elif c == "on_exact":
                    u6 = target6
                elif c == "on_near":
                    u6 = max(0, target6 + rng.randint(-5, 5))
                elif c == "over":
                    u6 = int(target6 * rng.uniform(1.005, 2.0))
                else:
                    u6 = int(target6 * rng.uniform(2.0, 12.0))
                base_usdg[t] = u6
            aum6 = int(U6 * rng.uniform(0.7, 1.4))
            gp = rng.choice([1.0, rng.uniform(0.8, 1.3), rng.uniform(0.8, 1.3), rng.uniform(0.8, 1.3), 10 ** rng.uniform(-2, -0.5), 10 ** rng.uniform(0.5, 2)])
            glp_wei = max(10**18, int(Decimal(aum6) / Decimal(10**6) / Decimal(repr(gp)) * 10**18))
            emission = rng.choice([0.0, 789480314626619.0, float(int(10 ** rng.uniform(12, 17)))])
            reg = {"U6": U6, "w": w, "usdg6": base_usdg, "aum6": aum6, "glp": glp_wei, "em": emission, "jit": rng.random() < 0.6}
            devs[i] = dict(dev)
        jit = reg["jit"]
        U6 = reg["U6"] + (rng.randint(-reg["U6"] // 1000, reg["U6"] // 1000) if jit else 0)
        usdg_total.append(str(U6 * 10**12))
        a6 = reg["aum6"] + (rng.randint(-reg["aum6"] // 200, reg["aum6"] // 200) if jit else 0)
        aum.append(str(a6 * 10**24))
        glp.append(str(reg["glp"] + (rng.randint(0, reg["glp"] // 500) if jit else 0)))
        interval.append(repr(reg["em"]))
        for t in names:
            weight[t].append(reg["w"][t])
            u6 = reg["usdg6"][t]
            if jit and u6 > 1000 and rng.random() < 0.5:
                u6 += rng.randint(-u6 // 100, u6 // 100)
            usdg_amt[t].append(str(u6 * 10**12))
    # loader-dtype carve-out: a USDG column whose every value fits (u)int64 is inferred as int64 / uint64 and the market
    # dies with Decimal(numpy.int64) - a loader accident outside C17; keep >= 1 row above 2**64 like every recorded column
    for t in names:
        if max(int(x) for x in usdg_amt[t]) <= UINT64_MAX:
            usdg_amt[t][n - 1] = str((20 + rng.randint(0, 80)) * 10**18)
    return {
        "kind": "gmx1", "name": name, "tokens": toks, "glp": glp, "aum": aum, "usdg": usdg_total, "interval": interval,
        "price": {t: [str(x) for x in price_int[t]] for t in names}, "usdg_amounts": usdg_amt, "weight": weight,
    }


BALANCE_CLASSES = ("balanced_exact", "balanced_near", "long_heavy", "short_heavy", "long_extreme", "short_extreme")


def gen_gmx2_market(rng, name, n, prices, long="WETH", short="USDC", index=None, config=None, **opts):
    """GM pool history consistent with `prices`: both balance sides (long-/short-heavy, near and exactly balanced, extreme),
    pool value vs. token value, GM price, impact pool from 0 to large, virtual inventory agreeing / disagreeing with the pool."""
    index = index or long
    cuts = _regime_cuts(rng, n)
    cols = {c: [] for c in V2_COLUMNS}
    reg = None
    for i in range(n):
        pl = float(D(prices[long][i] if not isinstance(prices[long][i], float) else repr(prices[long][i])))
        ps = float(D(prices[short][i] if not isinstance(prices[short][i], float) else repr(prices[short][i])))
        pi = float(D(prices[index][i] if not isinstance(prices[index][i], float) else repr(prices[index][i])))
        if i in cuts:
            total = 10 ** rng.uniform(4, 9.5)
            bc = rng.choice(BALANCE_CLASSES)
            ratio = {"balanced_exact": 1.0, "balanced_near": 1 + rng.uniform(-2e-4, 2e-4), "long_heavy": rng.uniform(1.05, 4),
                     "short_heavy": 1 / rng.uniform(1.05, 4), "long_extreme": rng.uniform(20, 500), "short_extreme": 1 / rng.uniform(20, 500)}[bc]
            a = total * ratio / (1 + ratio)
            b = total - a
            vstyle = rng.choice(["scaled", "scaled", "same", "opposite", "huge"])
            if vstyle == "scaled":
                va, vb = a * rng.uniform(1.05, 1.3), b * rng.uniform(1.05, 1.3)
            elif vstyle == "same":
                va, vb = a, b
            elif vstyle == "opposite":
                va, vb = b * rng.uniform(0.8, 1.5), a * rng.uniform(0.8, 1.5)
            else:
                va, vb = a * rng.uniform(5, 50), b * rng.uniform(5, 50)
            reg = {"a": a, "b": b, "va": va, "vb": vb, "pv": rng.uniform(0.6, 1.3), "gm": rng.choice([1.0, rng.uniform(0.7, 2.5), rng.uniform(0.7, 2.5), 10 ** rng.uniform(-1, 1)]),
                   "ip": rng.choice([0.0, 0.0, 1e-9, 1e-3, 0.5, 50.0, 742.7887947216316, 1e5]), "jit": rng.random() < 0.6, "exact": bc == "balanced_exact"}
        j = (lambda: 1 + rng.uniform(-2e-3, 2e-3)) if reg["jit"] and not reg["exact"] else (lambda: 1.0)
        a, b = reg["a"] * j(), reg["b"] * j()
        la, sa = a / pl, b / ps
        if reg["exact"]:  # make long USD == short USD as floats see it, where possible
            sa = (la * pl) / ps
        pv = (la * pl + sa * ps) * reg["pv"]
        vals = [la, sa, reg["va"] * j() / pl, reg["vb"] * j() / ps, pv, pv / reg["gm"], reg["ip"], pl, ps, pi]
        for c, v in zip(V2_COLUMNS, vals):
            cols[c].append(repr(float(v)))
    mw = {"kind": "gmx2", "name": name, "long": long, "short": short, "index": index}
    if config:
        mw["config"] = dict(config)
        if rng.random() < 0.35:
            mw["config_how"] = "in_place"  # factors set field by field on the market's own configuration object
    mw.update(cols)
    if opts.get("no_virtual_inventory"):
        # a market without virtual inventory: the two cells are empty in the file, i.e. NaN in the frame
        mw["virtualSwapInventoryLong"] = ["nan"] * n
        mw["virtualSwapInventoryShort"] = ["nan"] * n
    return mw


def gen_gmx2_config(rng):
    """Mostly the recorded configuration; sometimes other legal parameter sets (incl. positive factor > negative, which
    the protocol clamps, and a zero positive factor)."""
    if rng.random() < 0.65:
        return None
    fneg = rng.choice([4e-10, 1e-9, 5e-9, 2e-8])
    fpos = rng.choice([fneg / 2, fneg, fneg * 2, 0.0, 2e-10])
    fee_pos = rng.choice([0.0005, 0.0002, 0.0])
    fee_neg = rng.choice([0.0007, 0.0007, 0.001, fee_pos])
    # withdrawal fee factors of their own (on chain they are separate keys; the recorded market happens to use equal values)
    wfee_pos = rng.choice([fee_pos, 0.0003, 0.001, 0.0])
    wfee_neg = rng.choice([fee_neg, 0.0025, 0.0004, wfee_pos])
    return {"swapImpactFactorPositive": repr(fpos), "swapImpactFactorNegative": repr(fneg),
            "depositFeeFactorForPositiveImpact": repr(fee_pos), "depositFeeFactorForNegativeImpact": repr(fee_neg),
            "withdrawFeeFactorForPositiveImpact": repr(wfee_pos), "withdrawFeeFactorForNegativeImpact": repr(wfee_neg)}
