"""Aave v3 world: per-token minute frames (Decimal, MultiIndex columns (TOKEN, col)) fed through the market's own
`set_token_data`, a generated risk-parameter CSV loaded by the repo's real `load_risk_parameter`, the real
`AaveV3Market`, and the operation vocabulary (five writes + every public derived view as a read operation).

market world = {"kind": "aave", "name": ..., "tokens": [names],
                "risk": {TOKEN: {"ltv": bp, "lt": bp, "bonus": bp(>10000), "collateral": bool, "borrow": bool}},
                "liquidity_index" | "variable_borrow_index" | "liquidity_rate" | "variable_borrow_rate" |
                "stable_borrow_rate": {TOKEN: [n decimal strings]}}
"""
import os
from decimal import Decimal

import pandas as pd

from ..sim import market_builder, op, HarnessError, private_cwd
from ..canon import D

from demeter import MarketInfo
from demeter.broker import MarketTypeEnum
from demeter.aave import AaveV3Market

COLS = ("liquidity_rate", "stable_borrow_rate", "variable_borrow_rate", "liquidity_index", "variable_borrow_index")
Q18 = Decimal("0.000000000000000001")

CSV_HEADER = (
    "underlyingAsset,name,symbol,decimals,baseLTVasCollateral,reserveLiquidationThreshold,reserveLiquidationBonus,"
    "reserveFactor,usageAsCollateralEnabled,borrowingEnabled,isActive,isFrozen,variableRateSlope1,variableRateSlope2,"
    "baseVariableBorrowRate,optimalUsageRatio,flashLoanEnabled,borrowCap,supplyCap,borrowableInIsolation"
)


def write_risk_csv(path, tokens, risk, decimals):
    """A config.fyi-style csv with the columns load_risk_parameter selects (basis points / ray, as downloaded)."""
    lines = [CSV_HEADER]
    for i, t in enumerate(tokens):
        r = risk[t]
        # both USD coins are listed under the symbol USDC; the loader tells them apart by the reserve name
        name = "USD Coin" if t == "USDC" else ("USD Coin (PoS)" if t == "USDC.E" else t)
        sym = "USDC" if t == "USDC.E" else t
        lines.append(
            ",".join(
                str(x)
                for x in (
                    "0x%040x" % (i + 1), name, sym, decimals.get(t, 18), int(r["ltv"]), int(r["lt"]), int(r["bonus"]), 1000,
                    bool(r["collateral"]), bool(r["borrow"]), True, False, 40000000000000000000000000,
                    800000000000000000000000000, 0, 900000000000000000000000000, True, 1000000, 2000000, bool(r["borrow"]),
                )
            )
        )
    with open(path, "w") as f:
        f.write("\n".join(lines) + "\n")


@market_builder("aave")
def build_aave(sim, mw):
    tmp = private_cwd()
    # one path for every market of the process, rewritten before each load: a loader that remembers what it parsed for a
    # path hands a later market the parameters of an earlier one
    path = os.path.join(tmp, "risk-parameters.csv")
    tokens = [t.upper() for t in mw["tokens"]]
    # two markets of one run that use the same table load the same FILE (written once, not touched in between); a market
    # with another table finds the file rewritten
    sig = repr((tokens, sorted((t, sorted(r.items())) for t, r in mw["risk"].items())))
    if getattr(sim, "_risk_file_sig", None) != sig or not os.path.exists(path):
        write_risk_csv(path, tokens, mw["risk"], sim.world.get("tokens", {}))
        sim._risk_file_sig = sig
    infos = [sim.token(t) for t in tokens]
    market = AaveV3Market(MarketInfo(mw["name"], MarketTypeEnum.aave_v3), path, tokens=infos)  # real load_risk_parameter
    if mw is sim.world["markets"][-1] or not any(m_.get("kind") == "aave" for m_ in sim.world["markets"][sim.world["markets"].index(mw) + 1:]):
        os.unlink(path)  # the last lending market of the world has loaded: nothing is left behind for the next scenario
        sim._risk_file_sig = None
    n = len(sim.index)
    if mw.get("via_files"):
        _load_through_files(sim, mw, market, tokens, tmp)
        sim.mdata[mw["name"]] = {"mw": mw, "tokens": tokens}
        return market
    for t, info in zip(tokens, infos):
        cols = {}
        # the per-token frames name their columns; in which order a caller's frame lists them is the caller's business
        # (a database export, a frame sorted by label, a dict built indices first)
        order = {"sorted": sorted(COLS), "reversed": list(reversed(COLS)), "indices_first": list(COLS[3:]) + list(COLS[:3])}.get(mw.get("col_order"), COLS)
        for c in order:
            series = mw.get(c, {}).get(t)
            if series is None:
                series = ["0" if c.endswith("rate") else "1"] * n
            if len(series) != n:
                raise HarnessError(f"aave series {c}/{t} has length {len(series)}, world n={n}")
            cols[c] = [str(x) for x in series]  # csv cells; set_token_data maps them through to_decimal
        df = pd.DataFrame(cols, index=sim.index)
        df.index.name = "block_timestamp"
        if mw.get("row_order") == "newest_half_first" and len(df) >= 2:
            # the files joined in an order of the caller's making: rows keep their own timestamps, only their order differs
            h = max(1, len(df) // 2)
            df = pd.concat([df.iloc[h:], df.iloc[:h]])
        market.set_token_data(info, df)  # real: Decimal conversion + (TOKEN, col) MultiIndex columns
    sim.mdata[mw["name"]] = {"mw": mw, "tokens": tokens}
    return market


def _load_through_files(sim, mw, market, tokens, tmp):
    """The market's minute rows written as demeter-fetch day files, one set per token, and read back through the REAL loader
    (AaveV3Market.load_data -> load_aave_data: read_csv with Decimal converters, per-token column blocks), with the loader's
    feather cache pointed at a private empty directory."""
    import shutil
    import tempfile

    import demeter.data.data_cache as DC
    from demeter import ChainType, TokenInfo

    root = tempfile.mkdtemp(prefix="aave-files-", dir=tmp)
    saved = (DC.CACHE_PATH, DC.CACHE_CONFIG_PATH)
    try:
        DC.CACHE_PATH = os.path.join(root, "cache")
        DC.CACHE_CONFIG_PATH = os.path.join(DC.CACHE_PATH, "config.pkl")
        n = len(sim.index)
        infos = []
        for t in tokens:
            info = TokenInfo(t, int(sim.world["tokens"][t]), "0x" + t.lower())
            infos.append(info)
            days = {}
            for i, ts in enumerate(sim.index):
                row = [str(ts)]
                for c in COLS:
                    series = mw.get(c, {}).get(t)
                    row.append(str(series[i]) if series is not None else ("0" if c.endswith("rate") else "1"))
                days.setdefault(ts.date(), []).append(",".join(row))
            d, d1 = sim.index[0].date(), sim.index[-1].date()
            while d <= d1:
                with open(os.path.join(root, f"polygon-aave_v3-{info.address}-{d.strftime('%Y-%m-%d')}.minute.csv"), "w") as f:
                    f.write("block_timestamp," + ",".join(COLS) + "\n" + "\n".join(days.get(d, [])) + "\n")
                d += pd.Timedelta(days=1).to_pytimedelta()
        market.data_path = root
        market.load_data(ChainType.polygon, infos, sim.index[0].date(), sim.index[-1].date())
    finally:
        DC.CACHE_PATH, DC.CACHE_CONFIG_PATH = saved
        shutil.rmtree(root, ignore_errors=True)


# ------------------------------------------------------------------------------------------------- arg helpers
def q18(x: Decimal) -> Decimal:
    """No token has more than 18 decimals: requested amounts are given to the protocol in at most 18 places."""
    return x.quantize(Q18) if x == x and x.is_finite() else x


def resolve_amount(sim, m, spec, token=None):
    """None -> None (the API's 'everything'); "12.5" / {"abs": ..} literal; {"f": base, "x": k[, "q": false]} where base in
    wallet:T | supply:T | debt:T | helper_max_withdraw:T | helper_max_borrow:T | ref_max_withdraw:T | ref_max_borrow:T
    (ref_* are the *oracle's* limits computed by dsim.ref.aave from public position state and the scenario's numbers).
    Returns "skip" when the base does not exist (no such supply ...)."""
    if spec is None:
        return None
    if isinstance(spec, (str, int, float)):
        return D(spec)
    if "abs" in spec:
        return D(spec["abs"])
    kind, _, what = spec["f"].partition(":")
    what = (what or token or "").upper()
    x = D(spec.get("x", 1))
    tok = sim.token(what)
    if kind == "wallet":
        base = sim.broker.assets[tok].balance if tok in sim.broker.assets else Decimal(0)
    elif kind == "supply":
        if tok not in m.supply_keys:
            return "skip"
        base = m.get_supply(tok).amount
    elif kind == "debt":
        if tok not in m.borrow_keys:
            return "skip"
        base = m.get_borrow(tok).amount
    elif kind == "helper_max_withdraw":
        if tok not in m.supply_keys:
            return "skip"
        try:
            base = m.get_max_withdraw_amount(tok)
        except Exception:  # the helper itself failed (e.g. a collateral token with LT = 0): nothing to request
            sim.count("probe:helper_raised_in_resolver")
            return "skip"
    elif kind == "helper_max_borrow":
        try:
            base = m.get_max_borrow_amount(tok)
        except Exception:  # no collateral: inf * 0 inside the helper
            sim.count("probe:helper_raised_in_resolver")
            return "skip"
    elif kind in ("ref_max_withdraw", "ref_max_borrow"):
        from ..ref import aave as RA

        ref = RA.ref_for(sim, m)
        st = RA.read_state(m)
        bar = max(sim.bar, 0)
        lim = ref.max_withdraw(st, what, bar) if kind == "ref_max_withdraw" else ref.max_borrow(st, what, bar)
        if lim is None:
            return "skip"
        base = RA.to_dec(lim)
    else:
        raise HarnessError(f"unknown aave amount base {spec['f']}")
    v = base * x
    if not v.is_finite():
        return "skip"
    return q18(v) if spec.get("q", True) else v


def _tok(sim, m, a, key="token"):
    """token name, or {"supplied": i} / {"borrowed": i} -> i-th key of the live position lists (None if empty)."""
    t = a.get(key)
    if isinstance(t, dict):
        if "supplied" in t:
            ks = m.supply_keys
            return ks[int(t["supplied"]) % len(ks)] if ks else None
        if "borrowed" in t:
            ks = m.borrow_keys
            return ks[int(t["borrowed"]) % len(ks)] if ks else None
        raise HarnessError(f"bad token spec {t}")
    return sim.token(t)


# ------------------------------------------------------------------------------------------------- write ops
@op("aave.supply")
def _supply(sim, m, a):
    t = _tok(sim, m, a)
    if t is None:
        return None
    amt = resolve_amount(sim, m, a.get("amount"), t.name)
    if isinstance(amt, str) or amt is None:
        return None
    coll = bool(a.get("collateral", True))
    sim.last_call = {"token": t.name, "amount": amt, "collateral": coll}
    return lambda: m.supply(t, amt, coll)


@op("aave.withdraw")
def _withdraw(sim, m, a):
    t = _tok(sim, m, a)
    if t is None:
        return None
    amt = resolve_amount(sim, m, a.get("amount"), t.name)
    if isinstance(amt, str):
        return None
    sim.last_call = {"token": t.name, "amount": amt}
    if amt is None:
        return lambda: m.withdraw(t)
    return lambda: m.withdraw(t, amt)


@op("aave.borrow")
def _borrow(sim, m, a):
    t = _tok(sim, m, a)
    if t is None:
        return None
    amt = resolve_amount(sim, m, a.get("amount"), t.name)
    if isinstance(amt, str):
        return None
    sim.last_call = {"token": t.name, "amount": amt}
    if amt is None:
        return lambda: m.borrow(t)
    return lambda: m.borrow(t, amt)


@op("aave.repay")
def _repay(sim, m, a):
    t = _tok(sim, m, a)
    if t is None:
        return None
    amt = resolve_amount(sim, m, a.get("amount"), t.name)
    if isinstance(amt, str):
        return None
    sim.last_call = {"token": t.name, "amount": amt, "with_collateral": bool(a.get("with_collateral")), "collateral_token": None}
    kw = {}
    if a.get("with_collateral"):
        kw["repay_with_collateral"] = True
        if a.get("collateral_token") is not None:
            ct = _tok(sim, m, a, "collateral_token")
            if ct is None:
                return None
            kw["repay_collateral_token"] = ct
            sim.last_call["collateral_token"] = ct.name
    elif a.get("named_token") is not None:
        # a cash repayment that also names a collateral token: documented as ignored without repay_with_collateral
        ct = _tok(sim, m, a, "named_token")
        if ct is not None:
            kw["repay_collateral_token"] = ct
    return lambda: m.repay(t, amt, **kw)


@op("aave.change_collateral")
def _change(sim, m, a):
    t = _tok(sim, m, a)
    if t is None:
        return None
    if "collateral" in a:
        flag = bool(a["collateral"])
    else:  # toggle
        if t not in m.supply_keys:
            flag = True
        else:
            flag = not m.get_supply(t).collateral
    sim.last_call = {"token": t.name, "flag": flag}
    return lambda: m.change_collateral(t, flag)


# ------------------------------------------------------------------------------------------------- read ops
PROPERTY_VIEWS = (
    "supplies", "borrows", "supplies_value", "borrows_value", "collateral_value", "total_supply_value",
    "total_collateral_value", "total_borrows_value", "health_factor", "ltv", "max_ltv", "liquidation_threshold",
    "supply_apy", "borrow_apy", "total_apy",
)
METHOD_VIEWS = ("get_market_balance",)
TOKEN_VIEWS = ("get_supply", "get_borrow", "get_max_borrow_amount", "get_max_withdraw_amount", "get_max_repay_amount")
SIDE_VIEWS = ("formatted_str",)  # read-only helpers whose own value is not judged: they must leave the views alone
ALL_VIEWS = PROPERTY_VIEWS + METHOD_VIEWS + TOKEN_VIEWS


def read_view(m, view, token=None):
    """Raw (un-canonicalised) value of one public view."""
    if view in PROPERTY_VIEWS:
        return getattr(m, view)
    if view in METHOD_VIEWS:
        return getattr(m, view)()
    if view in TOKEN_VIEWS:
        return getattr(m, view)(token)
    if view in SIDE_VIEWS:
        getattr(m, view)()
        return None
    raise HarnessError(f"unknown aave view {view}")


@op("aave.read")
def _read(sim, m, a):
    view = a["view"]
    t = None
    if view in TOKEN_VIEWS:
        t = _tok(sim, m, a)
        if t is None:
            return None
        if view in ("get_supply", "get_max_withdraw_amount") and t not in m.supply_keys:
            return None
        if view in ("get_borrow", "get_max_repay_amount") and t not in m.borrow_keys:
            return None
    sim.last_call = {"view": view, "token": None if t is None else t.name}

    def thunk():
        v = read_view(m, view, t)
        sim.last_read = (view, None if t is None else t.name, v)
        if isinstance(v, dict):  # snapshot the dict now: the cache object behind it may be mutated later
            v = dict(v)
            sim.last_read = (view, None if t is None else t.name, v)
        return v

    return thunk


@op("aave.stress_read")
def _stress_read(sim, m, a):
    """a strategy looks at its account under a stressed price vector: it hands the market this bar's status again with other
    prices (public set_market_status, no data row: the market looks its own row up), reads the figures, and puts the real
    prices back"""
    from demeter.broker import MarketStatus

    factors = {k.upper(): D(v) for k, v in a.get("factors", {}).items()}
    sim.last_call = {"factors": {k: str(v) for k, v in factors.items()}}

    def thunk():
        ts = sim.actuator._currents.timestamp
        real = sim.prices_now()
        stressed = real.copy()
        for t, f in factors.items():
            if t in stressed.index:
                stressed[t] = stressed[t] * f
        m.set_market_status(MarketStatus(ts, None), stressed)
        try:
            out = {"health_factor": m.health_factor, "max_ltv": m.max_ltv, "liquidation_threshold": m.liquidation_threshold,
                   "net_value": m.get_market_balance().net_value}
        finally:
            m.set_market_status(MarketStatus(ts, None), real)
        return out

    return thunk


@op("aave.edit_risk")
def _edit_risk(sim, m, a):
    """The user edits the market's risk-parameter table in place (`market.risk_parameters.loc[...] = ...`): the csv is today's
    snapshot, a back test over an earlier period wants the LTV / liquidation threshold of that time. The reference model's
    table follows the edit (harness side, after the real edit went through)."""
    from fractions import Fraction

    from ..ref import aave as RA

    t = a["token"].upper()
    ltv, lt = int(a["ltv"]), int(a["lt"])
    bonus = a.get("bonus")  # basis points above 10000, as in the file

    def thunk():
        rp_ = m.risk_parameters
        rp_.loc[t, "baseLTVasCollateral"] = D(ltv) / D(10000)
        rp_.loc[t, "reserveLiquidationThreshold"] = D(lt) / D(10000)
        RA.ref_for(sim, m).risk[t].update(ltv=Fraction(ltv, 10000), lt=Fraction(lt, 10000))
        if bonus is not None:
            rp_.loc[t, "reserveLiquidationBonus"] = D(int(bonus) - 10000) / D(10000)
            RA.ref_for(sim, m).risk[t].update(bonus=Fraction(int(bonus) - 10000, 10000))
        return [t, ltv, lt, bonus]

    return thunk


@op("broker.add")
def _wallet_add(sim, m, a):
    t = sim.token(a["token"])
    amt = D(a["amount"])
    return lambda: sim.broker.add_to_balance(t, amt) and None


@op("broker.drain_to")
def _wallet_drain(sim, m, a):
    """lower the wallet balance of a token to x times its current debt (or supply): a legitimate wallet operation that
    makes the next cash repay / supply of that token short"""
    t = _tok(sim, m, a)
    if t is None:
        return None
    target = resolve_amount(sim, m, a.get("amount"), t.name)
    if isinstance(target, str) or target is None:
        return None
    bal = sim.broker.assets[t].balance if t in sim.broker.assets else Decimal(0)
    if bal <= target:
        return None
    cut = bal - target
    return lambda: sim.broker.subtract_from_balance(t, cut) and None


# ------------------------------------------------------------------------------------------------- generation
# USDC.E: the bridged coin, listed in the risk-parameter file under the symbol USDC too (told apart by its name)
TOKENS = (("WETH", 18), ("USDC", 6), ("WBTC", 8), ("DAI", 18), ("USDT", 6), ("LINK", 18), ("WMATIC", 18), ("USDC.E", 6))
BASE_PRICE = {"WETH": 1800.0, "USDC": 1.0, "WBTC": 29000.0, "DAI": 0.999, "USDT": 1.001, "LINK": 7.3, "WMATIC": 0.57, "USDC.E": 1.0002}


def dstr(x, places=27) -> str:
    """Decimal string with at most `places` decimals (indices and rates are rays on chain: 27 places)."""
    s = format(Decimal(repr(float(x))) if isinstance(x, float) else Decimal(x), "f")
    d = Decimal(s).quantize(Decimal(1).scaleb(-places))
    s = format(d, "f")
    return s.rstrip("0").rstrip(".") if "." in s else s


def gen_prices(rng, tokens, n, style=None):
    """Per-token price paths (strings), random walk around a base price scaled so that no price is 1."""
    out = {}
    for t in tokens:
        p = BASE_PRICE.get(t, 10.0) * rng.uniform(0.6, 1.6)
        vol = rng.choice([0.0, 0.0005, 0.003, 0.01]) if style is None else style
        xs = []
        for _ in range(n):
            xs.append(dstr(p, 8))
            p = max(p * (1 + rng.uniform(-vol, vol)), 1e-6)
        out[t] = xs
    return out


def gen_index_path(rng, n, start, style):
    """Non-decreasing index path >= 1 (27-place decimal strings)."""
    x = Decimal(dstr(start, 27))
    out = []
    for i in range(n):
        out.append(format(x, "f"))
        r = rng.random()
        if style == "flat":
            g = 0.0
        elif style == "slow":
            g = 0.0 if r < 0.3 else rng.uniform(0, 2e-6)
        elif style == "fast":
            g = 0.0 if r < 0.1 else rng.uniform(0, 2e-3)
        else:  # jumpy
            g = rng.uniform(0.005, 0.08) if r < 0.06 else (0.0 if r < 0.3 else rng.uniform(0, 2e-4))
        x = (x * Decimal(dstr(1 + g, 12))).quantize(Decimal(1).scaleb(-27))
    return out


def gen_risk(rng, tokens, all_enabled=False):
    risk = {}
    for t in tokens:
        ltv = rng.choice([0, 5000, 6500, 7000, 7500, 8000, 8250]) if not all_enabled else rng.choice([5000, 6500, 7500, 8000])
        lt = min(9500, max(ltv + rng.choice([100, 250, 500, 1000]), 1000))
        risk[t] = {
            "ltv": ltv,
            "lt": lt,
            "bonus": 10000 + rng.choice([200, 400, 500, 750, 1000, 1500]),
            "collateral": True if all_enabled else rng.random() < 0.85,
            "borrow": True if all_enabled else rng.random() < 0.85,
        }
    if not any(r["collateral"] and r["ltv"] > 0 for r in risk.values()):
        r = risk[tokens[0]]
        r["collateral"], r["ltv"], r["lt"] = True, 7500, 8000
    if not any(r["borrow"] for r in risk.values()):
        risk[tokens[-1]]["borrow"] = True
    return risk


def gen_aave_market(rng, name, n, prices, tokens=None, index_style=None, min_gap=0.0, all_enabled=False, **opts):
    """Market world for the tokens of `prices` (dict token -> list of n prices). Indices: non-decreasing, >= 1, a
    different path per token, supply index != borrow index (at least `min_gap` apart, relative)."""
    tokens = [t.upper() for t in (tokens or list(prices.keys()))]
    mw = {"kind": "aave", "name": name, "tokens": tokens, "risk": gen_risk(rng, tokens, all_enabled)}
    for c in COLS:
        mw[c] = {}
    used = []
    # "frozen": a quiet reserve, every row of the file repeats the one before (indices and rates), only prices move
    frozen = index_style == "frozen" or (index_style is None and rng.random() < 0.06)
    if frozen:
        index_style = "flat"
    for t in tokens:
        style = index_style or rng.choice(["slow", "fast", "fast", "jumpy", "flat"])
        for _ in range(50):
            s0 = rng.uniform(1.0, 1.7)
            b0 = s0 * (1 + max(min_gap, 0.01) + rng.uniform(0, 0.3))
            if all(abs(s0 / u - 1) > max(min_gap, 0.005) and abs(b0 / u - 1) > max(min_gap, 0.005) for u in used):
                break
        used += [s0, b0]
        mw["liquidity_index"][t] = gen_index_path(rng, n, s0, style)
        mw["variable_borrow_index"][t] = gen_index_path(rng, n, b0, style if style != "flat" else rng.choice(["flat", "slow"]))
        lr = rng.choice([0.0, rng.uniform(0.0001, 0.08)])
        br = lr * rng.uniform(1.1, 2.5) + rng.choice([0.0, 0.01])
        if frozen:
            mw["variable_borrow_index"][t] = [mw["variable_borrow_index"][t][0]] * n
        mw["liquidity_rate"][t] = [dstr(lr * (1 + 0.01 * ((i * 7) % 5)), 27) for i in range(n)]
        mw["variable_borrow_rate"][t] = [dstr(br * (1 + 0.01 * ((i * 3) % 7)), 27) for i in range(n)]
        mw["stable_borrow_rate"][t] = [dstr(br * 1.2, 27)] * n
        if frozen:
            for c in ("liquidity_rate", "variable_borrow_rate"):
                mw[c][t] = [mw[c][t][0]] * n
    if rng.random() < 0.2:
        mw["col_order"] = rng.choice(["sorted", "reversed", "indices_first"])
    return mw


def add_bystander(rng, world, prob=0.25):
    """With probability `prob`: a second Aave pool over the same tokens with an index history of its own, registered with the
    broker before or after the pool under test and never touched by the program. Whatever the bar loop does per market must reach each
    market with that market's own rows."""
    if rng.random() >= prob:
        return None
    mw0 = market_of(world)
    by = gen_aave_market(rng, "aave_by", int(world["n"]), world["prices"], tokens=list(mw0["tokens"]), all_enabled=True,
                         index_style=rng.choice(["slow", "fast", "jumpy"]))
    # before it in half of the cases (constructed and registered first), after it in the other half
    if rng.random() < 0.5:
        world["markets"].insert(0, by)
    else:
        world["markets"].append(by)
    return by


def bystander_program(rng, world, by, nb):
    """What the owner does in the second pool: supplies every token as collateral at the start, borrows a little, and looks
    at its risk figures at the head of most bars - BEFORE anything is asked of the pool under test in that bar, so that
    whatever the first pool to evaluate a token leaves behind in shared places is there when the second pool evaluates it."""
    toks = list(by["tokens"])
    ops = []
    for t in toks:
        amt = format(Decimal(1000) / Decimal(world["prices"][t][0]), ".6f")
        world["assets"][t] = str(Decimal(world["assets"].get(t, "0")) + Decimal(amt))
        ops.append({"bar": -1, "phase": "initialize", "op": "aave.supply", "m": by["name"], "a": {"token": t, "amount": amt, "collateral": True}})
    ops.append({"bar": 0, "phase": "before_bar", "op": "aave.borrow", "m": by["name"], "a": {"token": rng.choice(toks), "amount": {"f": "helper_max_borrow", "x": "0.1"}}})
    for b in range(nb):
        if rng.random() < 0.7:
            ops.append({"bar": b, "phase": "before_bar", "op": "aave.read", "m": by["name"], "a": {"view": rng.choice(["health_factor", "get_market_balance", "liquidation_threshold", "max_ltv"])}})
    return ops


def market_of(world, name="aave0"):
    return next(m for m in world["markets"] if m.get("name") == name)


def base_world(rng, n, ntok=None, interval="1min", start=None, **mopts):
    """A one-market Aave world with generated prices; returns (world, market world)."""
    ntok = ntok or rng.choice([2, 3, 3, 4])
    toks = rng.sample(TOKENS, ntok)
    names = [t[0] for t in toks]
    prices = gen_prices(rng, names, n, mopts.pop("price_style", None))
    mw = gen_aave_market(rng, "aave0", n, prices, tokens=names, **mopts)
    world = {
        "start": start or "2023-08-13 00:00:00",
        "n": n,
        "interval": interval,
        "tokens": {t[0]: t[1] for t in toks},
        "assets": {t: "0" for t in names},
        "quote": "USD",
        "prices": prices,
        "markets": [mw],
    }
    return world, mw
