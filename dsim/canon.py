"""Canonical, JSON-able rendering of demeter values for event logs, digests and replay files."""
import dataclasses
import hashlib
import json
import math
from datetime import datetime, date
from decimal import Decimal
from enum import Enum

import numpy as np
import pandas as pd


def canon(o):
    if o is None or isinstance(o, (bool, str)):
        return o
    if isinstance(o, Enum):
        return f"{type(o).__name__}.{o.name}"
    if isinstance(o, Decimal):
        if o.is_nan():
            return "D:NaN"
        if o == 0:
            return "D:0"
        return "D:" + format(o.normalize(), "f") if abs(o.adjusted()) < 60 else "D:" + str(o.normalize())
    if isinstance(o, (int, np.integer)):
        return int(o)
    if isinstance(o, (float, np.floating)):
        f = float(o)
        if math.isnan(f):
            return "F:nan"
        if math.isinf(f):
            return "F:inf" if f > 0 else "F:-inf"
        return "F:" + repr(f)
    if isinstance(o, (pd.Timestamp, datetime)):
        return "T:" + pd.Timestamp(o).isoformat()
    if isinstance(o, date):
        return "T:" + o.isoformat()
    if isinstance(o, pd.Timedelta):
        return "TD:" + str(o)
    if isinstance(o, pd.Series):
        return {"__series__": [[canon(k), canon(v)] for k, v in o.items()]}
    if isinstance(o, pd.DataFrame):
        return {"__frame__": [canon(list(o.columns)), [[canon(i)] + [canon(v) for v in row] for i, row in zip(o.index, o.values.tolist())]]}
    if isinstance(o, np.ndarray):
        return [canon(x) for x in o.tolist()]
    if hasattr(o, "_asdict"):
        return {"__nt__": type(o).__name__, **{k: canon(v) for k, v in o._asdict().items()}}
    if dataclasses.is_dataclass(o) and not isinstance(o, type):
        return {"__dc__": type(o).__name__, **{f.name: canon(getattr(o, f.name, None)) for f in dataclasses.fields(o)}}
    if isinstance(o, dict):
        return {str(canon(k)): canon(v) for k, v in o.items()}
    if isinstance(o, (list, tuple)):
        return [canon(x) for x in o]
    if isinstance(o, (set, frozenset)):
        return sorted((canon(x) for x in o), key=lambda x: json.dumps(x, sort_keys=True))
    if hasattr(o, "data") and isinstance(getattr(o, "data"), dict):  # MarketDict / AssetDict
        return {str(canon(k)): canon(v) for k, v in o.data.items()}
    if hasattr(o, "name") and hasattr(o, "decimal"):
        return str(o.name)
    return "O:" + type(o).__name__ + ":" + str(o)


def dumps(o) -> str:
    return json.dumps(canon(o), sort_keys=True, separators=(",", ":"))


def digest(o) -> str:
    return hashlib.sha256(dumps(o).encode()).hexdigest()


def D(x) -> Decimal:
    """Parse the scenario encoding of a number (str/int/float) into Decimal."""
    if isinstance(x, Decimal):
        return x
    if isinstance(x, str):
        if x.startswith("D:"):
            x = x[2:]
        return Decimal(x)
    if isinstance(x, float):
        return Decimal(repr(x))
    return Decimal(x)
