"""Independent valuation of an account (property C01; DESIGN section 4 "C01" and appendix A.1/A.3/A.4/A.5/A.6).

Written from the property text and the protocols' rules, not from /repo; nothing here imports demeter.  Inputs are
(a) the scenario's raw numbers (my own copy of every bar's data row and price row) and (b) plain position state
handed in by the caller (amounts read from the public state of the real objects).  Every function returns
`(value, tolerance)` as Decimals computed in a private 60-digit context; a tolerance is always a sum of named,
justified allowances, never a fudge factor.

  NV            = sum_t wallet[t] * P[t]  +  sum_m value_m * (1 if quote_m == account quote else P[quote_m])
  Uniswap       sum over positions that are not lent out: v3 closed-form amounts at the bar's pool price + pending
                amounts, valued in the pool's quote token at that same pool price               (A.1)
  Aave          sum scaled * liquidity_index * P  -  sum scaled_debt * variable_borrow_index * P  (A.3)
  Squeeth       (ETH collateral + LP ETH + LP oSQTH * nf * TWAP(ETH) / 1e4) * WETH  -  short * OSQTH * WETH   (A.4)
  Deribit       cash + sum amount * mark      (instruments absent from the bar's book: see `deribit_value`)  (A.5)
  GMX v1        glp * aum / supply  +  reward * wavax_price / 1e30                                (A.6)
  GMX v2        gm * poolValue / marketTokensSupply
"""
from decimal import Decimal, localcontext

PREC = 60

# ---- tolerances (every one is named and justified) ----------------------------------------------------------------
# demeter computes with 35-digit Decimals (getcontext().prec = 35 is set when demeter.uniswap.helper is imported);
# a sum of a few dozen products carries < 1e-33 relative rounding.  DESIGN C01 "Tol: relative 1e-18 on each term".
EXACT_REL = Decimal("1e-18")
# Aave reports its totals at a granularity of 1e-4 (its documented reporting precision): supplies and borrows are
# each quantised, so the difference may be off by 2 x 0.5e-4.
AAVE_ABS = Decimal("0.0001")
# Squeeth's TWAP is a float computation (math.log / math.pow): DESIGN C01/C14 "1e-9 relative where TWAP enters".
TWAP_REL = Decimal("1e-9")
# A pool price is carried on chain as the integer sqrtPriceX96; my sqrt prices are the real numbers 1.0001^(tick/2).
# Rounding a sqrt price to its Q64.96 representation moves it by < 1 unit of 2^-96; a price -> sqrt price round trip
# truncates once more.  Allow 4 units on every sqrt price that enters an amount (needed: <= 2).
SQRT_X96_UNITS = 4
X96_UNIT = Decimal(1) / Decimal(2**96)
# The pool price cell of a Uniswap data row is tick -> sqrtPriceX96 -> price with the decimal scaling 10^(d0-d1) taken
# through a binary float when d0 < d1 (one float rounding: <= 1.2e-16 relative; observed 2e-17).  The same factor is
# divided out again on the way back to a sqrt price, so only the base -> quote conversion carries it.
POOL_PRICE_REL = Decimal("2.3e-16")
# GMX v1: the recorded glp_price column carries 16 significant digits (relative rounding <= 5e-16).
GLP_PRICE_REL = Decimal("1e-15")
# GMX v2 amounts and pool figures are binary floats; two float operations round by <= 2.3e-16 relative.
FLOAT_REL = Decimal("1e-15")
# Deribit: "options at mark"; the exchange quotes option values to one fee step (1e-6 ETH / 1e-8 BTC), so a mark taken
# exactly or rounded to that step are both "the mark": half a step per contract.
DERIBIT_FEE_STEP = {"ETH": Decimal("1e-6"), "BTC": Decimal("1e-8")}
SQUEETH_INDEX_SCALE = Decimal(10000)
TWAP_WINDOW_ROWS = 7  # rows with timestamp in [now - 6 min, now]
GMX_PRICE_PRECISION = Decimal(10) ** 30


def D(x) -> Decimal:
    if isinstance(x, Decimal):
        return x
    if isinstance(x, str):
        return Decimal(x[2:] if x.startswith("D:") else x)
    if isinstance(x, float):
        return Decimal(x)  # exact binary value
    return Decimal(x)


class _Ctx:
    """`with high():` - 60-digit arithmetic, restored afterwards"""

    def __enter__(self):
        self._c = localcontext()
        c = self._c.__enter__()
        c.prec = PREC
        return c

    def __exit__(self, *a):
        return self._c.__exit__(*a)


def high():
    return _Ctx()


# =================================================================================================== price frame
class Prices:
    """my own copy of the account price frame (quoted in the account's quote token)"""

    def __init__(self, world):
        self.quote = world.get("quote", "USD").upper()
        self.cols = {k.upper(): v for k, v in (world.get("prices") or {}).items()}
        self._cache = {}

    def has(self, token):
        return token.upper() in self.cols or token.upper() == "USD"

    def at(self, token, row) -> Decimal:
        token = token.upper()
        key = (token, row)
        v = self._cache.get(key)
        if v is None:
            if token in self.cols:
                v = D(self.cols[token][row])
            elif token == "USD":
                v = Decimal(1)  # no USD price supplied: one unit of account
            else:
                raise KeyError(token)
            self._cache[key] = v
        return v

    def conversion(self, market_quote, row) -> Decimal:
        """factor that converts a value in the market's quote token into the account's quote token"""
        market_quote = market_quote.upper()
        if market_quote == self.quote:
            return Decimal(1)
        return self.at(market_quote, row)


def wallet_value(wallet: dict, prices: Prices, row: int):
    """wallet = {token name: balance}.  -> (value, tolerance)"""
    with high():
        total, scale = Decimal(0), Decimal(0)
        for t, bal in wallet.items():
            term = D(bal) * prices.at(t, row)
            total += term
            scale += abs(term)
        return total, EXACT_REL * scale


# =================================================================================================== Uniswap v3
class UniRef:
    """my own copy of a pool's price path.  The pool price of bar i is the `price` cell of its data row: the close of
    the previous minute (first row: its open), as the loader defines it."""

    def __init__(self, mw, decimals):
        self.name = mw["name"]
        self.t0, self.t1, self.quote = mw["token0"].upper(), mw["token1"].upper(), mw["quote"].upper()
        self.d0, self.d1 = int(decimals[self.t0]), int(decimals[self.t1])
        self.token0_is_quote = self.quote == self.t0
        ticks = _ffill(mw["closeTick"])
        opens = mw.get("openTick") or ticks
        first = opens[0] if opens[0] is not None else ticks[0]
        self.price_tick = [int(first)] + [int(t) for t in ticks[:-1]]
        self._sqrt = {}

    def sqrt(self, tick) -> Decimal:
        """1.0001^(tick/2) as a real number"""
        v = self._sqrt.get(tick)
        if v is None:
            with high():
                p = Decimal("1.0001") ** abs(int(tick))
                if tick < 0:
                    p = 1 / p
                v = p.sqrt()
            self._sqrt[tick] = v
        return v

    def base_price(self, row) -> Decimal:
        """price of the base token in the quote token at the bar's pool price"""
        with high():
            s = self.sqrt(self.price_tick[row])
            atomic = s * s  # token1 atomic units per token0 atomic unit
            p01 = atomic * Decimal(10) ** (self.d0 - self.d1)  # token1 per token0, human units
            return 1 / p01 if self.token0_is_quote else p01

    def amounts(self, liquidity, lo, hi, pending0, pending1, row):
        """(amount0, amount1, tol0, tol1): token amounts of a position incl. pending amounts (A.1), with the absolute
        tolerance that SQRT_X96_UNITS on each sqrt price and EXACT_REL imply."""
        with high():
            L = Decimal(int(liquidity))
            p0, p1 = D(pending0), D(pending1)
            if L == 0:
                return p0, p1, EXACT_REL * abs(p0), EXACT_REL * abs(p1)
            lo, hi = (int(lo), int(hi)) if lo <= hi else (int(hi), int(lo))
            s, a, b = self.sqrt(self.price_tick[row]), self.sqrt(lo), self.sqrt(hi)
            x = min(max(s, a), b)  # the sqrt price clipped to the range
            a0 = L * (1 / x - 1 / b) / Decimal(10) ** self.d0
            a1 = L * (x - a) / Decimal(10) ** self.d1
            du = SQRT_X96_UNITS * X96_UNIT
            # d(1/x) = dx / x^2 ; two sqrt prices enter each amount
            tol0 = L * du * (1 / (x * x) + 1 / (b * b)) / Decimal(10) ** self.d0
            tol1 = L * du * 2 / Decimal(10) ** self.d1
            # 35-digit rounding of the price <-> sqrt price round trip acts on the virtual amounts L/x and L*x
            tol0 += EXACT_REL * (L / x / Decimal(10) ** self.d0 + abs(p0))
            tol1 += EXACT_REL * (L * x / Decimal(10) ** self.d1 + abs(p1))
            return a0 + p0, a1 + p1, tol0, tol1

    def position_value(self, pos, row):
        """pos = dict(liquidity, lo, hi, pending0, pending1) -> (value in the pool's quote token, tolerance)"""
        with high():
            a0, a1, t0, t1 = self.amounts(pos["liquidity"], pos["lo"], pos["hi"], pos["pending0"], pos["pending1"], row)
            p = self.base_price(row)
            if self.token0_is_quote:
                return a1 * p + a0, t1 * p + t0 + POOL_PRICE_REL * abs(a1 * p)
            return a0 * p + a1, t0 * p + t1 + POOL_PRICE_REL * abs(a0 * p)

    def market_value(self, positions, row):
        """positions: iterable of position dicts that are NOT lent out -> (value in pool quote, tolerance)"""
        with high():
            v, t = Decimal(0), Decimal(0)
            for pos in positions:
                pv, pt = self.position_value(pos, row)
                v += pv
                t += pt
            return v, t


# =================================================================================================== Aave v3
class AaveRefData:
    def __init__(self, mw):
        self.mw = mw

    def liquidity_index(self, token, row) -> Decimal:
        s = self.mw.get("liquidity_index", {}).get(token)
        return D(s[row]) if s is not None else Decimal(1)

    def borrow_index(self, token, row) -> Decimal:
        s = self.mw.get("variable_borrow_index", {}).get(token)
        return D(s[row]) if s is not None else Decimal(1)

    def market_value(self, supplies: dict, debts: dict, prices: Prices, row: int):
        """supplies / debts = {token: scaled amount}.  Value in the unit of the account price frame."""
        with high():
            v, scale = Decimal(0), Decimal(0)
            for t, scaled in supplies.items():
                term = D(scaled) * self.liquidity_index(t, row) * prices.at(t, row)
                v += term
                scale += abs(term)
            for t, scaled in debts.items():
                term = D(scaled) * self.borrow_index(t, row) * prices.at(t, row)
                v -= term
                scale += abs(term)
            return v, AAVE_ABS + EXACT_REL * scale


# =================================================================================================== Squeeth
class SqueethRefData:
    def __init__(self, mw, pool_ref: UniRef):
        self.eth = [D(x) for x in _ffill(mw["WETH"])]
        self.osq = [D(x) for x in _ffill(mw["OSQTH"])]
        self.nf = [D(x) for x in _ffill(mw["norm_factor"])]
        self.pool = pool_ref
        self._ln = {}
        self._twap = {}

    def twap_eth(self, row) -> Decimal:
        """exp(mean(ln ETH)) over the rows in [now - 6 min, now]"""
        v = self._twap.get(row)
        if v is None:
            rows = range(max(0, row - (TWAP_WINDOW_ROWS - 1)), row + 1)
            vals = [self.eth[j] for j in rows]
            if len(set(vals)) == 1:
                v = vals[0]
            else:
                with high():
                    s = Decimal(0)
                    for j in rows:
                        l = self._ln.get(j)
                        if l is None:
                            l = self._ln[j] = self.eth[j].ln()
                        s += l
                    v = (s / len(vals)).exp()
            self._twap[row] = v
        return v

    def market_value(self, vaults, row):
        """vaults: iterable of dict(collateral, short, lp=None | position dict) -> (value in USD, tolerance)"""
        with high():
            weth, osq_usd = self.eth[row], self.osq[row] * self.eth[row]
            v, tol = Decimal(0), Decimal(0)
            for vt in vaults:
                coll, short = D(vt["collateral"]), D(vt["short"])
                eth_units, eth_tol = coll, EXACT_REL * abs(coll)
                if vt.get("lp") is not None:
                    lp = vt["lp"]
                    a0, a1, t0, t1 = self.pool.amounts(lp["liquidity"], lp["lo"], lp["hi"], lp["pending0"], lp["pending1"], row)
                    idx = self.nf[row] * self.twap_eth(row) / SQUEETH_INDEX_SCALE  # ETH per oSQTH at the index price
                    eth_units += a0 + a1 * idx  # token0 = WETH, token1 = oSQTH
                    eth_tol += t0 + t1 * idx + TWAP_REL * abs(a1 * idx)
                debt = short * osq_usd
                v += eth_units * weth - debt
                tol += eth_tol * weth + EXACT_REL * abs(debt)
            return v, tol


# =================================================================================================== Deribit
class DeribitRefData:
    def __init__(self, mw):
        self.token = mw["token"].upper()
        self.hours = {h["t"]: h["rows"] for h in mw["hours"]}
        self.order = sorted(self.hours)
        self._last = {}

    def book_of(self, hour_stamp: str):
        """rows of the bar's book (the hour the bar belongs to), None if that hour is absent from the data"""
        return self.hours.get(hour_stamp)

    def last_mark(self, name, hour_stamp: str):
        """largest mark the instrument showed at or before that hour (None if never listed)"""
        best = None
        for t in self.order:
            if t > hour_stamp:
                break
            r = self.hours[t].get(name)
            if r is not None:
                m = D(float(r["mark"]))
                best = m if best is None or m > best else best
        return best

    def market_value(self, cash, holdings: dict, hour_stamp: str):
        """holdings = {instrument: amount}.  -> (low, high, tolerance, n_missing): the value lies in [low, high]; low ==
        high unless a held instrument has no row in the bar's book - the property does not say what such an option is
        worth, so anything between nothing and its highest earlier mark is accepted."""
        with high():
            book = self.book_of(hour_stamp) or {}
            low = D(cash)
            band, tol, missing = Decimal(0), EXACT_REL * abs(D(cash)), 0
            step = DERIBIT_FEE_STEP[self.token]
            for name, amt in holdings.items():
                amt = D(amt)
                r = book.get(name)
                if r is not None:
                    term = amt * D(float(r["mark"]))
                    low += term
                    tol += abs(amt) * step / 2 + EXACT_REL * abs(term)
                else:
                    missing += 1
                    lm = self.last_mark(name, hour_stamp)
                    if lm is not None:
                        band += abs(amt) * (lm + step / 2)
            return low, low + band, tol, missing


# =================================================================================================== GMX
class Gmx1RefData:
    def __init__(self, mw):
        self.mw = mw

    def market_value(self, glp, reward, row):
        with high():
            supply = D(self.mw["glp"][row])
            aum = D(self.mw["aum"][row])
            glp_price = aum / Decimal(10**12) / supply if supply != 0 else Decimal(0)  # AUM (1e30) per GLP (1e18) in USD
            wavax = D(self.mw["price"]["WAVAX"][row]) / GMX_PRICE_PRECISION
            t1 = D(glp) * glp_price
            t2 = D(reward) * wavax
            return t1 + t2, GLP_PRICE_REL * abs(t1) + EXACT_REL * abs(t2)


class Gmx2RefData:
    def __init__(self, mw):
        self.mw = mw

    def market_value(self, gm, row):
        with high():
            gm = D(float(gm))
            if gm <= 0:
                return Decimal(0), Decimal(0)
            pv = D(float(self.mw["poolValue"][row]))
            supply = D(float(self.mw["marketTokensSupply"][row]))
            v = gm * pv / supply
            return v, FLOAT_REL * abs(v)


# =================================================================================================== helpers
def _ffill(xs):
    out, last = [], None
    for x in xs:
        if x is None:
            x = last
        out.append(x)
        last = x
    if out and out[0] is None:
        nxt = next((x for x in out if x is not None), None)
        out = [nxt if x is None else x for x in out]
    return out


def fmt(x, digits=30):
    if isinstance(x, Decimal):
        return format(x, f".{digits}g")
    return x
