"""Deribit option world: hourly order-book history in the real loader's output format, the real DeribitOptionMarket,
the operation vocabulary (deposit, withdraw, buy, sell in every pricing mode, estimate_cost, get_market_balance) and
the generator of consistent market worlds.

Market world (plain JSON):
  {"kind": "deribit", "name": "drb0", "token": "ETH"|"BTC",
   "instruments": {name: {"type": "CALL"|"PUT", "strike": int, "expiry": "YYYY-mm-dd HH:MM:SS"}},
   "hours": [{"t": "YYYY-mm-dd HH:00:00",
              "rows": {name: {"state": "open", "mark": "0.0479", "underlying": "1651.94", "delta": "0.5",
                              "gamma": "0.003", "asks": [["0.05", "145"], ...], "bids": [["0.045", "70.0"], ...]}}}]}
An hour absent from "hours" is a missing hour row; an instrument absent from an hour's "rows" is a missing instrument.
Numbers are *literals*: "145" is parsed by the loader as int, "145.0" / "0.3" as float - exactly as json.loads does
for the real CSV files.  The frame is produced by writing the rows as CSV text and running the same pandas calls as
demeter.deribit.helper.load_deribit_option_data (read_csv with the real order_converter, to_timedelta, drop, concat per
day, sort_index), so dtypes are the loader's by construction.
"""
import csv
import io
import os
import math
from decimal import Decimal
from fractions import Fraction

import pandas as pd

from ..sim import market_builder, op, amount, HarnessError, AMOUNT_RESOLVERS
from ..canon import D

from demeter import MarketInfo
from demeter.broker import MarketTypeEnum
from demeter.deribit import DeribitOptionMarket
from demeter.deribit.helper import order_converter

HOUR = pd.Timedelta("1h")
CSV_COLUMNS = [
    "instrument_name", "time", "actual_time", "state", "type", "strike_price", "t", "expiry_time", "vega", "theta",
    "rho", "gamma", "delta", "underlying_price", "settlement_price", "min_price", "max_price", "mark_price", "mark_iv",
    "last_price", "interest_rate", "bid_iv", "best_bid_price", "best_bid_amount", "ask_iv", "best_ask_price",
    "best_ask_amount", "asks", "bids",
]
STEP = {"ETH": Decimal("1"), "BTC": Decimal("0.1")}


def _book_text(levels):
    return "[" + ", ".join(f"[{p}, {s}]" for p, s in levels) + "]"


def csv_text(mw) -> dict:
    """-> {day: csv text} as the per-day files the real loader reads"""
    days = {}
    for h in mw["hours"]:
        t = pd.Timestamp(h["t"])
        rows = days.setdefault(t.normalize(), [])
        for name in sorted(h["rows"]):
            r = h["rows"][name]
            ins = mw["instruments"][name]
            exp = pd.Timestamp(ins["expiry"])
            asks, bids = r["asks"], r["bids"]
            rows.append(
                [
                    name, str(t), str(t + pd.Timedelta(seconds=38, milliseconds=752)), r.get("state", "open"), ins["type"],
                    ins["strike"], str(exp - t), str(exp), "1.42317", "-1.05567", "0.60142", r.get("gamma", "0.00289"),
                    r.get("delta", "0.67817"), r["underlying"], r.get("settlement", ""), "0.0001", "0.9", r["mark"], "31.28", "", "0", "27.93",
                    bids[0][0] if bids else "0.0", bids[0][1] if bids else "0.0", "33.75",
                    asks[0][0] if asks else "0.0", asks[0][1] if asks else "0.0", _book_text(asks), _book_text(bids),
                ]
            )
    out = {}
    for day, rows in days.items():
        buf = io.StringIO()
        w = csv.writer(buf)
        w.writerow(CSV_COLUMNS)
        w.writerows(rows)
        out[day] = buf.getvalue()
    return out


def frame_of(mw) -> pd.DataFrame:
    """The same pandas calls as load_deribit_option_data (minus the file system and the cache)."""
    df = pd.DataFrame()
    texts = csv_text(mw)
    for day in sorted(texts):
        day_df = pd.read_csv(
            io.StringIO(texts[day]),
            parse_dates=["time", "expiry_time"],
            index_col=["time", "instrument_name"],
            converters={"asks": order_converter, "bids": order_converter},
        )
        day_df["t"] = pd.to_timedelta(day_df["t"])
        day_df.drop(columns=["actual_time", "min_price", "max_price"], inplace=True)
        df = pd.concat([df, day_df])
    df = df.sort_index()
    if mw.get("filtered_from_half_hours"):
        # the hourly frame is what is left of a finer one (snapshots every 30 minutes) after keeping the rows on the hour:
        # same rows, same values - but the MultiIndex still lists the dropped timestamps among its (unused) levels
        extra = df.copy()
        extra.index = pd.MultiIndex.from_arrays([extra.index.get_level_values(0) + pd.Timedelta(minutes=30), extra.index.get_level_values(1)],
                                                names=df.index.names)
        both = pd.concat([df, extra]).sort_index()
        df = both[both.index.get_level_values(0).minute == 0]
    return df


def _load_through_files(market, mw):
    """The snapshots written as the per-day files of the data download and read back by the REAL loader
    (DeribitOptionMarket.load_data -> load_deribit_option_data), its feather cache pointed at a private empty directory."""
    import shutil
    import tempfile

    import demeter.data.data_cache as DC
    from ..sim import private_cwd

    root = tempfile.mkdtemp(prefix="deribit-files-", dir=private_cwd())
    saved = (DC.CACHE_PATH, DC.CACHE_CONFIG_PATH)
    try:
        DC.CACHE_PATH = os.path.join(root, "cache")
        DC.CACHE_CONFIG_PATH = os.path.join(DC.CACHE_PATH, "config.pkl")
        texts = csv_text(mw)
        for day, text in texts.items():
            with open(os.path.join(root, f"Deribit-option-book-ETH-{day.strftime('%Y%m%d')}.csv"), "w") as f:  # (the loader's file name says ETH for either coin)
                f.write(text)
        market.data_path = root
        market.load_data(min(texts).date(), max(texts).date())
    finally:
        DC.CACHE_PATH, DC.CACHE_CONFIG_PATH = saved
        shutil.rmtree(root, ignore_errors=True)


@market_builder("deribit")
def build_deribit(sim, mw):
    tok = mw["token"].upper()
    token = {"ETH": DeribitOptionMarket.ETH, "BTC": DeribitOptionMarket.BTC}.get(tok)
    if token is None:
        raise HarnessError(f"deribit token {tok}")
    if int(sim.world.get("tokens", {}).get(tok, token.decimal)) != token.decimal:
        raise HarnessError(f"world declares {tok} with decimals != {token.decimal}")
    sim.tokens.setdefault(tok, token)
    if not mw["hours"]:
        raise HarnessError("deribit world without any hour")
    start = pd.Timestamp(sim.world["start"])
    if start != start.floor("1h") or pd.Timestamp(mw["hours"][0]["t"]) != start:
        # carve-out (DESIGN C01 / section 5): a run that starts off the hour or without its floor hour crashes for
        # reasons outside C15/C16; the generators never produce it
        raise HarnessError("deribit world must start on the hour with the floor hour present")
    market = DeribitOptionMarket(MarketInfo(mw["name"], MarketTypeEnum.deribit_option), token)
    if mw.get("via_files") and not mw.get("filtered_from_half_hours"):
        _load_through_files(market, mw)
    else:
        market.data = frame_of(mw)
    sim.mdata[mw["name"]] = {"mw": mw, "token": tok, "hours": {h["t"]: h for h in mw["hours"]}}
    return market


# ------------------------------------------------------------------------------------------------- live-state readers
def visible_book(market, name, side):
    """the displayed asks/bids of an instrument in the current market status, [] if absent (read only)"""
    data = market.market_status.data
    if data is None or name not in data.index:
        return None
    return data.at[name, side]


def universe(sim, m):
    return sorted(sim.mdata[m.market_info.name]["mw"]["instruments"])


def instrument_of(sim, m, spec):
    """{"i": k} k-th instrument of the universe; {"held": k} k-th held (else universe); {"name": literal}"""
    if spec is None:
        spec = {"i": 0}
    if "name" in spec:
        return spec["name"]
    uni = universe(sim, m)
    if "held" in spec:
        held = sorted(m.positions.keys())
        if held:
            return held[int(spec["held"]) % len(held)]
        return uni[int(spec["held"]) % len(uni)]
    return uni[int(spec["i"]) % len(uni)]


def _cash(sim, what, spec):
    return Decimal(sim.markets[what].balance)


def _holding(sim, what, spec):
    mname, _, idx = what.partition("#")
    m = sim.markets[mname]
    name = instrument_of(sim, m, {"held": int(idx or 0)})
    return Decimal(m.positions[name].amount) if name in m.positions else Decimal(0)


AMOUNT_RESOLVERS["cash"] = _cash
AMOUNT_RESOLVERS["holding"] = _holding


def trade_amount(sim, m, name, side, spec):
    """{"abs": x} | {"depth": frac} of the displayed depth on that side | {"level": j, "x": frac} of level j's size
    | {"holding": frac} of the held amount of that instrument; optional caps "max_depth": frac of displayed depth,
    "max_level": j (size of displayed level j).  Level indices address the displayed list (mod its length)."""
    book = visible_book(m, name, side) or []
    depth = sum((Decimal(str(x[1])) for x in book), Decimal(0))
    if "abs" in spec:
        amt = D(spec["abs"])
    elif "holding" in spec:
        held = Decimal(m.positions[name].amount) if name in m.positions else Decimal(0)
        amt = held * D(spec["holding"]) if held > 0 else D(spec.get("else", "1"))
    elif "depth" in spec:
        amt = depth * D(spec["depth"]) if depth > 0 else D(spec.get("else", "1"))
    elif "level" in spec:
        if not book:
            amt = D(spec.get("else", "1"))
        else:
            lv = book[int(spec["level"]) % len(book)]
            amt = Decimal(str(lv[1])) * D(spec.get("x", "1"))
            if amt <= 0:
                amt = D(spec.get("else", "1"))
    else:
        raise HarnessError(f"bad trade amount {spec}")
    if "max_depth" in spec and depth > 0:
        amt = min(amt, depth * D(spec["max_depth"]))
    if "max_level" in spec and book:
        lv = book[int(spec["max_level"]) % len(book)]
        if lv[1] > 0:
            amt = min(amt, Decimal(str(lv[1])))
    return amt


def level_price(m, name, side, spec):
    """{"abs": p} | {"level": j, "mul": "1.0005"}: price of displayed level j (mod count) times mul"""
    if "abs" in spec:
        return D(spec["abs"])
    book = visible_book(m, name, side) or []
    if not book:
        return D(spec.get("else", "0.05"))
    lv = book[int(spec["level"]) % len(book)]
    return Decimal(str(lv[0])) * D(spec.get("mul", "1"))


def resolve_trade(sim, m, a, is_buy):
    """symbolic trade arguments -> concrete call arguments (harness code; reads live state only)"""
    name = instrument_of(sim, m, a.get("inst"))
    side = "asks" if is_buy else "bids"
    amt = trade_amount(sim, m, name, side, a.get("amount", {"abs": "1"}))
    mode = a.get("mode", "market")
    kw = {}
    res = {"op": "buy" if is_buy else "sell", "name": name, "amount": amt, "mode": mode, "limit": None, "usd": None, "k": None}
    if mode in ("token", "usd", "token+cap"):
        px = level_price(m, name, side, a.get("px", {"level": 0}))
        if mode == "usd":
            data = m.market_status.data
            und = Decimal(str(data.at[name, "underlying_price"])) if data is not None and name in data.index else Decimal(1)
            usd = px * und
            kw["price_in_usd"] = usd
            res["usd"] = usd
        else:
            kw["price_in_token"] = px
            res["limit"] = px
    if mode in ("cap", "token+cap"):
        kw["max_mark_price_multiple"] = D(a.get("k", "1.05"))
        res["k"] = kw["max_mark_price_multiple"]
    if a.get("as_float"):
        amt_arg = float(amt)
        kw = {k: float(v) for k, v in kw.items()}
        # what the market will see after its float -> Decimal(str()) conversion
        res["amount"] = Decimal(str(amt_arg))
        for k_res, k_kw in (("limit", "price_in_token"), ("usd", "price_in_usd"), ("k", "max_mark_price_multiple")):
            if k_kw in kw:
                res[k_res] = Decimal(str(kw[k_kw]))
    else:
        amt_arg = amt
    res["kw"] = kw
    res["amount_arg"] = amt_arg
    return res


def _orders(t):
    orders, fee = t
    return {"orders": [[o.price, o.amount] for o in orders], "fee": fee}


# ------------------------------------------------------------------------------------------------- operations
@op("deribit.deposit")
def _deposit(sim, m, a):
    amt = amount(sim, a.get("amount"))
    sim.resolved = {"op": "deposit", "amount": amt}
    return lambda: m.deposit(amt)


@op("deribit.withdraw")
def _withdraw(sim, m, a):
    amt = amount(sim, a.get("amount"))
    sim.resolved = {"op": "withdraw", "amount": amt}
    return lambda: m.withdraw(amt)


@op("deribit.buy")
def _buy(sim, m, a):
    r = resolve_trade(sim, m, a, True)
    sim.resolved = r
    return lambda: _orders(m.buy(r["name"], r["amount_arg"], **r["kw"]))


@op("deribit.sell")
def _sell(sim, m, a):
    r = resolve_trade(sim, m, a, False)
    sim.resolved = r
    return lambda: _orders(m.sell(r["name"], r["amount_arg"], **r["kw"]))


@op("deribit.estimate_cost")
def _estimate(sim, m, a):
    is_buy = a.get("side", "buy") == "buy"
    r = resolve_trade(sim, m, dict(a, mode="token" if a.get("px") else "market"), is_buy)
    r["op"] = "estimate_cost"
    sim.resolved = r
    kw = {}
    if r["limit"] is not None:
        kw["price_in_token"] = r["kw"]["price_in_token"]
    return lambda: m.estimate_cost(r["name"], r["amount_arg"], "buy" if is_buy else "sell", **kw)


@op("deribit.read_balance")
def _read_balance(sim, m, a):
    sim.resolved = {"op": "read_balance"}
    return lambda: m.get_market_balance()


# ------------------------------------------------------------------------------------------------- generation
def _dec(x, places):
    return format(Decimal(repr(float(x))).quantize(Decimal(1).scaleb(-places)), "f")


def _strip(s):
    s = s.rstrip("0").rstrip(".") if "." in s else s
    return s if s not in ("", "-0") else "0"


def _flt(s):
    """a float literal as pandas/json would write a float column value (never a bare integer literal, which would turn
    an all-integer column into int64 - a dtype the real files do not have for prices and greeks)"""
    s = _strip(s)
    return s if "." in s else s + ".0"


def hour_times(start, n):
    """the hour stamps covered by n minutes from start (start on the hour)"""
    start = pd.Timestamp(start)
    return [start + k * HOUR for k in range((int(n) - 1) // 60 + 1)]


def instrument_name(token, expiry, strike, kind):
    return f"{token}-{pd.Timestamp(expiry).strftime('%d%b%y').upper()}-{strike}-{'C' if kind == 'CALL' else 'P'}"


def gen_book(rng, mark: float, tick: float, size_kind: str, n_asks: int, n_bids: int, places: int, dense: bool = False):
    """levels strictly ordered best-first, more than 0.5 % apart (so 'the level' of a limit price is unique within
    the 0.1 % band), bids <= mark <= asks (equality allowed), distinct prices.  dense: neighbouring levels only 0.03 - 0.09 %
    apart, as in the book of a deep in-the-money option quoted on a 0.0005 tick - several levels then lie within 0.1 % of a
    limit price, and 'that level' is the one that carries the price."""
    if dense:
        places = max(places, 7)

    def size():
        r = rng.random()
        if size_kind == "int":
            return str(rng.choice([1, 2, 3, 5, 10, 40, 145, 605]) if r < 0.5 else rng.randint(1, 900))
        if size_kind == "float_int":
            return str(rng.choice([1, 2, 3, 5, 10, 40, 145]) if r < 0.5 else rng.randint(1, 900)) + ".0"
        # fractional: one decimal mostly, sometimes more
        if r < 0.7:
            return _strip(format(Decimal(rng.randint(1, 4000)) / 10, "f")) if rng.random() < 0.8 else str(rng.randint(1, 50)) + ".0"
        return _strip(format(Decimal(rng.randint(1, 400000)) / 1000, "f"))

    def ladder(first, up, count):
        out, p = [], first
        for _ in range(count):
            out.append(p)
            gap = max(tick * rng.randint(1, 6), p * rng.uniform(0.006, 0.08))
            if dense:
                gap = max(10.0 ** -places * 3, p * rng.uniform(0.0003, 0.0009))
            p = p + gap if up else p - gap
            if p <= tick / 2:
                break
        return out

    a0 = mark if rng.random() < 0.1 else mark + max(tick * rng.randint(1, 4), mark * rng.uniform(0.006, 0.05))
    b0 = mark if rng.random() < 0.1 else mark - max(tick * rng.randint(1, 4), mark * rng.uniform(0.006, 0.05))
    if dense:
        a0, b0 = mark * (1 + rng.uniform(0.0002, 0.001)), mark * (1 - rng.uniform(0.0002, 0.001))
    asks = [[_strip(_dec(p, places)), size()] for p in ladder(a0, True, n_asks)]
    bids = [[_strip(_dec(p, places)), size()] for p in ladder(b0, False, n_bids) if p > tick / 2]

    def dedupe(levels, up):
        out = []
        for p, s in levels:
            if Decimal(p) <= 0:
                continue
            lim_up, lim_dn = (Decimal(1), Decimal(1)) if dense else (Decimal("1.005"), Decimal("0.995"))
            if out and (Decimal(p) <= Decimal(out[-1][0]) * lim_up if up else Decimal(p) >= Decimal(out[-1][0]) * lim_dn):
                continue
            out.append([p, s])
        return out

    asks, bids = dedupe(asks, True), dedupe(bids, False)
    m = Decimal(repr(float(mark)))
    asks = [l for l in asks if Decimal(l[0]) >= m]
    bids = [l for l in bids if Decimal(l[0]) <= m]
    if rng.random() < 0.06 and asks:
        asks[rng.randrange(len(asks))][1] = "0" if size_kind == "int" else "0.0"
    return asks, bids


def gen_deribit_market(rng, name, n, prices, **opts):
    """Generate a deribit market world consistent with the token price path.

    prices: {token: [n floats/Decimals]} minutely, index 0 = world start (on the hour); the option market's
    underlying at hour h is prices[token][60*h].
    opts: token ("ETH"|"BTC", default random), start (timestamp string, required), n_instruments (1..6),
          max_levels (1..8), size_kinds (subset of int/float_int/frac), expiries: list of placement kinds drawn per
          instrument from {"after_last","on_hour","between","before_first"}, strike_offsets (relative offsets x, or
          ("abs", usd) offsets from the rounded underlying at the expected settlement hour), tiny_marks (probability of a mark so small that the 12.5 % cap
          binds), mark_places (decimals of mark, up to 8), closed_state_prob.
    """
    token = opts.get("token") or rng.choice(["ETH", "ETH", "BTC"])
    start = pd.Timestamp(opts["start"])
    hours = hour_times(start, n)
    H = len(hours)
    path = [float(prices[token][60 * h]) for h in range(H)]
    n_ins = opts.get("n_instruments") or rng.choice([1, 2, 2, 3, 3, 4, 5, 6])
    max_levels = opts.get("max_levels") or 8
    size_kinds = opts.get("size_kinds") or (["int", "float_int", "frac"] if token == "BTC" else ["int", "int", "float_int", "frac"])
    size_kind = rng.choice(size_kinds)
    placements = opts.get("expiries") or ["after_last"]
    offsets = opts.get("strike_offsets") or [-0.05, -0.02, 0, 0.02, 0.05]
    tick = 0.0005 if token == "ETH" else 0.0001
    places = 4
    mark_places = opts.get("mark_places") or rng.choice([4, 4, 6, 8])
    instruments, meta = {}, {}
    tries = 0
    while len(instruments) < n_ins and tries < 40:
        tries += 1
        place = rng.choice(placements)
        if place == "after_last":
            expiry = (hours[-1] + HOUR * rng.randint(1, 24 * 30)).normalize() + pd.Timedelta(hours=8)
            if expiry <= hours[-1]:
                expiry += pd.Timedelta(days=1)
            settle_h = None
        elif place == "on_hour":
            k = rng.randint(0, H - 1)
            expiry, settle_h = hours[k], k
        elif place == "between":
            k = rng.randint(0, H - 1)
            expiry = hours[k] - pd.Timedelta(minutes=rng.randint(1, 59))
            settle_h = k
        else:  # before_first
            expiry = hours[0] - pd.Timedelta(minutes=rng.choice([1, 30, 60, 600]))
            settle_h = 0
        ref_price = path[settle_h] if settle_h is not None else path[rng.randrange(H)]
        off = rng.choice(offsets)
        if isinstance(off, (tuple, list)):  # ("abs", usd offset): strike = round(underlying) + offset, no grid
            strike = int(round(ref_price)) + int(off[1])
        else:  # relative offset, rounded to a strike grid
            strike = _round_strike(ref_price * (1 + off), token, rng)
        if strike <= 0:
            continue
        kind = rng.choice(["CALL", "PUT"])
        nm = instrument_name(token, expiry, strike, kind)
        if nm in instruments:
            continue
        instruments[nm] = {"type": kind, "strike": strike, "expiry": str(expiry)}
        meta[nm] = {"placement": place, "settle_hour": settle_h}
    # every expiry has its own underlying (the future it settles against): a constant basis of up to 3 % against the spot
    # path per instrument when the world asks for it, so that `underlying_price` of a book row and the account's token
    # price are different numbers
    basis = {nm: (1.0 + rng.uniform(-0.03, 0.03) if opts.get("basis") else 1.0) for nm in sorted(instruments)}
    dense_set = {nm for nm in sorted(instruments) if opts.get("dense_books") and rng.random() < 0.6}
    hrs = []
    for h, t in enumerate(hours):
        rows = {}
        for nm in sorted(instruments):
            s = path[h] * basis[nm]
            ins = instruments[nm]
            k = ins["strike"]
            intr = max(0.0, (s - k) / s) if ins["type"] == "CALL" else max(0.0, (k - s) / s)
            r = rng.random()
            if r < opts.get("tiny_marks", 0.1):
                mark = rng.choice([0.0, 0.0001, 0.0003, 0.0009, 0.00115])
            else:
                mark = intr + rng.uniform(0.0005, 0.06)
            mark_s = _flt(_dec(mark, mark_places))
            n_asks = rng.choice([0] + list(range(1, max_levels + 1)) * 3) if rng.random() < 0.3 else rng.randint(1, max_levels)
            n_bids = rng.choice([0] + list(range(1, max_levels + 1)) * 3) if rng.random() < 0.3 else rng.randint(1, max_levels)
            asks, bids = gen_book(rng, float(mark_s), tick, size_kind, n_asks, n_bids, places, dense=nm in dense_set)
            state = "closed" if rng.random() < opts.get("closed_state_prob", 0.03) else "open"
            rows[nm] = {
                "state": state, "mark": mark_s, "underlying": _dec(s, 2),
                "delta": _flt(_dec(rng.uniform(-1, 1), 5)), "gamma": _flt(_dec(rng.uniform(0, 0.01), 5)),
                "asks": asks, "bids": bids,
            }
        hrs.append({"t": str(t), "rows": rows})
    return {"kind": "deribit", "name": name, "token": token, "instruments": instruments, "hours": hrs,
            "meta": {"size_kind": size_kind, "instruments": meta}}


def _round_strike(x, token, rng):
    grid = rng.choice([1, 1, 5, 25, 50]) if token == "ETH" else rng.choice([1, 10, 100, 500])
    return max(grid, int(round(x / grid)) * grid)


# ------------------------------------------------------------------------------------------------- shrinking support
def after_truncate(scenario):
    """after the generic tail truncation of the minute series: drop hour rows beyond the new end; a world without a
    minutely co-market has one bar per hour, so its length is normalised to 60*k+1 minutes."""
    w = scenario["world"]
    n = int(w["n"])
    only = all(m["kind"] == "deribit" for m in w["markets"])
    if only:
        k = (n - 1) // 60
        n2 = 60 * k + 1
        if n2 != n:
            from ..shrink import truncate_world

            sc = truncate_world(scenario, n2) if n2 < n else scenario
            if sc is None:
                return None
            scenario, w, n = sc, sc["world"], n2
    end = pd.Timestamp(w["start"]) + pd.Timedelta(minutes=n - 1)
    for m in w["markets"]:
        if m["kind"] == "deribit":
            m["hours"] = [h for h in m["hours"] if pd.Timestamp(h["t"]) <= end]
            if not m["hours"]:
                return None
    return scenario


def bar_times(world):
    """the bar timestamps the real loop will visit (my own derivation of the grid, for the oracles)"""
    start = pd.Timestamp(world["start"])
    n = int(world["n"])
    iv = world.get("interval", "1min")
    k = int(pd.Timedelta(iv if iv[0].isdigit() else "1" + iv) / pd.Timedelta("1min"))
    only = all(m["kind"] == "deribit" for m in world["markets"])
    if only:
        stamps = sorted({pd.Timestamp(h["t"]) for m in world["markets"] for h in m["hours"]})
        if k == 1:
            return stamps
        # resampled: every bin label between the first and last present hour
        lab = sorted({_bin(t, k) for t in stamps})
        out, t = [], lab[0]
        while t <= lab[-1]:
            out.append(t)
            t += pd.Timedelta(minutes=k)
        return out
    minutes = [start + pd.Timedelta(minutes=i) for i in range(n)]
    if k == 1:
        return minutes
    lab = sorted({_bin(t, k) for t in minutes})
    return lab


def _bin(ts, k):
    mins = ts.hour * 60 + ts.minute
    return ts.normalize() + pd.Timedelta(minutes=(mins // k) * k)
