"""Seeded batch runner: farms run seeds over forked workers, aggregates coverage, matches violations against the
committed known-findings file, minimises and fresh-process-verifies unknown ones."""
import fnmatch
import importlib
import json
import multiprocessing
import os
import signal
import subprocess
import sys
import time
import faulthandler
from concurrent.futures import ProcessPoolExecutor, as_completed

from . import rng as R
from .canon import canon, digest

VERIF = os.path.dirname(os.path.dirname(os.path.abspath(__file__)))
KNOWN_FILE = os.path.join(VERIF, "known_findings.json")
REPLAY_DIR = os.environ.get("DSIM_REPLAY_DIR") or os.path.join(VERIF, "replays")
RUN_TIMEOUT_S = 60


def load_prop(pid: str):
    return importlib.import_module(f"dsim.props.{pid.lower()}")


class RunTimeout(Exception):
    pass


def _alarm(signum, frame):
    raise RunTimeout()


# Environment faults every property shares: the host's time zone. demeter's timestamps are naive UTC throughout, so
# no property may depend on the zone the process happens to run in; POSIX TZ strings need no zone database.
HOST_TZS = ["JST-9", "EST5EDT", "CET-1CEST", "NST3:30NDT", "<+1245>-12:45", "PST8PDT", "IST-5:30"]
ENV_TZ_RATE = 0.05


def gen(prop, seed, tier):
    """prop.generate() plus the environment faults of the run (own sub-stream, so the scenario itself is unchanged)."""
    sc = prop.generate(seed, tier)
    rate = getattr(prop, "ENV_TZ_RATE", ENV_TZ_RATE)
    if isinstance(sc, dict) and rate > 0:
        r = R.sub(seed, "env")
        if r.random() < rate:
            sc.setdefault("opts", {})["host_tz"] = r.choice(HOST_TZS)
            sc.setdefault("faults", []).append({"kind": "env:host_time_zone_not_utc"})
    return sc


def run_scenario(prop, scenario) -> dict:
    """Execute one scenario; return a picklable, JSON-able summary."""
    from . import bootstrap

    bootstrap.reset_process_state(scenario)
    sim = prop.execute(scenario)
    viol = [dict(v) for v in sim.violations]
    states = prop.abstract(scenario, sim) if hasattr(prop, "abstract") else sim.states
    return {
        "violations": viol,
        "digest": sim.log_digest(),
        "counters": dict(sim.counters),
        "states": sorted(states, key=repr),
        "n_ops": len(sim.op_results),
        "n_bars": len(sim.actuator.account_status) if hasattr(sim, "actuator") else 0,
        "n_events": len(sim.events),
        "sim_minutes": getattr(sim, "sim_minutes", None),
        "crash": None if sim.crash is None else type(sim.crash).__name__,
    }


def _run_chunk(args):
    pid, tier, seeds = args
    prop = load_prop(pid)
    signal.signal(signal.SIGALRM, _alarm)
    faulthandler.enable()
    out = []
    for s in seeds:
        rec = {"seed": s}
        try:
            signal.alarm(RUN_TIMEOUT_S)
            sc = gen(prop, s, tier)
            rec.update(run_scenario(prop, sc))
            rec["faults"] = [f["kind"] for f in sc.get("faults", [])]
            rec["interval"] = sc["world"].get("interval", "1min") if isinstance(sc.get("world"), dict) else None
            if rec.get("sim_minutes") is None:
                iv = rec["interval"] or "1min"
                iv = iv if iv[0].isdigit() else "1" + iv
                import pandas as pd

                rec["sim_minutes"] = rec["n_bars"] * int(pd.Timedelta(iv) / pd.Timedelta("1min"))
        except RunTimeout:
            rec["harness_error"] = f"run timeout > {RUN_TIMEOUT_S}s"
        except Exception as e:  # harness failure, never a violation
            import traceback

            rec["harness_error"] = f"{type(e).__name__}: {e}\n" + traceback.format_exc()[-1500:]
        finally:
            signal.alarm(0)
        out.append(rec)
    return out


def load_known(pid):
    if not os.path.exists(KNOWN_FILE):
        return []
    with open(KNOWN_FILE) as f:
        doc = json.load(f)
    return [k for k in doc.get("findings", []) if k["property"] == pid]


def match_known(known, v):
    for k in known:
        if k.get("status") != "known":
            continue  # "fixed" entries suppress nothing
        m = k["match"]
        if fnmatch.fnmatchcase(v["oracle"], m.get("oracle", "*")) and fnmatch.fnmatchcase(v["site"], m.get("site", "*")):
            return k
    return None


def batch(pid, tier, master_seed, n_runs, workers, wall_cap_s, chunk=8):
    """Run n_runs seeded scenarios. Returns aggregate dict."""
    prop = load_prop(pid)  # import in parent so forked workers share it
    seeds = [R.run_seed(master_seed, pid, i) for i in range(n_runs)]
    chunks = [(pid, tier, seeds[i : i + chunk]) for i in range(0, len(seeds), chunk)]
    t0 = time.time()
    agg = {
        "runs": 0, "ops": 0, "bars": 0, "events": 0, "counters": {}, "states": set(), "fault_kinds": {},
        "violating": [], "harness_errors": [], "digests": {}, "intervals": {}, "crashes": 0, "capped": False,
    }
    ctx = multiprocessing.get_context("fork")
    with ProcessPoolExecutor(max_workers=workers, mp_context=ctx) as ex:
        futs = []
        it = iter(chunks)
        # bounded submission so the wall cap can stop early
        inflight = set()
        done_all = False
        while True:
            while len(inflight) < workers * 2 and not done_all:
                c = next(it, None)
                if c is None:
                    done_all = True
                    break
                if time.time() - t0 > wall_cap_s:
                    agg["capped"] = True
                    done_all = True
                    break
                inflight.add(ex.submit(_run_chunk, c))
            if not inflight:
                break
            donef = next(as_completed(inflight))
            inflight.discard(donef)
            for rec in donef.result():
                _merge(agg, rec)
    agg["wall_s"] = time.time() - t0
    _sweep_private_dirs()
    return agg


def _sweep_private_dirs():
    """Workers of the seed farm are ended by the executor without running their atexit hooks: remove the private scratch
    directories (dsim-<pid>-*) of processes that no longer exist; directories of live processes (this one, the workers of a
    check running beside this one) are left alone."""
    import glob
    import shutil
    import tempfile

    for d in glob.glob(os.path.join(tempfile.gettempdir(), "dsim-*-*")):
        try:
            pid = int(os.path.basename(d).split("-")[1])
        except (IndexError, ValueError):
            continue
        if pid == os.getpid():
            continue
        try:
            os.kill(pid, 0)
        except ProcessLookupError:
            shutil.rmtree(d, ignore_errors=True)
        except OSError:
            pass


def _merge(agg, rec):
    if "harness_error" in rec:
        agg["harness_errors"].append(rec)
        return
    agg["runs"] += 1
    agg["ops"] += rec["n_ops"]
    agg["bars"] += rec["n_bars"]
    agg["events"] += rec["n_events"]
    agg["sim_minutes"] = agg.get("sim_minutes", 0) + (rec.get("sim_minutes") or 0)
    if rec.get("crash"):
        agg["crashes"] += 1
    for k, v in rec["counters"].items():
        agg["counters"][k] = agg["counters"].get(k, 0) + v
    for s in rec["states"]:
        agg["states"].add(_hashable(s))
    for f in rec.get("faults", []):
        agg["fault_kinds"][f] = agg["fault_kinds"].get(f, 0) + 1
    iv = rec.get("interval")
    agg["intervals"][iv] = agg["intervals"].get(iv, 0) + 1
    agg["digests"][rec["seed"]] = rec["digest"]
    if rec["violations"]:
        agg["violating"].append({"seed": rec["seed"], "violations": rec["violations"]})


def _hashable(s):
    if isinstance(s, list):
        return tuple(_hashable(x) for x in s)
    return s


def fresh_replay(path, timeout=300):
    """Re-execute a replay file in a fresh interpreter; returns (returncode, stdout)."""
    env = dict(os.environ)
    env["PYTHONHASHSEED"] = "0"
    p = subprocess.run(
        [sys.executable, "-m", "dsim.replay", path, "--quiet"], cwd=VERIF, env=env, capture_output=True, text=True, timeout=timeout
    )
    return p.returncode, p.stdout + p.stderr
