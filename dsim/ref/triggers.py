"""Denotational reference for demeter's time triggers (property C18, DESIGN §4/C18 and Appendix A.7).

Written from the property text: a trigger specification *denotes a set of instants*; the trigger must fire on exactly
those bars of the bar grid whose timestamp is a denoted instant.  Nothing here imports demeter.

Spec (plain JSON; times are ISO strings with minute resolution, time spans are whole minutes):

    {"kind": "at_time",  "time": "2023-08-13T08:05:00"}
    {"kind": "at_times", "times": [iso, ...]}
    {"kind": "range",    "start": iso, "end": iso}                      [start, end)
    {"kind": "ranges",   "ranges": [[iso, iso], ...]}                   union of [start, end)
    {"kind": "period",   "period": m, "pending": m, "immediate": bool}
    {"kind": "periods",  "periods": [m, ...], "pending": m, "immediate": bool}

Denotation (T0 = timestamp of the first bar on which the trigger is evaluated):

    at_time   {t}
    at_times  {t1, t2, ...}
    range     {x : start <= x < end}
    ranges    union of the ranges
    period    {T0 + pending + j*period : j >= 1}  (+ {T0} if immediate)
    periods   union over the periods, each one counted independently of the others  (+ {T0} if immediate)

and the bars on which the trigger must fire are  denotation  intersected with  {grid[i] : i >= first evaluated bar}.
"""
from datetime import datetime, timedelta

KINDS = ("at_time", "at_times", "range", "ranges", "period", "periods")
MINUTE = timedelta(minutes=1)


def parse_time(s: str) -> datetime:
    """a specification time denotes its minute: the bar clock has minute resolution and the time-trigger constructors
    document that they drop the seconds ('just set its second to 0')"""
    return datetime.fromisoformat(s).replace(second=0, microsecond=0)


def iso(t: datetime) -> str:
    return t.isoformat()


def bar_grid(start: datetime, n_minutes: int, k: int) -> list:
    """Timestamps of the bars the loop walks when n_minutes of contiguous minute data starting at `start` are
    re-sampled to k-minute bars (k divides 1440; bins are aligned to midnight and labelled by their left edge).
    k == 1: the minute grid itself."""
    if 1440 % k != 0:
        raise ValueError("bar interval must divide a day")
    midnight = datetime(start.year, start.month, start.day)
    mins = int((start - midnight).total_seconds() // 60)
    first = midnight + timedelta(minutes=(mins // k) * k)
    last_raw = start + timedelta(minutes=n_minutes - 1)
    out = []
    t = first
    step = timedelta(minutes=k)
    while t <= last_raw:
        out.append(t)
        t += step
    return out


def off_grid_periods(spec: dict, k) -> list:
    """Periods of a period(s) spec whose due times are not all bar timestamps of a k-minute grid (period or pending delay
    not a whole number of bars). What such a period denotes on that grid is not settled by the property text (never / when a
    due time happens to be a bar / on the next bar), so it is judged three-valued: see may_bars()."""
    if k is None or spec["kind"] not in ("period", "periods"):
        return []
    periods = [spec["period"]] if spec["kind"] == "period" else list(spec["periods"])
    if int(spec.get("pending", 0)) % k != 0:
        return [int(p) for p in periods]
    return [int(p) for p in periods if int(p) % k != 0]


def may_bars(spec: dict, grid: list, first_bar: int = 0, k=None) -> set:
    """Bars on which an off-grid period MAY fire without that being an error: every bar at or after its first due time."""
    off = off_grid_periods(spec, k)
    bars = grid[first_bar:]
    if not off or not bars:
        return set()
    first_due = bars[0] + timedelta(minutes=int(spec.get("pending", 0)) + min(off))
    return {b for b in bars if b >= first_due}


def instants(spec: dict, t0: datetime, horizon: datetime, k=None) -> set:
    """The point-like part of the denotation (everything except ranges) restricted to instants <= horizon. With a bar
    interval k, periods that are off that grid contribute nothing here (see may_bars)."""
    kind = spec["kind"]
    if kind == "at_time":
        return {parse_time(spec["time"])}
    if kind == "at_times":
        return {parse_time(x) for x in spec["times"]}
    if kind in ("period", "periods"):
        periods = [spec["period"]] if kind == "period" else list(spec["periods"])
        pending = timedelta(minutes=int(spec.get("pending", 0)))
        off = off_grid_periods(spec, k)
        out = set()
        for p in periods:
            if int(p) in off:
                continue
            out |= set(due_times(t0, int(p), pending, horizon))
        if spec.get("immediate", False):
            out.add(t0)
        return out
    return set()


def due_times(t0: datetime, period_min: int, pending: timedelta, horizon: datetime) -> list:
    if period_min <= 0:
        raise ValueError("period must be positive")
    p = timedelta(minutes=period_min)
    out = []
    t = t0 + pending + p
    while t <= horizon:
        out.append(t)
        t += p
    return out


def ranges_of(spec: dict) -> list:
    if spec["kind"] == "range":
        return [(parse_time(spec["start"]), parse_time(spec["end"]))]
    if spec["kind"] == "ranges":
        return [(parse_time(a), parse_time(b)) for a, b in spec["ranges"]]
    return []


def denoted_bars(spec: dict, grid: list, first_bar: int = 0, k=None) -> list:
    """Sorted list of bar timestamps (members of grid[first_bar:]) on which the trigger must fire."""
    if spec["kind"] not in KINDS:
        raise ValueError("unknown trigger kind " + str(spec["kind"]))
    bars = grid[first_bar:]
    if not bars:
        return []
    t0, horizon = bars[0], bars[-1]
    if spec["kind"] in ("range", "ranges"):
        rs = ranges_of(spec)
        return [b for b in bars if any(a <= b < e for a, e in rs)]
    pts = instants(spec, t0, horizon, k)
    return [b for b in bars if b in pts]


def coincidences(spec: dict, grid: list, first_bar: int = 0) -> list:
    """Bars on which two *different entries* of a periods spec are due together (sorted)."""
    if spec["kind"] != "periods":
        return []
    bars = grid[first_bar:]
    if not bars:
        return []
    t0, horizon = bars[0], bars[-1]
    pending = timedelta(minutes=int(spec.get("pending", 0)))
    seen, twice = set(), set()
    for p in spec["periods"]:
        for t in due_times(t0, int(p), pending, horizon):
            if t in seen:
                twice.add(t)
        seen |= set(due_times(t0, int(p), pending, horizon))
    on = set(bars)
    return sorted(t for t in twice if t in on)
