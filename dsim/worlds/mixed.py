"""Mixed worlds for C01: 1-4 markets of different families on one broker, one price frame, any legal account quote
token, plus programs that open / modify / close positions in every market from every phase and hostile histories
(price shocks that liquidate Aave / Squeeth positions at bar end, option expiry during the run, instruments or hours
missing from the option book, cash movements on closed option bars).

Everything is derived from the three sub-streams handed in (world / program / faults).  Family generators and
operation vocabularies are the families' own (dsim.worlds.uni / aave / squeeth / deribit / gmx); this module only
composes them and adds three account-level operations:

  acct.status   broker.get_account_status(prices of the bar, timestamp)    (the read C01 judges after operations)
  acct.swap     broker.swap_by_from(from, to, amount, prices of the bar)
  acct.sub      broker.subtract_from_balance(token, amount)
"""
import math
from decimal import Decimal

import pandas as pd

from ..sim import op, amount, HarnessError
from ..canon import D
from . import uni as U
from . import aave as A
from . import squeeth as S
from . import deribit as W
from . import gmx as G
from . import compose as C

PHASE_ORDER = ["initialize", "before_bar", "trigger", "on_bar", "after_bar", "notify"]
PHASES = ["before_bar", "trigger", "on_bar", "on_bar", "after_bar", "after_bar", "notify"]
DECIMALS = dict(C.DECIMALS)
DECIMALS.update(G.GLP_CATALOGUE)
DECIMALS.update({"ETH": 18, "BTC": 8})
BASE_PRICE = {"WETH": 1800.0, "WBTC": 27000.0, "UNI": 6.0, "WAVAX": 29.0, "DAI": 1.0, "USDT": 1.0, "USDC": 1.0, "MIM": 1.0, "USDC.E": 1.0}
STABLES = ("USDC", "USDT", "DAI", "MIM", "USDC.E")
ALIAS = {"ETH": "WETH", "BTC": "WBTC", "BTC.B": "WBTC"}  # same asset, same price path
UNI_PAIRS = [
    (("USDC", 6), ("WETH", 18)), (("WBTC", 8), ("WETH", 18)), (("WETH", 18), ("USDT", 6)), (("DAI", 18), ("WETH", 18)),
    (("WBTC", 8), ("USDC", 6)), (("WETH", 18), ("USDC", 6)),
]
AAVE_TOKENS = ["WETH", "USDC", "WBTC", "DAI", "USDT"]


# ================================================================================================== account ops
def bar_stamp(sim) -> pd.Timestamp:
    """timestamp of the bar an operation runs in (initialize: the first bar)"""
    if sim.bar >= 0 and sim.snapshot is not None:
        return pd.Timestamp(sim.snapshot.timestamp)
    return pd.Timestamp(sim.world["start"])  # every world's first bar is its start (option worlds start on a listed hour)


@op("acct.status")
def _acct_status(sim, m, a):
    ts = bar_stamp(sim)
    row = sim.actuator.token_prices.loc[ts]  # what a strategy has: snapshot.prices / self.prices.loc[now]
    sim.acct_call = {"op": "status", "ts": ts}
    return lambda: sim.broker.get_account_status(row, ts.to_pydatetime())


@op("acct.swap")
def _acct_swap(sim, m, a):
    ts = bar_stamp(sim)
    row = sim.actuator.token_prices.loc[ts]
    ft, tt = sim.token(a["from"]), sim.token(a["to"])
    amt = amount(sim, a.get("amount"))
    sim.acct_call = {"op": "swap", "ts": ts}
    return lambda: sim.broker.swap_by_from(ft, tt, amt, row)


@op("acct.sub")
def _acct_sub(sim, m, a):
    t = sim.token(a["token"])
    amt = amount(sim, a.get("amount"))
    sim.acct_call = {"op": "sub"}
    return lambda: sim.broker.subtract_from_balance(t, amt) and None


# ================================================================================================== price paths
def gen_usd_paths(rw, tokens, n, shocks=(), flat_stables=()):
    """token -> n floats (USD).  shocks: [(row, token, factor)] step changes from that row on.  Aliased tokens (ETH/WETH,
    BTC/WBTC/BTC.B) share one path.  Stable coins in `flat_stables` are exactly 1."""
    roots = []
    for t in tokens:
        r = ALIAS.get(t, t)
        if r not in roots:
            roots.append(r)
    out = {}
    for t in roots:
        if t in flat_stables:
            out[t] = [1.0] * n
            continue
        stable = t in STABLES
        p = (1.0 + rw.choice([0.0, 0.0, -0.0004, 0.0003, 0.001])) if stable else BASE_PRICE.get(t, 10.0) * math.exp(rw.uniform(-0.5, 0.5))
        vol = rw.choice([0.0, 0.0005, 0.002, 0.006]) * (0.02 if stable else 1.0)
        xs = []
        for i in range(n):
            for (b, tok, f) in shocks:
                if b == i and ALIAS.get(tok, tok) == t:
                    p *= f
            xs.append(p)
            p *= 1 + rw.uniform(-vol, vol)
        out[t] = xs
    for t in tokens:
        if t not in out:
            out[t] = list(out[ALIAS[t]])
    return out


def price_str(x: float, places=12) -> str:
    d = Decimal(repr(float(x))).quantize(Decimal(1).scaleb(-places))
    s = format(d, "f")
    s = s.rstrip("0").rstrip(".") if "." in s else s
    return s if s not in ("", "-0") else "0"


# ================================================================================================== world
def R_overdraft(rw):
    return rw.random() < 0.12


def gen_world(rw, rf, tier):
    """-> (world, info).  info carries what the program generator needs (per-market plans, bars, open/closed bars)."""
    quote = rw.choice(["USD"] * 5 + ["USDC"] * 3 + ["WETH"] * 2)
    if quote == "WETH":
        # GMX markets are USD-quoted; under a non-stable account quote their value is summed unconverted (C01 report):
        # kept as a minority configuration
        fam_pool = ["uni"] * 5 + ["deribit"] * 4 + ["gmx1", "gmx2"]
    else:
        fam_pool = ["uni", "uni", "aave", "aave", "squeeth", "squeeth", "deribit", "deribit", "gmx1", "gmx2"]
    nm = rw.choice([1, 2, 2, 3, 3, 4])
    fams = []
    while len(fams) < nm:
        f = rw.choice(fam_pool)
        if f == "uni" and fams.count("uni") < 2 or f != "uni" and f not in fams:
            fams.append(f)
    if quote == "WETH" and rw.random() < 0.5:
        fams = [f for f in fams if not f.startswith("gmx")] or ["uni"]
    fams.sort(key=["uni", "aave", "squeeth", "deribit", "gmx1", "gmx2"].index)
    has_drb = "deribit" in fams
    only_drb = fams == ["deribit"]
    quick = tier == "quick"
    if only_drb:
        H = rw.choice([2, 3, 3, 4, 6] if quick else [2, 3, 4, 6, 9, 14])
        n = 60 * (H - 1) + 1
    elif has_drb:
        H = rw.choice([1, 2, 2, 2, 2, 3] if quick else [1, 2, 2, 3, 4])
        n = 60 * (H - 1) + rw.choice([1, 3, 6, 12, 25] if quick else [1, 4, 9, 20, 33])
    else:
        n = rw.choice([4, 6, 10, 16, 24, 40] if quick else [6, 10, 16, 24, 40, 60, 90])
    if has_drb:
        start = pd.Timestamp("2023-08-13 00:00:00") + pd.Timedelta(hours=rw.randint(0, 47))
    else:
        start = pd.Timestamp("2023-08-13 00:00:00") + pd.Timedelta(minutes=rw.randint(0, 2000))

    # ---- which tokens
    tokens = {}
    plans = []
    uni_i = 0
    for f in fams:
        if f == "uni":
            t0, t1 = rw.choice(UNI_PAIRS)
            if rw.random() < 0.3:
                t0, t1 = t1, t0
            if quote == "WETH":
                q = rw.choice([t0[0], t1[0]])
            else:
                q = rw.choice([t0[0], t1[0]])
            plans.append({"fam": "uni", "name": f"uni{uni_i}", "t0": t0, "t1": t1, "quote": q})
            uni_i += 1
            tokens[t0[0]], tokens[t1[0]] = t0[1], t1[1]
        elif f == "aave":
            k = rw.choice([2, 3, 3])
            names = ["WETH"] + rw.sample([t for t in AAVE_TOKENS if t != "WETH"], k - 1)
            plans.append({"fam": "aave", "name": "aave0", "tokens": names})
            for t in names:
                tokens[t] = DECIMALS[t]
        elif f == "squeeth":
            plans.append({"fam": "squeeth", "name": "sq0", "pool": "sq0_pool", "lp": rw.random() < 0.7})
            tokens["WETH"], tokens["OSQTH"] = 18, 18
        elif f == "deribit":
            tk = rw.choice(["ETH", "ETH", "BTC"])
            plans.append({"fam": "deribit", "name": "drb0", "token": tk})
            tokens[tk] = DECIMALS[tk]
        elif f == "gmx1":
            extra = rw.sample(["USDC", "USDC.E", "BTC.B", "WBTC", "MIM"], rw.randint(1, 3))
            if not any(G.GLP_CATALOGUE[t] != 18 for t in extra):
                extra.append(rw.choice(["USDC", "WBTC"]))
            toks = {"WETH": 18, "WAVAX": 18}
            for t in extra:
                toks[t] = G.GLP_CATALOGUE[t]
            plans.append({"fam": "gmx1", "name": "glp0", "tokens": toks})
            tokens.update(toks)
        elif f == "gmx2":
            pool = rw.choice([("WETH", "USDC"), ("WETH", "USDC"), ("WBTC", "USDC")])
            plans.append({"fam": "gmx2", "name": "gm0", "long": pool[0], "short": pool[1]})
            tokens[pool[0]], tokens[pool[1]] = DECIMALS[pool[0]], DECIMALS[pool[1]]
    if quote != "USD":
        tokens.setdefault(quote, DECIMALS[quote])

    # ---- hostile price history (decided before the paths are drawn)
    shocks, faults = [], []
    for p in plans:
        if p["fam"] == "aave" and n >= 4 and rf.random() < 0.6:
            b = rf.randint(max(2, n // 4), n - 1)
            f = rf.choice([0.35, 0.5, 0.6, 0.75, 0.9])
            p["shock"] = {"bar": b, "token": "WETH", "factor": f}
            shocks.append((b, "WETH", f))
            faults.append({"kind": "price_shock", "bar": b, "market": "aave0", "token": "WETH", "factor": f})
        if p["fam"] == "squeeth" and n >= 4 and rf.random() < 0.55 and not any(s[1] == "WETH" for s in shocks):
            b = rf.randint(max(2, n // 4), n - 1)
            f = rf.choice([1.5, 2.0, 3.0, 4.0]) if p["lp"] else rf.choice([1.25, 1.5, 2.0, 3.0])
            p["shock"] = {"bar": b, "token": "WETH", "factor": f}
            shocks.append((b, "WETH", f))
            faults.append({"kind": "price_shock", "bar": b, "market": "sq0", "token": "WETH", "factor": f})
    flat = (quote,) if quote in STABLES else ()
    usd = gen_usd_paths(rw, list(tokens), n, shocks, flat_stables=flat)

    # ---- markets
    markets = []
    for p in plans:
        if p["fam"] == "uni":
            t0, t1 = p["t0"], p["t1"]
            if rw.random() < 0.7:
                mw = C.uni_from_prices(rw, p["name"], n, t0, t1, p["quote"], usd)
            else:  # pool price unrelated to the account prices (legal: C01 does not ask them to agree)
                b = t1[0] if p["quote"] == t0[0] else t0[0]
                mw = U.gen_uni_market(rw, p["name"], n, t0, t1, p["quote"], base_price=usd[b][0] / usd[p["quote"]][0] * rw.uniform(0.8, 1.25))
                mw["currentLiquidity"] = [x if int(x) > 0 else "1000000000000" for x in mw["currentLiquidity"]]
            p["mw"] = mw
            markets.append(mw)
        elif p["fam"] == "aave":
            mw = A.gen_aave_market(rw, p["name"], n, {t: usd[t] for t in p["tokens"]}, tokens=p["tokens"], all_enabled=True,
                                   index_style=rw.choice(["slow", "fast", "jumpy", None, "frozen"]))
            p["mw"] = mw
            markets.append(mw)
        elif p["fam"] == "squeeth":
            mw = S.gen_squeeth_market(rw, p["name"], n, {"WETH": usd["WETH"]}, pool_name=p["pool"], heavy_fees=rw.random() < 0.4)
            pool_mw, sq_mw = S.split_markets(mw)
            p["mw"], p["pool_mw"] = sq_mw, pool_mw
            markets += [pool_mw, sq_mw]
        elif p["fam"] == "deribit":
            mw = W.gen_deribit_market(
                rw, p["name"], n, {p["token"]: usd[p["token"]]}, token=p["token"], start=str(start),
                expiries=["after_last", "after_last", "on_hour", "between"], n_instruments=rw.choice([1, 2, 3, 4]),
                max_levels=rw.choice([2, 4, 8]), size_kinds=["int", "float_int"], closed_state_prob=0.0, tiny_marks=0.15,
            )
            _deribit_hostile(rf, mw, str(start), faults)
            p["mw"] = mw
            markets.append(mw)
        elif p["fam"] == "gmx1":
            mw = G.gen_gmx1_market(rw, p["name"], n, {t: usd[t] for t in p["tokens"]}, tokens=dict(p["tokens"]))
            p["mw"] = mw
            markets.append(mw)
        elif p["fam"] == "gmx2":
            mw = G.gen_gmx2_market(rw, p["name"], n, usd, long=p["long"], short=p["short"])
            p["mw"] = mw
            markets.append(mw)

    # ---- price frame in the account's quote token
    prices = {}
    sq = next((p for p in plans if p["fam"] == "squeeth"), None)
    for t in tokens:
        if quote == "USD" or quote in STABLES:
            prices[t] = [price_str(x) for x in usd[t]]
        else:
            prices[t] = [price_str(x / q) for x, q in zip(usd[t], usd[quote])]
    if sq is not None:  # the account's WETH / OSQTH prices are the squeeth frame's own columns
        prices.update(S.squeeth_price_columns(dict(sq["mw"], pool=sq["pool_mw"])))
    if quote != "USD":
        prices[quote] = ["1"] * n
    if quote == "WETH":
        # a price frame quoted in WETH that also states what a dollar is worth
        prices["USD"] = [price_str(1 / q, 18) for q in usd["WETH"]]

    assets = {}
    for t, d in tokens.items():
        usd_amt = 10 ** rw.uniform(4.5, 7)
        assets[t] = format((Decimal(repr(usd_amt)) / Decimal(repr(usd[t][0]))).quantize(Decimal(1).scaleb(-min(d, 8))), "f")
    if sq is not None:
        assets["OSQTH"] = rw.choice(["40", "400"]) if sq["lp"] else rw.choice(["0", "40", "400"])
        assets["WETH"] = rw.choice(["60", "200", "1000"])
    world = {
        "start": str(start), "n": n, "interval": "1min", "tokens": tokens, "assets": assets, "quote": quote,
        "prices": prices, "markets": markets,
    }
    if R_overdraft(rw):
        # an account that may be overdrawn (Actuator(allow_negative_balance=True)): a negative wallet balance is a holding too
        world["allow_negative_balance"] = True
        faults.append({"kind": "overdraft_allowed"})
    times = W.bar_times(world) if has_drb else [start + pd.Timedelta(minutes=i) for i in range(n)]
    info = {"plans": plans, "quote": quote, "times": times, "usd": usd, "faults": faults, "start": start, "only_drb": only_drb}
    return world, info


def _deribit_hostile(rf, mw, start, faults):
    """listing realism and hostile history around expiry (as in the C16 worlds): expired instruments leave the book,
    an instrument or a whole hour is missing; never the first hour."""
    meta = mw["meta"]["instruments"]
    hours = mw["hours"]
    for nm in sorted(mw["instruments"]):
        k = meta[nm]["settle_hour"]
        if meta[nm]["placement"] == "between":
            faults.append({"kind": "expiry_on_closed_bar", "instrument": nm})
        if k is None:
            continue
        if rf.random() < 0.7:
            for h in hours[k + 1:]:
                h["rows"].pop(nm, None)
    if len(hours) > 1 and rf.random() < 0.3:
        h = rf.randint(1, len(hours) - 1)
        if rf.random() < 0.6 and len(hours[h]["rows"]) > 1:
            nm = rf.choice(sorted(hours[h]["rows"]))
            del hours[h]["rows"][nm]
            faults.append({"kind": "missing_instrument", "hour": h})
        else:
            t = hours[h]["t"]
            mw["hours"] = [x for x in hours if x["t"] != t]
            faults.append({"kind": "missing_hour", "hour": h})
    mw["hours"] = [h for h in mw["hours"] if h["rows"] or h["t"] == start]
    if not mw["hours"][0]["rows"]:
        nm = sorted(mw["instruments"])[0]
        mw["hours"][0]["rows"][nm] = {"state": "open", "mark": "0.01", "underlying": "1800.00", "delta": "0.5", "gamma": "0.001", "asks": [["0.02", "5"]], "bids": []}


# ================================================================================================== programs
def gen_program(rp, rf, world, info):
    program, faults = [], info["faults"]
    times = info["times"]
    nb = len(times)
    n = world["n"]
    start = info["start"]

    def row_of(bar):
        return int((times[max(bar, 0)] - start) / pd.Timedelta("1min"))

    def slot(lo=0, hi=None, init_ok=True):
        hi = nb - 1 if hi is None else min(hi, nb - 1)
        lo = min(lo, hi)
        if init_ok and lo == 0 and rp.random() < 0.08:
            return -1, "initialize"
        return rp.randint(lo, hi), rp.choice(PHASES)

    def emit(bar, phase, opname, m, a):
        if bar < 0:
            phase = "initialize"
        program.append({"bar": bar, "phase": phase, "op": opname, "m": m, "a": a})

    drb = next((p for p in info["plans"] if p["fam"] == "deribit"), None)
    for p in info["plans"]:
        fam = p["fam"]
        if fam == "uni":
            _uni_program(rp, p, nb, row_of, slot, emit, program)
        elif fam == "aave":
            _aave_program(rp, p, nb, slot, emit)
        elif fam == "squeeth":
            _squeeth_program(rp, p, nb, row_of, slot, emit)
        elif fam == "deribit":
            _deribit_program(rp, rf, p, world, times, slot, emit, faults)
        elif fam == "gmx1":
            _gmx1_program(rp, p, nb, slot, emit)
        elif fam == "gmx2":
            _gmx2_program(rp, p, nb, slot, emit)
    # account-level reads and wallet operations, anywhere
    for _ in range(rp.choice([0, 1, 2, 3, 5])):
        b, ph = slot()
        emit(b, ph, "acct.status", None, {})
    toks = sorted(world["tokens"])
    for _ in range(rp.choice([0, 0, 1, 2])):
        b, ph = slot()
        if len(toks) >= 2 and rp.random() < 0.7:
            f, t = rp.sample(toks, 2)
            emit(b, ph, "acct.swap", None, {"from": f, "to": t, "amount": {"f": f"wallet:{f}", "x": rp.choice(["0.05", "0.3", "1", "1.5", "2.5"] if world.get("allow_negative_balance") else ["0.05", "0.3", "1", "1.5"])}})
        else:
            f = rp.choice(toks)
            emit(b, ph, "acct.sub", None, {"token": f, "amount": {"f": f"wallet:{f}", "x": rp.choice(["0.1", "0.5"])}})
    program.sort(key=lambda o: (o["bar"], PHASE_ORDER.index(o["phase"])))
    return program


def _uni_program(rp, p, nb, row_of, slot, emit, program):
    mw = p["mw"]
    ticks = mw["closeTick"]
    k = rp.choice([2, 3, 4, 6, 9])
    for j in range(k):
        b, ph = slot(0, nb // 2 if j < 2 else None)
        r = row_of(b)
        cur = ticks[max(r - 1, 0)]
        o = U.random_uni_op(rp, mw, cur, hostile=0.08)
        if j == 0 and o["op"] not in ("uni.add_by_tick", "uni.add_by_value"):
            sp = U.spacing_of(mw["fee"])
            lo = (int(cur) // sp) * sp - rp.randint(0, 6) * sp
            bq = U.base_quote(mw)
            o = {"op": "uni.add_by_tick", "m": mw["name"], "a": {"lo": lo, "hi": lo + rp.randint(1, 12) * sp,
                 "base": {"f": f"wallet:{bq[0]}", "x": "0.2"}, "quote": {"f": f"wallet:{bq[1]}", "x": "0.2"}}}
        if o["op"] == "uni.add_by_tick" and "lo" in o["a"] and rp.random() < 0.12:
            # a (nearly) full-range position: boundary ticks whose magnitude has the highest bits of the tick maths set
            sp = U.spacing_of(mw["fee"])
            o["a"]["lo"] = -((887272 - rp.choice([0, 0, 1000, 200000, 362000])) // sp) * sp
            o["a"]["hi"] = ((887272 - rp.choice([0, 0, 1000, 200000, 362000])) // sp) * sp
        o.pop("hostile", None)
        emit(b, ph, o["op"], o["m"], o["a"])


def _aave_program(rp, p, nb, slot, emit):
    name, toks = p["name"], p["tokens"]
    shock = p.get("shock")
    others = [t for t in toks if t != "WETH"]
    early = max(0, (shock["bar"] - 1) if shock else nb // 2)
    # a leveraged position on WETH collateral (what a WETH price drop liquidates)
    b0, ph0 = slot(0, min(early, 2))
    emit(b0, ph0 if b0 >= 0 else "initialize", "aave.supply", name, {"token": "WETH", "amount": {"f": "wallet:WETH", "x": rp.choice(["0.2", "0.5", "0.8"])}, "collateral": True})
    if rp.random() < 0.5:
        t = rp.choice(others)
        emit(b0, "after_bar", "aave.supply", name, {"token": t, "amount": {"f": f"wallet:{t}", "x": rp.choice(["0.1", "0.4"])}, "collateral": rp.random() < 0.6})
    nbor = rp.choice([1, 1, 2])
    for j in range(nbor):
        t = rp.choice(others)
        bb = max(b0, 0) + (0 if rp.random() < 0.5 else 1)
        bb = min(bb, nb - 1)
        x = rp.choice(["0.3", "0.6", "0.85", "0.95", "0.99"]) if j == nbor - 1 else rp.choice(["0.2", "0.4"])
        emit(bb, "after_bar" if bb == max(b0, 0) else rp.choice(PHASES), "aave.borrow", name, {"token": t, "amount": {"f": f"ref_max_borrow:{t}", "x": x}})
    for _ in range(rp.choice([0, 1, 2, 4, 6])):
        b, ph = slot(max(b0, 0), None, init_ok=False)
        r = rp.random()
        if r < 0.2:
            emit(b, ph, "aave.repay", name, {"token": {"borrowed": rp.randint(0, 2)}, "amount": {"f": "debt", "x": rp.choice(["0.1", "0.5", "1", "1.2"])}})
        elif r < 0.4:
            emit(b, ph, "aave.withdraw", name, {"token": {"supplied": rp.randint(0, 2)}, "amount": rp.choice([None, {"f": "supply", "x": "0.3"}, {"f": "ref_max_withdraw", "x": "0.9"}])})
        elif r < 0.55:
            t = rp.choice(toks)
            emit(b, ph, "aave.supply", name, {"token": t, "amount": {"f": f"wallet:{t}", "x": rp.choice(["0.05", "0.3"])}, "collateral": True})
        elif r < 0.65:
            emit(b, ph, "aave.change_collateral", name, {"token": {"supplied": rp.randint(0, 2)}})
        elif r < 0.8:
            emit(b, ph, "aave.read", name, {"view": rp.choice(["get_market_balance", "supplies_value", "borrows_value", "supplies", "health_factor"])})
        else:
            t = rp.choice(others)
            emit(b, ph, "aave.borrow", name, {"token": t, "amount": {"f": f"ref_max_borrow:{t}", "x": rp.choice(["0.1", "0.5", "1.3"])}})


def _squeeth_program(rp, p, nb, row_of, slot, emit):
    name, pool = p["name"], p["pool"]
    pmw = p["pool_mw"]
    sp = S.POOL_SPACING
    shock = p.get("shock")
    early = max(0, (shock["bar"] - 1) if shock else nb // 2)
    nv = rp.choice([1, 1, 2])
    for j in range(nv):
        b0, ph0 = slot(0, min(early, 3))
        if b0 < 0:
            ph0 = "initialize"
        dep = rp.choice(["1", "2", "5", "10", "25"])
        rate = rp.choice(["1.51", "1.55", "1.6", "1.75", "2", "2.5", "3"])
        pos_arg = None
        with_lp = p["lp"] and (j == 0 or rp.random() < 0.4)
        if with_lp:
            cur = pmw["closeTick"][max(row_of(b0) - 1, 0)]
            w = rp.choice([1, 2, 4, 8, 20, 60])
            style = rp.random()
            if style < 0.65:
                lo = (cur // sp) * sp - rp.randint(0, w) * sp
            elif style < 0.85:
                lo = (cur // sp) * sp + rp.randint(1, 6) * sp
            else:
                lo = (cur // sp) * sp - (w + rp.randint(1, 6)) * sp
            lo -= 2 * j * 61 * sp  # distinct ranges per vault
            hi = lo + w * sp
            pos_arg = {"lo": lo, "hi": hi}
            if shock and shock["bar"] + 1 <= nb - 1 and rp.random() < 0.5:
                # liquidity provided again on exactly the same range after the price shock (the vault may have been liquidated
                # and its LP redeemed by then): whatever became of the old position, the new liquidity is a holding
                rb = rp.randint(shock["bar"] + 1, nb - 1)
                emit(rb, rp.choice(["before_bar", "on_bar", "after_bar"]), "uni.add_by_tick", pool,
                     {"lo": lo, "hi": hi, "base": {"f": "wallet:OSQTH", "x": "0.3"}, "quote": rp.choice(["0.5", "3"])})
            # mint first so that there is oSQTH to provide, or use wallet oSQTH
            lb = b0 if b0 < 0 else rp.randint(0, b0)
            emit(lb, "initialize" if lb < 0 else "before_bar", "uni.add_by_tick", pool,
                 {"lo": lo, "hi": hi, "base": {"f": "wallet:OSQTH", "x": rp.choice(["0.2", "0.5", "0.9"])}, "quote": rp.choice(["0.5", "2", "8", "0"])})
        in_open = with_lp and rp.random() < 0.4
        a = {"deposit": dep, "rate": rate}
        if in_open:
            a["pos"] = pos_arg
        emit(b0, ph0 if ph0 != "before_bar" else "on_bar", "sq.open_deposit_mint_by_collat_rate", name, a)
        if with_lp and not in_open:
            lb2 = min(nb - 1, max(b0, 0) + rp.randint(0, 2))
            emit(lb2, "after_bar", "sq.deposit_uni_position", name, {"vault": {"i": j}, "pos": pos_arg})
    for _ in range(rp.choice([0, 1, 2, 3, 5, 8])):
        b, ph = slot(0, None, init_ok=False)
        v = {"i": rp.randint(0, nv - 1)}
        r = rp.random()
        if r < 0.14:
            emit(b, ph, "sq.deposit", name, {"vault": v, "amount": rp.choice(["0.1", "1", "3"])})
        elif r < 0.3:
            emit(b, ph, "sq.burn_and_withdraw", name, {"vault": v, "burn": rp.choice(["0", {"f": f"sqshort:{name}#{v['i']}", "x": rp.choice(["0.1", "0.5", "1"])}]),
                                                      "withdraw": rp.choice(["0", {"f": f"sqcoll:{name}#{v['i']}", "x": rp.choice(["0.05", "0.3", "1"])}])})
        elif r < 0.42:
            emit(b, ph, "sq.withdraw_uni_position", name, {"vault": v, "pos": {"vault": v["i"]}})
        elif r < 0.52:
            emit(b, ph, "sq.deposit_uni_position", name, {"vault": v, "pos": {"i": rp.randint(0, 3)}})
        elif r < 0.6:
            emit(b, ph, "sq.open_deposit_mint", name, {"vault": v, "deposit": rp.choice(["0", "0.5"]), "mint": {"f": f"sqshort:{name}#{v['i']}", "x": rp.choice(["0.02", "0.1", "0.4"])}})
        elif r < 0.66:
            emit(b, ph, "sq.buy_squeeth", name, {"osqth": rp.choice(["1", "10"])})
        elif r < 0.72:
            emit(b, ph, "sq.sell_squeeth", name, {"osqth": {"f": "wallet:OSQTH", "x": rp.choice(["0.1", "0.5"])}})
        elif r < 0.78:
            emit(b, ph, "sq.read_balance", name, {})
        elif r < 0.88:  # the pool's own operations on a lent or free position (same NFT model)
            o = rp.choice(["uni.collect", "uni.remove", "uni.add_by_tick"])
            if o == "uni.add_by_tick":
                cur = pmw["closeTick"][max(row_of(b) - 1, 0)]
                lo = (cur // sp) * sp - rp.randint(0, 8) * sp
                emit(b, ph, o, pool, {"lo": lo, "hi": lo + rp.randint(1, 10) * sp, "base": {"f": "wallet:OSQTH", "x": "0.2"}, "quote": "0.5"})
            elif o == "uni.remove":
                emit(b, ph, o, pool, {"pos": {"i": rp.randint(0, 3)}, "liq": {"f": f"liq:{pool}#{rp.randint(0, 3)}", "x": rp.choice(["0.3", "1"])}, "collect": rp.random() < 0.5})
            else:
                emit(b, ph, o, pool, {"pos": {"i": rp.randint(0, 3)}})
        elif r < 0.94:
            emit(b, ph, "sq.liquidate", name, {"vault": v})
        else:
            emit(b, ph, "uni.read_balance", pool, {})


def _deribit_program(rp, rf, p, world, times, slot, emit, faults):
    name, token, mw = p["name"], p["token"], p["mw"]
    present = {h["t"]: h for h in mw["hours"]}
    opens = [i for i, t in enumerate(times) if t == t.floor("1h") and str(t) in present]
    closed = [i for i in range(len(times)) if i not in set(opens)]
    names = sorted(mw["instruments"])
    lots = ["1", "2", "3", "10"] if token == "ETH" else ["0.1", "0.5", "1", "2.5"]
    emit(-1 if rp.random() < 0.7 else 0, "before_bar", "deribit.deposit", name, {"amount": {"f": f"wallet:{token}", "x": rp.choice(["0.3", "0.5", "0.8"])}})
    for idx, nm in enumerate(names):
        if rp.random() < 0.15:
            continue
        hs = [i for i in opens if nm in present[str(times[i])]["rows"]]
        if not hs:
            continue
        for _ in range(rp.choice([1, 1, 2])):
            b = rp.choice(hs[: max(1, (len(hs) + 1) // 2)])
            emit(b, rp.choice(PHASES), "deribit.buy", name, {"inst": {"i": idx}, "amount": {"abs": rp.choice(lots), "max_depth": "1"}})
        if rp.random() < 0.3:
            b = rp.choice(hs)
            emit(b, rp.choice(["on_bar", "after_bar"]), "deribit.sell", name, {"inst": {"name": nm}, "amount": {"holding": rp.choice(["0.5", "1", "0.3"]), "else": "0", "max_depth": "1"}})
    # cash movements: on closed bars (the hostile placement) and on open bars
    for _ in range(rp.choice([0, 1, 1, 2, 3])):
        on_closed = bool(closed) and rf.random() < 0.7
        b = rf.choice(closed) if on_closed else rf.choice(opens)
        kind = rf.choice(["deposit", "withdraw"])
        if on_closed:
            faults.append({"kind": f"{kind}_on_closed_bar", "bar": b})
        if kind == "deposit":
            emit(b, rf.choice(PHASES), "deribit.deposit", name, {"amount": {"f": f"wallet:{token}", "x": rf.choice(["0.1", "0.3", "0.6"])}})
        else:
            emit(b, rf.choice(PHASES), "deribit.withdraw", name, {"amount": {"f": f"cash:{name}", "x": rf.choice(["0.1", "0.5", "0.97", "1", "1.5"])}})
    for _ in range(rp.choice([0, 1, 2])):
        b, ph = slot()
        emit(b, ph, "deribit.read_balance", name, {})
    if closed and rp.random() < 0.3:
        b = rp.choice(closed)
        emit(b, rp.choice(PHASES), "deribit.buy", name, {"inst": {"i": 0}, "amount": {"abs": lots[0]}})
        faults.append({"kind": "closed_market", "bar": b})


def _gmx1_program(rp, p, nb, slot, emit):
    name, toks = p["name"], list(p["tokens"])
    for j in range(rp.choice([1, 2, 3, 5])):
        b, ph = slot(0, nb // 2 if j == 0 else None)
        t = rp.choice(toks)
        r = rp.random()
        if j == 0 or r < 0.5:
            emit(b, ph, "gmx1.buy_glp", name, {"token": t, "amount": {"f": f"wallet:{t}", "x": rp.choice(["0.05", "0.2", "0.5", "1.5"])}})
        elif r < 0.85:
            x = rp.choice(["0.1", "0.5", "1", None, "1.5"])
            emit(b, ph, "gmx1.sell_glp", name, {"token": t, "amount": None if x is None else {"f": f"held:{name}", "x": x}})
        else:
            emit(b, ph, "gmx1.read_balance", name, {})


def _gmx2_program(rp, p, nb, slot, emit):
    name = p["name"]
    for j in range(rp.choice([1, 2, 3, 5])):
        b, ph = slot(0, nb // 2 if j == 0 else None)
        r = rp.random()
        if j == 0 or r < 0.5:
            a = {}
            side = rp.choice(["long", "short", "both"])
            if side != "short":
                a["long"] = {"f": f"wallet:{p['long']}", "x": rp.choice(["0.05", "0.2", "0.5"])}
            if side != "long":
                a["short"] = {"f": f"wallet:{p['short']}", "x": rp.choice(["0.05", "0.2", "0.5"])}
            emit(b, ph, "gmx2.deposit", name, a)
        elif r < 0.85:
            x = rp.choice(["0.1", "0.5", "1", None, "1.5"])
            emit(b, ph, "gmx2.withdraw", name, {"amount": None if x is None else {"f": f"held:{name}", "x": x}})
        else:
            emit(b, ph, "gmx2.read_balance", name, {})
