"""python -m dsim.selftest [--quick|--full] : validate the machinery itself.

* imports demeter from /repo, MANIFEST / evidence schema validation (when jsonschema is available)
* determinism: for every claimed property, N run seeds executed twice in this process, once in a fresh interpreter
  with PYTHONHASHSEED=0 and once with PYTHONHASHSEED=12345 - event-log digests must be identical
  (--full adds a 16-worker vs 1-worker batch comparison)
exit 0 ok, 2 on any failure.
"""
import json
import os
import subprocess
import sys

from . import bootstrap

VERIF = os.path.dirname(os.path.dirname(os.path.abspath(__file__)))


def claimed():
    with open(os.path.join(VERIF, "MANIFEST.json")) as f:
        return [c["property_id"] for c in json.load(f)["checks"]]


def digests(pid, n, tier="quick", master=0):
    from . import runner, rng as R

    prop = runner.load_prop(pid)
    out = {}
    if hasattr(prop, "selftest_digests"):
        return prop.selftest_digests(n, tier, master)
    for i in range(n):
        s = R.run_seed(master, pid, i)
        rec = runner.run_scenario(prop, runner.gen(prop, s, tier))
        out[str(s)] = rec["digest"] + ":" + str(sorted((v["oracle"], v["site"]) for v in rec["violations"]))
    return out


def runner_mod():
    from . import runner

    return runner


def main(argv):
    if "--digests" in argv:
        bootstrap.init()
        i = argv.index("--digests")
        pid, n = argv[i + 1], int(argv[i + 2])
        print("DIGESTS " + json.dumps(digests(pid, n), sort_keys=True))
        return 0
    bootstrap.ensure_hashseed()
    bootstrap.init()
    full = "--full" in argv
    n = int(os.environ.get("DSIM_SELFTEST_N", "0")) or (60 if full else 12)
    rc = 0
    # schema validation
    try:
        import jsonschema

        with open("/root/.vp/MANIFEST.schema.json") as f:
            schema = json.load(f)
        with open(os.path.join(VERIF, "MANIFEST.json")) as f:
            jsonschema.validate(json.load(f), schema)
        print("selftest: MANIFEST.json valid")
    except ImportError:
        print("selftest: jsonschema not available, MANIFEST schema validation skipped")
    except FileNotFoundError as e:
        print(f"selftest: schema file not found ({e}), skipped")
    except Exception as e:
        print(f"selftest: MANIFEST invalid: {e}")
        rc = 2
    only = [a for a in argv if a.startswith("C")]
    for pid in only or claimed():
        a = digests(pid, n)
        b = digests(pid, n)
        if a != b:
            print(f"selftest: {pid} NONDETERMINISTIC within one process")
            rc = 2
            continue
        ok = True
        for hs in ("0", "12345"):
            env = dict(os.environ)
            env["PYTHONHASHSEED"] = hs
            p = subprocess.run([sys.executable, "-m", "dsim.selftest", "--digests", pid, str(n)], cwd=VERIF, env=env, capture_output=True, text=True, timeout=900)
            line = [l for l in p.stdout.splitlines() if l.startswith("DIGESTS ")]
            if not line:
                print(f"selftest: {pid} fresh interpreter failed (hashseed {hs}): {p.stderr[-500:]}")
                rc = 2
                ok = False
                continue
            c = json.loads(line[0][8:])
            if c != a:
                diff = [k for k in a if a[k] != c.get(k)]
                print(f"selftest: {pid} digest mismatch under PYTHONHASHSEED={hs} for {len(diff)}/{len(a)} seeds, e.g. {diff[:3]}")
                rc = 2
                ok = False
        if ok and full and not hasattr(runner_mod().load_prop(pid), "custom_check"):
            # the same seeds farmed over 16 forked workers (what dsim.check does) must give the same digests as the
            # sequential in-process runs above
            agg = runner_mod().batch(pid, "quick", 0, n, 16, 600)
            got = {str(k): v for k, v in agg["digests"].items()}
            want = {k: v.split(":")[0] for k, v in a.items()}
            bad = [k for k in want if got.get(k) != want[k]]
            if bad or agg["harness_errors"]:
                print(f"selftest: {pid} 16-worker batch differs from sequential runs for {len(bad)}/{len(want)} seeds, harness errors {len(agg['harness_errors'])}")
                rc = 2
                ok = False
        if ok:
            print(f"selftest: {pid} deterministic over {n} seeds x (2 in-process + 2 fresh interpreters, hash seeds 0 and 12345" + ("; + 16-worker batch)" if full else ")"))
    print("selftest:", "OK" if rc == 0 else "FAILED")
    return rc


if __name__ == "__main__":
    sys.exit(main(sys.argv[1:]))
