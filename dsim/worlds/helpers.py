"""Read-only library helpers a strategy may call for its own decisions: module-level functions of demeter that involve no
market or account state (tick / price conversions, range finders, greeks, indicators, metrics, formatting, small
per-protocol helpers).  The op `lib.read_helpers` calls a named subset; their VALUES are not judged anywhere - what is
judged, by whichever property's oracle is running, is that calling them changes nothing else (a lowered Decimal precision,
a module-level memo, an edited argument).  Every call is guarded: an exception inside a helper is the helper's own business.
"""
import contextlib
import io
from datetime import timedelta
from decimal import Decimal

import pandas as pd

from ..sim import op

D = Decimal


def _series(n=24, dec=True):
    idx = pd.date_range("2023-01-01", periods=n, freq="1min")
    vals = [D(1500) + D((7 * i * i) % 31) / D(3) for i in range(n)]
    return pd.Series(vals if dec else [float(v) for v in vals], index=idx)


def _uni_conversions():
    from demeter.uniswap import helper as H

    out = []
    for is0 in (True, False):
        t = H.base_unit_price_to_tick(D("1873.25"), 6, 18, is0)
        out.append(t)
        out.append(H.tick_to_base_unit_price(t, 6, 18, is0))
        sp = H.base_unit_price_to_sqrt_price_x96(D("1873.25"), 6, 18, is0)
        out.append(H.sqrt_price_x96_to_base_unit_price(sp, 6, 18, is0))
        out.append(H.sqrt_price_x96_to_tick(sp))
    out.append(H.nearest_usable_tick(200137, 60))
    out.append(H.from_atomic_unit(123456789, 6))
    out.append(H.get_swap_value(D(1000), D(3000), D("0.003"), D(1)))
    return out


def _uni_greeks():
    from demeter.uniswap.helper import get_greeks

    return [get_greeks(D(p), D(1000), D(1500)) for p in (2000, 900, 1200, 1000, 1500)]


def _uni_find_range():
    from demeter.uniswap.helper import find_tick_range_at_rate

    out = []
    for args in ((D(2000), D(1), 10, 6, 18, True, D("0.01")), (D(1) / D(2000), D(1), 10, 18, 6, False, D("0.01")), (D(2000), D(2), 60, 6, 18, True, D("0.01"))):
        out.append(find_tick_range_at_rate(*args))
    return out


def _uni_math():
    from demeter.uniswap import liquitidy_math as LM

    sq = LM.get_sqrt_ratio_at_tick(200100)
    liq = LM.get_liquidity(sq, 199800, 200400, D(1000), D("0.5"), 6, 18)
    return [liq, LM.get_amounts(sq, 199800, 200400, liq, 6, 18), LM.estimate_ratio(200100, 199800, 200400), LM.amounts_relation(200100, 199800, 200400, 6, 18)]


def _indicators():
    from demeter.indicator import realized_volatility, simple_moving_average, exponential_moving_average

    ser = _series()
    out = [realized_volatility(ser, timedelta(minutes=3), timedelta(hours=1)).iloc[-1]]
    out.append(realized_volatility(_series(dec=False), timedelta(minutes=3), timedelta(hours=1)).iloc[-1])
    out.append(simple_moving_average(_series(dec=False), timedelta(minutes=4)).iloc[-1])
    out.append(simple_moving_average(ser, timedelta(minutes=4)).iloc[-1])
    out.append(exponential_moving_average(_series(dec=False), span=4).iloc[-1])
    return out


def _metrics():
    from demeter.result.metrics import calculator as C
    from demeter.result.metrics.core import performance_metrics, round_results

    idx = pd.date_range("2023-01-01", periods=72, freq="1h")
    nv = pd.Series([1000 + ((13 * i * i) % 47) - 0.3 * i for i in range(72)], index=idx, dtype=float)
    bench = pd.Series([1800 + ((5 * i) % 23) for i in range(72)], index=idx, dtype=float)
    out = [C.max_draw_down(nv), C.return_rate(nv.iloc[0], nv.iloc[-1]), C.return_rate_series(nv).iloc[-1], C.annualized_return(3, net_values=nv), C.annualized_return(3, init_value=1000.0, final_value=1010.0)]
    out.append(round_results(performance_metrics(nv, benchmark=bench)))
    out.append(performance_metrics(nv.map(lambda x: D(str(x))), benchmark=bench.map(lambda x: D(str(x)))))
    return out


def _formatting():
    from demeter.utils import console_text as T
    from demeter.utils.application import to_decimal, object_to_decimal

    df = pd.DataFrame({"a": [D("1.23456789"), D(2)], "b": [1.5, 2.5]})
    T.print_dataframe_with_precision(df)
    return [T.format_value(D("1.23456789")), T.format_value(1.5), T.get_formatted_from_dict({"x": "1", "y": "2"}), to_decimal("1.5"), to_decimal(1.5), object_to_decimal(3)]


def _protocol_helpers():
    from demeter.deribit.helper import round_decimal, decode_instrument, order_converter, get_new_order_list
    from demeter.aave.helper import sub_base_amount
    from demeter.aave.core import AaveV3CoreLib
    from demeter.squeeth.helper import calc_twap_price

    book = [[0.05, 3], [0.055, 4.5]]
    out = [round_decimal("2.5", 0), round_decimal(D("0.12345678"), -6), decode_instrument("ETH-16FEB24-2500-C"), order_converter("[[0.05, 3], [0.055, 4.5]]")]
    out.append(get_new_order_list(book, [[0.05, 1]]) if book else None)
    out.append(sub_base_amount(D("1.5"), D("0.5")))
    out.append(AaveV3CoreLib.rate_to_apy(D("0.031")))
    out.append(AaveV3CoreLib.get_amount(AaveV3CoreLib.get_base_amount(D("12.5"), D("1.07")), D("1.09")))
    out.append(calc_twap_price(_series(7)))
    return out


CATALOGUE = {
    "uni_conversions": _uni_conversions,
    "uni_greeks": _uni_greeks,
    "uni_find_range": _uni_find_range,
    "uni_math": _uni_math,
    "indicators": _indicators,
    "metrics": _metrics,
    "formatting": _formatting,
    "protocol_helpers": _protocol_helpers,
}
NAMES = sorted(CATALOGUE)


def call_helpers(names):
    """Call the named helper groups with stdout swallowed; returns per group 'ok' or the exception type (values unjudged)."""
    res = []
    for nm in names:
        f = CATALOGUE.get(nm)
        if f is None:
            continue
        try:
            with contextlib.redirect_stdout(io.StringIO()):
                f()
            res.append([nm, "ok"])
        except Exception as e:  # noqa: the helper's own business
            res.append([nm, type(e).__name__])
    return res


def pick(rng, k=None):
    """a seeded subset of the catalogue (JSON-able list of names)"""
    k = k or rng.choice([1, 1, 2, 3])
    return sorted(rng.sample(NAMES, min(k, len(NAMES))))


@op("lib.read_helpers")
def _read_helpers(sim, market, a):
    names = list(a.get("which") or NAMES)

    def call():
        return call_helpers(names)

    return call
