#!/venv/bin/python
"""mkmut.py NAME FILE OLD NEW [FILE OLD NEW ...]: write /verif/mutants/NAME.patch replacing OLD by NEW (exactly once) in /repo/FILE"""
import sys, subprocess, os, tempfile, shutil
name = sys.argv[1]; triples = sys.argv[2:]
tmp = tempfile.mkdtemp(prefix="mkmut-")
try:
    out = ""
    for i in range(0, len(triples), 3):
        f, old, new = triples[i:i+3]
        old = old.encode().decode("unicode_escape"); new = new.encode().decode("unicode_escape")
        src = open(f"/repo/{f}").read()
        assert src.count(old) == 1, f"{f}: OLD occurs {src.count(old)} times"
        a = os.path.join(tmp, "a", f); b = os.path.join(tmp, "b", f)
        os.makedirs(os.path.dirname(a), exist_ok=True); os.makedirs(os.path.dirname(b), exist_ok=True)
        open(a, "w").write(src); open(b, "w").write(src.replace(old, new))
        p = subprocess.run(["diff", "-u", f"a/{f}", f"b/{f}"], cwd=tmp, capture_output=True, text=True)
        out += f"diff --git a/{f} b/{f}\n" + p.stdout
    open(f"/verif/mutants/{name}.patch", "w").write(out)
    r = subprocess.run(["git", "-C", "/repo", "apply", "--check", f"/verif/mutants/{name}.patch"], capture_output=True, text=True)
    print(name, "ok" if r.returncode == 0 else "NOAPPLY " + r.stderr)
finally:
    shutil.rmtree(tmp)
