"""C03 worlds: price-consistent multi-market worlds (no arbitrage inside the data) + frozen-bar operation bursts.

Price consistency (DESIGN 2.2, "required by the frozen-market properties"):
  * every Uniswap pool's price column (previous close tick) equals the ratio of the two account prices - the account
    price of one pool token is *derived* from the pool's ticks (45+ digits), pools form a forest over the tokens;
  * the Squeeth frame's WETH column is the account WETH price, its OSQTH column is its pool's price column, the account
    OSQTH price is their product;
  * Deribit books satisfy bids <= mark <= asks (gen_deribit_market), underlying = account price of ETH / BTC;
  * GMX v1 token prices (1e30 fixed point) and GMX v2 long/short prices (float) are the account prices.
Only the composition and the program generator live here; every family's market builder, op vocabulary and
gen_<family>_market are the existing ones.
"""
import math
from decimal import Decimal, localcontext

import pandas as pd

from ..sim import op, amount, HarnessError, AMOUNT_RESOLVERS, OPS
from ..canon import D
from ..ref import frozen_value as FV
from . import uni as U
from . import aave as A
from . import squeeth as S
from . import deribit as DR
from . import gmx as G

DEC = {"USDC": 6, "USDT": 6, "DAI": 18, "WETH": 18, "WBTC": 8, "OSQTH": 18, "UNI": 18, "LINK": 18, "WMATIC": 18, "WAVAX": 18,
       "BTC.B": 8, "MIM": 18, "USDC.E": 6, "ETH": 18, "BTC": 8}
BASE_USD = {"WETH": 1800.0, "WBTC": 27000.0, "UNI": 6.0, "LINK": 7.3, "WMATIC": 0.57, "WAVAX": 29.0}
SAME_ASSET = {"ETH": "WETH", "BTC": "WBTC", "BTC.B": "WBTC"}
STABLES = ("USDC", "USDT", "DAI", "MIM", "USDC.E")
UNI_POOLS = [(("USDC", 6), ("WETH", 18)), (("WBTC", 8), ("WETH", 18)), (("WETH", 18), ("USDT", 6)), (("DAI", 18), ("WETH", 18)),
             (("WBTC", 8), ("USDC", 6)), (("UNI", 18), ("WETH", 18)), (("LINK", 18), ("WETH", 18))]
AAVE_TOKENS = ("WETH", "USDC", "WBTC", "DAI", "USDT", "LINK", "WMATIC")
V2_POOLS = [("WETH", "USDC"), ("WETH", "USDC"), ("WBTC", "USDC"), ("WAVAX", "USDC.E"), ("BTC.B", "USDC")]
FAMILIES = ("uni", "aave", "squeeth", "deribit", "gmx1", "gmx2")
PHASE_ORDER = ["initialize", "before_bar", "trigger", "on_bar", "after_bar", "notify"]


# ====================================================================================================== extra ops
def _fz(sim):
    s = getattr(sim, "fz_call", None)
    if s is None:
        s = sim.fz_call = {}
    return s


@op("fz.broker_add")
def _b_add(sim, m, a):
    t = sim.token(a["token"])
    amt = amount(sim, a.get("amount"))
    sim.fz_call = {"op": "broker_add", "token": t.name, "amount": amt}
    return lambda: sim.broker.add_to_balance(t, amt) and None


@op("fz.broker_sub")
def _b_sub(sim, m, a):
    t = sim.token(a["token"])
    amt = amount(sim, a.get("amount"))
    sim.fz_call = {"op": "broker_sub", "token": t.name, "amount": amt}
    return lambda: sim.broker.subtract_from_balance(t, amt) and None


def _swap_result(sim, n0):
    acts = sim.actuator.actions
    if len(acts) <= n0:
        return None
    act = acts[-1]
    return {"fee": Decimal(act.fee), "fee_token": act.from_token.name, "from_amount": Decimal(act.from_amount), "to_amount": Decimal(act.to_amount)}


@op("fz.swap_by_from")
def _b_swap_from(sim, m, a):
    ft, tt = sim.token(a["from"]), sim.token(a["to"])
    amt = amount(sim, a.get("amount"))
    rate = D(a.get("fee_rate", "0.003"))
    sim.fz_call = {"op": "swap_by_from", "from": ft.name, "to": tt.name, "amount": amt, "fee_rate": rate}

    def call():
        n0 = len(sim.actuator.actions)
        sim.broker.swap_by_from(ft, tt, amt, sim.prices_now(), rate)  # executes at the account's own current prices
        return _swap_result(sim, n0)

    return call


@op("fz.swap_by_to")
def _b_swap_to(sim, m, a):
    ft, tt = sim.token(a["from"]), sim.token(a["to"])
    amt = amount(sim, a.get("amount"))
    rate = D(a.get("fee_rate", "0.003"))
    sim.fz_call = {"op": "swap_by_to", "from": ft.name, "to": tt.name, "amount": amt, "fee_rate": rate}

    def call():
        n0 = len(sim.actuator.actions)
        sim.broker.swap_by_to(ft, tt, amt, sim.prices_now(), rate)
        return _swap_result(sim, n0)

    return call


@op("fz.aave_borrow")
def _aave_borrow_nonneg(sim, m, a):
    """aave.borrow, except that a request whose resolved amount is negative is not issued (k x get_max_borrow_amount is negative
    for an account beyond its LTV): negative amounts are outside C03's workload (they belong to C04's rejection catalogue)."""
    call = OPS["aave.borrow"](sim, m, a)
    lc = getattr(sim, "last_call", None) or {}
    if call is not None and lc.get("amount") is not None and lc["amount"] < 0:
        sim.count("probe:negative_amount_not_requested")
        return None
    return call


def _pending(i):
    def res(sim, what, spec):
        mname, _, idx = what.partition("#")
        m = sim.markets[mname]
        keys = sorted(m.positions.keys())
        if not keys:
            return Decimal(0)
        p = m.positions[keys[int(idx or 0) % len(keys)]]
        return Decimal(p.pending_amount0 if i == 0 else p.pending_amount1)

    return res


AMOUNT_RESOLVERS["fzpend0"] = _pending(0)
AMOUNT_RESOLVERS["fzpend1"] = _pending(1)


# ====================================================================================================== prices
def _dstr(x: Decimal) -> str:
    return format(x, "f")


def root_paths(rw, tokens, n):
    """token -> n floats (USD); ETH/WETH and BTC/WBTC/BTC.B share one path."""
    roots = {}
    for t in sorted({SAME_ASSET.get(t, t) for t in tokens}):
        if t in STABLES:
            p, vol = rw.choice([1.0, 1.0, 0.9996, 1.0003]), rw.choice([0.0, 0.0, 0.00002])
        elif t == "OSQTH":
            continue
        else:
            p, vol = BASE_USD.get(t, 10.0) * math.exp(rw.uniform(-0.5, 0.5)), rw.choice([0.0, 0.0005, 0.003])
        xs = []
        for _ in range(n):
            xs.append(p)
            p *= 1 + (rw.uniform(-vol, vol) if vol else 0.0)
        roots[t] = xs
    return {t: list(roots[SAME_ASSET.get(t, t)]) for t in tokens if t != "OSQTH"}


def pool_price_col(mw, decimals, n):
    """the pool's own price column (previous close; row 0: first close) as 48-digit Decimals - my tick math"""
    t0q = mw["quote"] == mw["token0"]
    d0, d1 = decimals[mw["token0"]], decimals[mw["token1"]]
    ticks = mw["closeTick"]
    return [FV.pool_price_decimal(ticks[max(i - 1, 0)], d0, d1, t0q) for i in range(n)]


def derive_prices(roots, pools, decimals, n):
    """account prices (decimal strings) such that, for every pool, P[base] = pool price * P[quote] to ~1e-48."""
    final, fixed = {}, set()
    with localcontext() as ctx:
        ctx.prec = 50
        for mw in pools:
            b, q = U.base_quote(mw)
            col = pool_price_col(mw, decimals, n)
            if b in fixed and q in fixed:
                raise HarnessError(f"pools form a cycle at {b}/{q}")
            if b in fixed:
                final[q] = [final[b][i] / col[i] for i in range(n)]
                fixed.add(q)
            else:
                if q not in fixed:
                    final[q] = [Decimal(repr(round(float(x), 10))) for x in roots[q]]
                    fixed.add(q)
                final[b] = [col[i] * final[q][i] for i in range(n)]
                fixed.add(b)
        for t, xs in roots.items():
            if t not in fixed:
                final[t] = [Decimal(repr(round(float(x), 10))) for x in xs]
    return {t: [_dstr(x) for x in xs] for t, xs in final.items()}


def _uni_market(rw, name, n, t0, t1, quote, roots, fee=None):
    mw = U.gen_uni_market(rw, name, n, t0, t1, quote, fee=fee)
    b, q = U.base_quote(mw)
    t0q = quote == t0[0]
    mw["closeTick"] = [U.tick_for_price(roots[b][min(n - 1, i + 1)] / roots[q][min(n - 1, i + 1)], t0[1], t1[1], t0q) for i in range(n)]
    mw["currentLiquidity"] = [x if int(x) > 0 else "1000000000000" for x in mw["currentLiquidity"]]
    return mw


# ====================================================================================================== world
def gen_world(rw, tier="quick"):
    """-> (world, info); info = {"frozen_bar": bar index of the burst, "rows": bar -> minute row, "families": [...]}"""
    k = rw.choice([1, 1, 2, 2, 2, 3, 3, 4])
    fams = rw.sample(list(FAMILIES), k)
    if "uni" in fams and len(fams) < 4 and rw.random() < 0.3:
        fams.append("uni")
    fams.sort(key=lambda f: FAMILIES.index(f))
    has_drb = "deribit" in fams
    only_drb = set(fams) == {"deribit"}
    warm = rw.choice([0, 0, 1, 2, 3, 5, 8, 12, 20])
    if only_drb:
        hours = rw.choice([0, 1, 1])
        n = 60 * hours + 1
        frozen_row = 60 * hours
    else:
        if has_drb:
            frozen_row = rw.choice([0, 0, 60, 60, 60, 60, 60, warm if warm else 7])
        else:
            frozen_row = warm
        n = frozen_row + 1 + rw.choice([0, 1, 2])
    start = pd.Timestamp("2023-08-13 00:00:00") + pd.Timedelta(minutes=60 * rw.randint(0, 40) + (0 if has_drb else rw.randint(0, 59)))
    # ---- which concrete markets / tokens
    tokens = {}
    plan = []
    comp = {}  # union-find over tokens joined by pools

    def find(t):
        while comp.setdefault(t, t) != t:
            t = comp[t]
        return t

    n_uni = 0
    for f in fams:
        if f == "uni":
            for _ in range(20):
                t0, t1 = rw.choice(UNI_POOLS)
                if rw.random() < 0.5:
                    t0, t1 = t1, t0
                if find(t0[0]) != find(t1[0]):
                    break
            else:
                continue
            comp[find(t0[0])] = find(t1[0])
            quote = rw.choice([t0[0], t1[0]])
            plan.append(("uni", f"uni{n_uni}", t0, t1, quote))
            n_uni += 1
            tokens[t0[0]], tokens[t1[0]] = t0[1], t1[1]
        elif f == "aave":
            toks = rw.sample(AAVE_TOKENS, rw.choice([2, 3, 3, 4]))
            if "WETH" not in toks and rw.random() < 0.6:
                toks[0] = "WETH"
            plan.append(("aave", "aave0", toks))
            for t in toks:
                tokens[t] = DEC[t]
        elif f == "squeeth":
            plan.append(("squeeth", "sq", "sqpool"))
            tokens["WETH"], tokens["OSQTH"] = 18, 18
        elif f == "deribit":
            tok = rw.choice(["ETH", "ETH", "BTC"])
            plan.append(("deribit", "drb0", tok))
            tokens[tok] = DEC[tok]
        elif f == "gmx1":
            extra = rw.sample(["USDC", "USDC.E", "BTC.B", "WBTC", "MIM"], rw.randint(1, 3))
            if not any(DEC[t] != 18 for t in extra):
                extra.append(rw.choice(["USDC", "USDC.E", "BTC.B", "WBTC"]))
            toks = {"WETH": 18, "WAVAX": 18}
            for t in extra:
                toks[t] = DEC[t]
            plan.append(("gmx1", "glp0", toks))
            tokens.update(toks)
        elif f == "gmx2":
            lt, st = rw.choice(V2_POOLS)
            plan.append(("gmx2", "gm0", lt, st))
            tokens[lt], tokens[st] = DEC[lt], DEC[st]
    roots = root_paths(rw, sorted(tokens), n)
    # ---- pools first (prices are derived from them), then everything else on the final prices
    pools, markets = [], []
    for p in plan:
        if p[0] == "uni":
            mw = _uni_market(rw, p[1], n, p[2], p[3], p[4], roots)
            pools.append(mw)
            markets.append(mw)
    prices = derive_prices(roots, pools, tokens, n)
    info = {"families": fams, "frozen_row": frozen_row, "only_deribit": only_drb}
    for p in plan:
        if p[0] == "aave":
            markets.append(A.gen_aave_market(rw, p[1], n, {t: prices[t] for t in p[2]}, tokens=list(p[2])))
        elif p[0] == "squeeth":
            weth = [float(D(x)) for x in prices["WETH"]]
            mw = S.gen_squeeth_market(rw, p[1], n, {"WETH": weth}, pool_name=p[2], heavy_fees=rw.random() < 0.3)
            pool = mw["pool"]
            col = pool_price_col(pool, {"WETH": 18, "OSQTH": 18}, n)
            mw["WETH"] = list(prices["WETH"])
            mw["OSQTH"] = [_dstr(x) for x in col]
            with localcontext() as ctx:
                ctx.prec = 50
                prices["OSQTH"] = [_dstr(col[i] * D(prices["WETH"][i])) for i in range(n)]
            markets.extend(S.split_markets(mw))
        elif p[0] == "deribit":
            path = {p[2]: [float(D(x)) for x in prices[p[2]]]}
            markets.append(DR.gen_deribit_market(rw, p[1], n, path, token=p[2], start=str(start), expiries=["after_last"] * 5 + ["on_hour"],
                                                 n_instruments=rw.choice([1, 2, 3, 4]), closed_state_prob=0.02))
            if rw.random() < 0.35:
                _levels_on_the_caps(rw, markets[-1])
        elif p[0] == "gmx1":
            markets.append(G.gen_gmx1_market(rw, p[1], n, prices, tokens=dict(p[2])))
        elif p[0] == "gmx2":
            cfg = G.gen_gmx2_config(rw)
            if rw.random() < 0.4:  # no positive price impact configured: a deposit can then only lose value
                cfg = dict(G.V2_DEFAULT_CONFIG if cfg is None else cfg)
                cfg["swapImpactFactorPositive"] = repr(0.0)
            markets.append(G.gen_gmx2_market(rw, p[1], n, prices, long=p[2], short=p[3], config=cfg))
    # ---- wallet
    assets = {}
    for t in sorted(tokens):
        r = rw.random()
        usd = 0.0 if r < 0.07 else 10 ** (rw.uniform(1, 3) if r < 0.2 else rw.uniform(3.5, 7.5))
        if usd == 0.0 and rw.random() < 0.5:
            continue  # the wallet does not know this token at all
        amt = Decimal(repr(usd)) / D(prices[t][0])
        assets[t] = format(amt.quantize(Decimal(1).scaleb(-min(tokens[t], 8))), "f")
    world = {"start": str(start), "n": n, "interval": "1min", "tokens": tokens, "assets": assets, "quote": "USD", "prices": prices, "markets": markets}
    # a pure uniswap world may take its account prices from the pool itself (account quote = pool quote)
    if set(fams) == {"uni"} and len(pools) == 1 and rw.random() < 0.35:
        world["prices"] = None
        world["quote"] = pools[0]["quote"]
    return world, info


def bar_of_row(info, row):
    return row // 60 if info["only_deribit"] else row


# ====================================================================================================== programs
MID = ["0.1", "0.25", "0.5", "0.9", "0.01", "0.333333333333333333", "0.7"]
NEAR = ["0.99999", "0.999995", "0.9999995", "1.0000005", "1.000005", "1.00001", "1.00002", "1.0001", "1.001", "1.005", "1.009"]
OVER = ["1.5", "2", "10", "100"]
TINY = ["0", "0", "0.000001", "0.000000000001"]


def pick_x(rp, spend=False):
    """fraction of what is held: 0 ... exactly 1 ... 100x. spend=True biases towards small fractions (wallet outflows)."""
    r = rp.random()
    if r < 0.5:
        return rp.choice(["0.02", "0.05", "0.1", "0.2", "0.3"]) if spend else rp.choice(MID)
    if r < 0.62:
        return str(round(rp.uniform(0.001, 0.999), 6))
    if r < 0.75:
        return "1"
    if r < 0.87:
        return rp.choice(NEAR)
    if r < 0.95:
        return rp.choice(OVER)
    return rp.choice(TINY)


def _uni_ops(rp, mw, cur_tick, price_f):
    sp = U.spacing_of(mw["fee"])
    b, q = U.base_quote(mw)
    name = mw["name"]

    def rng():
        lo = (int(cur_tick) // sp) * sp + rp.randint(-10, 6) * sp
        return lo, lo + rp.randint(1, 14) * sp

    k = rp.choice(["add", "add", "add", "add_price", "remove", "remove", "remove", "collect", "collect", "buy", "sell", "swap", "swap", "even",
                   "remove_all", "by_value", "add_explicit", "unknown"])
    if k == "add":
        lo, hi = rng()
        return {"op": "uni.add_by_tick", "m": name, "a": {"lo": lo, "hi": hi, "base": {"f": f"wallet:{b}", "x": pick_x(rp, True)}, "quote": {"f": f"wallet:{q}", "x": pick_x(rp, True)}}}
    if k == "add_price":
        lo_p, hi_p = price_f * rp.uniform(0.6, 0.995), price_f * rp.uniform(1.005, 1.6)
        return {"op": "uni.add", "m": name, "a": {"lower_price": f"{lo_p:.12g}", "upper_price": f"{hi_p:.12g}",
                                                  "base": {"f": f"wallet:{b}", "x": pick_x(rp, True)}, "quote": {"f": f"wallet:{q}", "x": pick_x(rp, True)}}}
    if k == "add_explicit":  # caller-chosen price: held to the one-sided bound only
        lo, hi = rng()
        a = {"lo": lo, "hi": hi, "base": {"f": f"wallet:{b}", "x": pick_x(rp, True)}, "quote": {"f": f"wallet:{q}", "x": pick_x(rp, True)}}
        t = int(cur_tick) + rp.randint(-20, 20) * sp + rp.randint(-5, 5)
        if rp.random() < 0.5:
            a["tick"] = t
        else:
            a["sqrt"] = str(FV.sqrt_ratio_x96(t))
        return {"op": "uni.add_by_tick", "m": name, "a": a}
    if k == "remove":
        i = rp.randint(0, 5)
        a = {"pos": {"i": i}, "collect": rp.random() < 0.5}
        if rp.random() < 0.7:
            a["liq"] = {"f": f"liq:{name}#{i}", "x": pick_x(rp)}
        if rp.random() < 0.2:
            a["remove_dry"] = False
        return {"op": "uni.remove", "m": name, "a": a}
    if k == "collect":
        i = rp.randint(0, 5)
        a = {"pos": {"i": i}}
        r = rp.random()
        if r < 0.35:
            a["max0"] = {"f": f"fzpend0:{name}#{i}", "x": pick_x(rp)}
        if 0.2 < r < 0.55:
            a["max1"] = {"f": f"fzpend1:{name}#{i}", "x": pick_x(rp)}
        if rp.random() < 0.2:
            a["remove_dry"] = False
        return {"op": "uni.collect", "m": name, "a": a}
    if k == "buy":
        # amount is in base tokens; sized against the quote balance through the generation-time price
        x = Decimal(pick_x(rp, True))
        if rp.random() < 0.5:
            return {"op": "uni.buy", "m": name, "a": {"amount": {"f": f"wallet:{q}", "x": format(x / Decimal(repr(price_f)), ".12g")}}}
        return {"op": "uni.buy", "m": name, "a": {"amount": {"f": f"wallet:{b}", "x": pick_x(rp, True)}}}
    if k == "sell":
        return {"op": "uni.sell", "m": name, "a": {"amount": {"f": f"wallet:{b}", "x": pick_x(rp, True)}}}
    if k == "swap":
        f, t = (b, q) if rp.random() < 0.5 else (q, b)
        return {"op": "uni.swap", "m": name, "a": {"from": f, "to": t, "amount": {"f": f"wallet:{f}", "x": pick_x(rp, True)}}}
    if k == "even":
        return {"op": "uni.even_rebalance", "m": name, "a": {}}
    if k == "remove_all":
        return {"op": "uni.remove_all", "m": name, "a": {}}
    if k == "by_value":
        lo, hi = rng()
        return {"op": "uni.add_by_value", "m": name, "a": {"lo": lo, "hi": hi, "value": {"f": f"wallet:{q}", "x": pick_x(rp, True)}}}
    far = 887000 // sp * sp
    return {"op": rp.choice(["uni.remove", "uni.collect"]), "m": name, "a": {"pos": {"lo": far - sp, "hi": far}}}


def _aave_ops(rp, mw):
    name = mw["name"]
    toks = mw["tokens"]
    t = rp.choice(toks)
    k = rp.choice(["supply", "supply", "withdraw", "withdraw", "withdraw", "borrow", "borrow", "repay", "repay", "repay", "flag"])
    if k == "supply":
        coll = mw["risk"][t]["collateral"] if rp.random() < 0.85 else rp.random() < 0.5
        return {"op": "aave.supply", "m": name, "a": {"token": t, "amount": {"f": f"wallet:{t}", "x": pick_x(rp, True)}, "collateral": bool(coll)}}
    if k == "withdraw":
        r = rp.random()
        amt = None if r < 0.15 else {"f": "supply", "x": pick_x(rp)}
        if amt is not None and rp.random() < 0.3:
            amt["q"] = False
        tok = {"supplied": rp.randint(0, 3)} if rp.random() < 0.85 else t
        return {"op": "aave.withdraw", "m": name, "a": {"token": tok, "amount": amt}}
    if k == "borrow":
        r = rp.random()
        amt = None if r < 0.1 else ({"f": "helper_max_borrow", "x": pick_x(rp)} if r < 0.8 else {"abs": rp.choice(["0", "0.001", "1", "1000000"])})
        return {"op": "fz.aave_borrow", "m": name, "a": {"token": t, "amount": amt}}
    if k == "repay":
        r = rp.random()
        amt = None if r < 0.15 else {"f": "debt", "x": pick_x(rp)}
        if amt is not None and rp.random() < 0.3:
            amt["q"] = False
        a = {"token": {"borrowed": rp.randint(0, 3)} if rp.random() < 0.85 else t, "amount": amt}
        if rp.random() < 0.3:
            a["with_collateral"] = True
            if rp.random() < 0.7:
                a["collateral_token"] = {"supplied": rp.randint(0, 3)}
        return {"op": "aave.repay", "m": name, "a": a}
    return {"op": "aave.change_collateral", "m": name, "a": {"token": {"supplied": rp.randint(0, 3)}}}


def _sq_ops(rp, mw, pool_name):
    name = mw["name"]
    v = {"i": rp.randint(0, 2)}
    vi = v["i"]
    k = rp.choice(["open", "open", "mint_more", "deposit", "burn", "burn", "withdraw", "burn_withdraw", "lp_in", "lp_out", "buy", "sell", "sell", "unknown"])
    if k == "open":
        a = {"deposit": {"f": "wallet:WETH", "x": pick_x(rp, True)} if rp.random() < 0.7 else rp.choice(["0.4", "0.5", "1", "5"]),
             "rate": rp.choice(["1.2", "1.5", "1.500001", "1.6", "2", "2", "3", "10"])}
        if rp.random() < 0.25:
            a["vault"] = v
        if rp.random() < 0.15:
            a["pos"] = {"i": rp.randint(0, 3)}
        return {"op": "sq.open_deposit_mint_by_collat_rate", "m": name, "a": a}
    if k == "mint_more":
        return {"op": "sq.open_deposit_mint", "m": name, "a": {"vault": v, "deposit": rp.choice(["0", "0", "0.1", "1"]),
                                                               "mint": {"f": f"sqshort:{name}#{vi}", "x": rp.choice(["0.01", "0.1", "0.3", "1", "10"])}}}
    if k == "deposit":
        return {"op": "sq.deposit", "m": name, "a": {"vault": v, "amount": {"f": "wallet:WETH", "x": pick_x(rp, True)}}}
    if k == "burn":
        src = {"f": f"sqshort:{name}#{vi}", "x": pick_x(rp)} if rp.random() < 0.6 else {"f": "wallet:OSQTH", "x": pick_x(rp)}
        return {"op": "sq.burn_and_withdraw", "m": name, "a": {"vault": v, "burn": src, "withdraw": "0"}}
    if k == "withdraw":
        return {"op": "sq.burn_and_withdraw", "m": name, "a": {"vault": v, "burn": "0", "withdraw": {"f": f"sqcoll:{name}#{vi}", "x": pick_x(rp)}}}
    if k == "burn_withdraw":
        return {"op": "sq.burn_and_withdraw", "m": name, "a": {"vault": v, "burn": {"f": f"sqshort:{name}#{vi}", "x": pick_x(rp)},
                                                               "withdraw": {"f": f"sqcoll:{name}#{vi}", "x": pick_x(rp)}}}
    if k == "lp_in":
        return {"op": "sq.deposit_uni_position", "m": name, "a": {"vault": v, "pos": {"i": rp.randint(0, 3)}}}
    if k == "lp_out":
        return {"op": "sq.withdraw_uni_position", "m": name, "a": {"vault": v, "pos": {"vault": vi}}}
    if k == "buy":
        if rp.random() < 0.5:
            return {"op": "sq.buy_squeeth", "m": name, "a": {"eth": {"f": "wallet:WETH", "x": pick_x(rp, True)}}}
        return {"op": "sq.buy_squeeth", "m": name, "a": {"osqth": rp.choice(["0", "0.5", "3", "40", "100000"])}}
    if k == "sell":
        return {"op": "sq.sell_squeeth", "m": name, "a": {"osqth": {"f": "wallet:OSQTH", "x": pick_x(rp)}}}
    return {"op": "sq.burn_and_withdraw", "m": name, "a": {"vault": {"id": 9999}, "burn": "1", "withdraw": "1"}}


CAP_FACTORS = ("1.25", "1.5", "2", "4", "5")  # cap multiples k for which mark x k is exact in binary AND in decimal when the mark is m/1024
CAP_FACTORS_BIDS = ("2", "4")  # ... and for which mark / k is


def _levels_on_the_caps(rw, mw):
    """Books whose ask levels sit exactly at mark x k and whose bid levels sit exactly at mark / k for the cap multiples the
    programs use. The market compares the float level price with Decimal(float mark) x k, so 'exactly' needs numbers that are
    exact in binary: marks are moved to the nearest m/1024. A level priced exactly at a price cap is the one place where
    'inside the cap' can be read either way - the accounting of the order must be consistent whichever way the code reads it."""
    for h in mw["hours"]:
        for nm in sorted(h["rows"]):
            row = h["rows"][nm]
            if D(row["mark"]) <= 0 or rw.random() < 0.4:
                continue
            mark = D(max(1, round(float(row["mark"]) * 1024))) / 1024
            row["mark"] = format(mark, "f")
            ks = sorted(rw.sample(CAP_FACTORS, rw.randint(2, 4)), key=D)
            sizes = [lv[1] for lv in row["asks"] + row["bids"]] or ["5"]
            row["asks"] = [[format(mark * D(k), "f"), sizes[i % len(sizes)]] for i, k in enumerate(ks)]
            row["bids"] = [[format(mark / D(k), "f"), sizes[(i + 1) % len(sizes)]] for i, k in enumerate(CAP_FACTORS_BIDS)]


def _drb_trade(rp, tok, is_buy, n_ins):
    small = ["1", "2", "3", "7", "2.5", "12"] if tok == "ETH" else ["0.1", "0.3", "1", "0.25", "2.5", "4"]
    mode = rp.choice(["market"] * 8 + ["token"] * 4 + ["usd"] * 2 + ["cap"] * 3 + ["token+cap"])
    limit = mode in ("token", "usd", "token+cap")
    a = {"mode": mode}
    j = rp.choice([0, 0, 0, 1, 1, 2, 3])
    r = rp.random()
    if is_buy:
        a["inst"] = {"i": rp.randint(0, n_ins - 1)}
        if r < 0.55:
            a["amount"] = {"abs": rp.choice(small)}
        elif r < 0.72:
            a["amount"] = {"level": j, "x": rp.choice(["1", "0.5", "0.3", "0.1", "1.5"])}
        elif r < 0.92:
            a["amount"] = {"depth": rp.choice(["0.01", "0.02", "0.05", "0.1", "0.3", "1"])}
        else:
            a["amount"] = rp.choice([{"depth": "1.2"}, {"depth": "100"}, {"abs": "0.01"}, {"abs": "0"}])
    else:
        a["inst"] = {"held": rp.randint(0, 5)} if r < 0.9 else {"i": rp.randint(0, n_ins - 1)}
        r2 = rp.random()
        if r2 < 0.55:
            a["amount"] = {"holding": rp.choice(["0.5", "1", "1", "0.3", "0.1"]), "else": rp.choice(small)}
            a["amount"]["max_level" if limit else "max_depth"] = j if limit else "1"
        elif r2 < 0.8:  # more than is held
            a["amount"] = {"holding": rp.choice(["1.01", "1.5", "2", "10", "100"]), "else": rp.choice(small)}
        else:
            a["amount"] = {"abs": rp.choice(small + ["0"])}
    if limit:
        a["px"] = {"level": j, "mul": rp.choice(["1"] * 8 + ["1.0004", "0.9996", "1.003", "0.997"])}
    if mode in ("cap", "token+cap"):
        a["k"] = rp.choice(["1", "1.01", "1.05", "1.3", "2", "5", "1.25", "1.5", "4", "2", "5"])
    if rp.random() < 0.1:
        a["as_float"] = True
    return a


def _drb_ops(rp, mw):
    name, tok = mw["name"], mw["token"]
    n_ins = len(mw["instruments"])
    k = rp.choice(["buy"] * 5 + ["sell"] * 5 + ["deposit", "deposit", "withdraw", "withdraw", "unknown"])
    if k == "buy":
        return {"op": "deribit.buy", "m": name, "a": _drb_trade(rp, tok, True, n_ins)}
    if k == "sell":
        return {"op": "deribit.sell", "m": name, "a": _drb_trade(rp, tok, False, n_ins)}
    if k == "deposit":
        return {"op": "deribit.deposit", "m": name, "a": {"amount": {"f": f"wallet:{tok}", "x": pick_x(rp, True)}}}
    if k == "withdraw":
        return {"op": "deribit.withdraw", "m": name, "a": {"amount": {"f": f"cash:{name}", "x": pick_x(rp)}}}
    return {"op": rp.choice(["deribit.buy", "deribit.sell"]), "m": name, "a": {"inst": {"name": f"{tok}-1JAN30-1-C"}, "amount": {"abs": "1"}}}


def _gmx1_ops(rp, mw):
    name = mw["name"]
    toks = list(mw["tokens"])
    non18 = [t for t in toks if mw["tokens"][t] != 18]
    t = rp.choice(non18) if rp.random() < 0.4 else rp.choice(toks)
    if rp.random() < 0.5:
        return {"op": "gmx1.buy_glp", "m": name, "a": {"token": t, "amount": {"f": f"wallet:{t}", "x": pick_x(rp, True)}}}
    r = rp.random()
    if r < 0.1:
        amt = None
    elif r < 0.2:
        amt = {"f": f"held:{name}", "x": "1", "plus": rp.choice(["0.000000000000000001", "5", "0.001"])}
    else:
        amt = {"f": f"held:{name}", "x": pick_x(rp)}
    return {"op": "gmx1.sell_glp", "m": name, "a": {"token": t, "amount": amt}}


def _gmx2_ops(rp, mw):
    name = mw["name"]
    if rp.random() < 0.5:
        side = rp.choice(["long", "short", "both", "both"])
        a = {}
        if side != "short":
            a["long"] = {"f": f"wallet:{mw['long']}", "x": pick_x(rp, True)}
        if side != "long":
            a["short"] = {"f": f"wallet:{mw['short']}", "x": pick_x(rp, True)}
        return {"op": "gmx2.deposit", "m": name, "a": a}
    r = rp.random()
    if r < 0.1:
        amt = None
    elif r < 0.2:
        amt = {"f": f"held:{name}", "x": "1", "plus": rp.choice(["5", "0.001"])}
    else:
        amt = {"f": f"held:{name}", "x": pick_x(rp)}
    return {"op": "gmx2.withdraw", "m": name, "a": {"amount": amt}}


def _broker_ops(rp, tokens):
    t = rp.choice(tokens)
    k = rp.choice(["add", "sub", "sub", "swap_from", "swap_from", "swap_to"])
    if k == "add":
        return {"op": "fz.broker_add", "m": None, "a": {"token": t, "amount": {"abs": rp.choice(["0", "0.5", "100", "12345.678"])}}}
    if k == "sub":
        return {"op": "fz.broker_sub", "m": None, "a": {"token": t, "amount": {"f": f"wallet:{t}", "x": pick_x(rp, True)}}}
    others = [x for x in tokens if x != t]
    if not others:
        return {"op": "fz.broker_sub", "m": None, "a": {"token": t, "amount": {"f": f"wallet:{t}", "x": pick_x(rp, True)}}}
    u = rp.choice(others)
    rate = rp.choice(["0.003", "0.003", "0", "0.0005", "0.01"])
    if k == "swap_from":
        return {"op": "fz.swap_by_from", "m": None, "a": {"from": t, "to": u, "amount": {"f": f"wallet:{t}", "x": pick_x(rp, True)}, "fee_rate": rate}}
    return {"op": "fz.swap_by_to", "m": None, "a": {"from": t, "to": u, "amount": {"f": f"wallet:{u}", "x": rp.choice(["0.01", "0.1", "0.5", "1", "3"])}, "fee_rate": rate}}


def gen_program(rp, world, info):
    """set-up operations over the warm-up bars (so positions, fees, interest and rewards exist), then a burst of 5-40
    operations inside the frozen bar; every operation, wherever it runs, is checked at its own bar's fixed data."""
    markets = world["markets"]
    frow = info["frozen_row"]
    fbar = bar_of_row(info, frow)
    program = []

    def slot_before():
        """a set-up slot: some bar up to the frozen one (Deribit trades need an hour bar)"""
        if fbar == 0 or rp.random() < 0.3:
            return (-1, "initialize") if rp.random() < 0.3 else (0, "before_bar")
        b = rp.randint(0, fbar)
        return b, rp.choice(["before_bar", "on_bar", "after_bar"]) if b < fbar else "before_bar"

    def emit(o, slot):
        program.append({"bar": slot[0], "phase": slot[1], "op": o["op"], "m": o.get("m"), "a": o["a"]})

    uni_ctx = {}
    for mw in markets:
        if mw["kind"] == "uni":
            cur = mw["closeTick"][max(frow - 1, 0)]
            d0, d1 = world["tokens"][mw["token0"]], world["tokens"][mw["token1"]]
            uni_ctx[mw["name"]] = (cur, float(FV.pool_price_decimal(cur, d0, d1, mw["quote"] == mw["token0"], 20)))
    # ---- set-up
    for mw in markets:
        kind, name = mw["kind"], mw["name"]
        if kind == "uni":
            sp = U.spacing_of(mw["fee"])
            b, q = U.base_quote(mw)
            for _ in range(rp.choice([0, 1, 1, 2, 3])):
                cur = uni_ctx[name][0]
                lo = (cur // sp) * sp - rp.randint(0, 8) * sp + rp.choice([0, 0, 0, 12 * sp, -14 * sp])
                hi = lo + rp.randint(1, 12) * sp
                emit({"op": "uni.add_by_tick", "m": name, "a": {"lo": lo, "hi": hi, "base": {"f": f"wallet:{b}", "x": rp.choice(["0.05", "0.1", "0.2"])},
                                                                 "quote": {"f": f"wallet:{q}", "x": rp.choice(["0.05", "0.1", "0.2"])}}}, slot_before())
        elif kind == "aave":
            colls = [t for t in mw["tokens"] if mw["risk"][t]["collateral"] and mw["risk"][t]["ltv"] > 0]
            bors = [t for t in mw["tokens"] if mw["risk"][t]["borrow"]]
            if rp.random() < 0.85 and colls:
                s1 = slot_before()
                emit({"op": "aave.supply", "m": name, "a": {"token": rp.choice(colls), "amount": {"f": "wallet", "x": rp.choice(["0.1", "0.3", "0.5"])}, "collateral": True}}, s1)
                if rp.random() < 0.4:
                    t2 = rp.choice(mw["tokens"])
                    emit({"op": "aave.supply", "m": name, "a": {"token": t2, "amount": {"f": "wallet", "x": "0.2"}, "collateral": bool(mw["risk"][t2]["collateral"]) and rp.random() < 0.7}}, s1)
                if rp.random() < 0.8 and bors:
                    s2 = (max(s1[0], 0), "on_bar") if s1[0] < fbar else (fbar, "before_bar")
                    emit({"op": "fz.aave_borrow", "m": name, "a": {"token": rp.choice(bors), "amount": {"f": "helper_max_borrow", "x": rp.choice(["0.1", "0.3", "0.6", "0.9"])}}}, s2)
        elif kind == "squeeth":
            pool = mw["pool"] if isinstance(mw["pool"], str) else mw["pool"]["name"]
            for j in range(rp.choice([0, 1, 1, 2])):
                s1 = slot_before()
                emit({"op": "sq.open_deposit_mint_by_collat_rate", "m": name, "a": {"deposit": rp.choice(["1", "3", "10", {"f": "wallet:WETH", "x": "0.2"}]),
                                                                                    "rate": rp.choice(["1.6", "2", "2.5", "4"])}}, s1)
                if rp.random() < 0.5:
                    cur = uni_ctx[pool][0]
                    lo = (cur // 60) * 60 - rp.randint(0, 10) * 60
                    hi = lo + rp.randint(1, 20) * 60
                    s2 = (max(s1[0], 0), "on_bar") if s1[0] < fbar else (fbar, "before_bar")
                    emit({"op": "uni.add_by_tick", "m": pool, "a": {"lo": lo, "hi": hi, "base": {"f": "wallet:OSQTH", "x": rp.choice(["0.3", "0.8"])},
                                                                     "quote": {"f": "wallet:WETH", "x": rp.choice(["0.05", "0.2"])}}}, s2)
                    if rp.random() < 0.7:
                        emit({"op": "sq.deposit_uni_position", "m": name, "a": {"vault": {"i": j}, "pos": {"lo": lo, "hi": hi}}}, (s2[0], "after_bar" if s2[0] < fbar else "before_bar"))
        elif kind == "deribit":
            tok = mw["token"]
            open_slots = [(-1, "initialize"), (0, "before_bar")] + ([(fbar, "before_bar")] if frow % 60 == 0 else [])
            if rp.random() < 0.9:
                emit({"op": "deribit.deposit", "m": name, "a": {"amount": {"f": f"wallet:{tok}", "x": rp.choice(["0.3", "0.5", "0.9"])}}}, rp.choice(open_slots))
                for _ in range(rp.choice([0, 1, 2, 3, 4])):
                    emit({"op": "deribit.buy", "m": name, "a": {"inst": {"i": rp.randint(0, 5)}, "amount": rp.choice([{"abs": "2"}, {"abs": "5"}, {"abs": "1"}, {"depth": "0.05"}, {"level": 0, "x": "0.5"}])}},
                         rp.choice(open_slots[1:]))
        elif kind == "gmx1":
            for _ in range(rp.choice([0, 1, 1, 2])):
                t = rp.choice(list(mw["tokens"]))
                emit({"op": "gmx1.buy_glp", "m": name, "a": {"token": t, "amount": {"f": f"wallet:{t}", "x": rp.choice(["0.1", "0.3"])}}}, slot_before())
        elif kind == "gmx2":
            for _ in range(rp.choice([0, 1, 1, 2])):
                emit({"op": "gmx2.deposit", "m": name, "a": {"long": {"f": f"wallet:{mw['long']}", "x": rp.choice(["0", "0.1", "0.3"])},
                                                             "short": {"f": f"wallet:{mw['short']}", "x": rp.choice(["0", "0.1", "0.3"])}}}, slot_before())
    # ---- the burst
    n_ops = rp.randint(5, 40)
    tokens = sorted(world["tokens"])
    weights = []
    for mw in markets:
        weights += [mw["name"]] * 3
    weights += ["__broker__"]
    by_name = {mw["name"]: mw for mw in markets}
    focus = rp.choice(weights) if rp.random() < 0.4 else None
    for _ in range(n_ops):
        who = focus if focus and rp.random() < 0.7 else rp.choice(weights)
        if who == "__broker__":
            o = _broker_ops(rp, tokens if world["prices"] is not None else sorted({markets[0]["token0"], markets[0]["token1"]}))
        else:
            mw = by_name[who]
            kind = mw["kind"]
            if kind == "uni":
                o = _uni_ops(rp, mw, *uni_ctx[mw["name"]])
            elif kind == "aave":
                o = _aave_ops(rp, mw)
            elif kind == "squeeth":
                o = _sq_ops(rp, mw, mw["pool"] if isinstance(mw["pool"], str) else mw["pool"]["name"])
            elif kind == "deribit":
                o = _drb_ops(rp, mw)
            elif kind == "gmx1":
                o = _gmx1_ops(rp, mw)
            else:
                o = _gmx2_ops(rp, mw)
        r = rp.random()
        phase = "on_bar" if r < 0.7 else ("before_bar" if r < 0.8 else ("trigger" if r < 0.9 else "after_bar"))
        emit(o, (fbar, phase))
    # a few stragglers in other bars (an operation "anywhere in a sequence")
    nb = (int(world["n"]) - 1) // 60 + 1 if info["only_deribit"] else int(world["n"])
    for _ in range(rp.choice([0, 0, 1, 3])):
        who = rp.choice(weights)
        if who == "__broker__":
            continue
        mw = by_name[who]
        gen = {"uni": lambda: _uni_ops(rp, mw, *uni_ctx[mw["name"]]), "aave": lambda: _aave_ops(rp, mw), "squeeth": lambda: _sq_ops(rp, mw, None),
               "deribit": lambda: _drb_ops(rp, mw), "gmx1": lambda: _gmx1_ops(rp, mw), "gmx2": lambda: _gmx2_ops(rp, mw)}[mw["kind"]]
        emit(gen(), (rp.randint(0, nb - 1), rp.choice(["before_bar", "on_bar", "after_bar"])))
    order = {id(o): i for i, o in enumerate(program)}
    program.sort(key=lambda o: (o["bar"], PHASE_ORDER.index(o["phase"]), order[id(o)]))
    return program
