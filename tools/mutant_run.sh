#!/bin/bash
# usage: tools/mutant_run.sh <patch-file> <PROP-ID> [--tests] [extra dsim.check args]
# Applies the patch to a scratch copy of /repo (outside /repo and /verif), optionally runs the baseline tests there,
# runs the property's check against the copy, prints the exit code, removes the copy.
set -u
PATCH=$(realpath "$1"); PID=$2; shift 2
TESTS=0; if [ "${1:-}" = "--tests" ]; then TESTS=1; shift; fi
S=$(mktemp -d /tmp/dsim-mutant-XXXXXX)
if [ -z "${KEEP:-}" ]; then trap 'rm -rf "$S"' EXIT; else echo "KEEPING $S"; fi
rsync -a --exclude .git --exclude __pycache__ /repo/ "$S/repo/"
cd "$S/repo" && (patch -p1 -s < "$PATCH" || { echo "PATCH-FAILED"; exit 3; })
if [ $TESTS = 1 ]; then
  /venv/bin/python -m pytest -q -p no:cacheprovider --timeout=900 --continue-on-collection-errors 2>&1 | tail -1
fi
mkdir -p "$S/replays"
cd /verif && DSIM_REPO="$S/repo" DSIM_REPLAY_DIR="$S/replays" timeout 1200 /venv/bin/python -m dsim.check "$PID" --no-evidence "$@" 2>&1 | grep -v "conda" | grep -E "VIOLATION|HARNESS|KNOWN|done" | cut -c1-400
echo "MUTANT-EXIT=${PIPESTATUS[0]}"
