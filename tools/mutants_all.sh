#!/bin/bash
# usage: tools/mutants_all.sh [ID ...]   -> runs every /verif/mutants/<ID>-*.patch against its property's quick check
# (scratch copy of /repo per mutant, removed afterwards); prints one line per mutant: CAUGHT / MISSED / PATCH-FAILED
cd /verif
ids="$@"; [ -z "$ids" ] && ids=$(ls mutants | sed 's/-.*//' | sort -u)
for id in $ids; do
  for p in mutants/$id-*.patch; do
    [ -f "$p" ] || continue
    out=$(tools/mutant_run.sh "$p" "$id" --tests --workers ${W:-8} 2>&1)
    code=$(echo "$out" | grep -o "MUTANT-EXIT=[0-9]*" | cut -d= -f2)
    tests=$(echo "$out" | grep -o "[0-9]* passed" | head -1)
    if echo "$out" | grep -q PATCH-FAILED; then res=PATCH-FAILED
    elif [ "$code" = 1 ]; then res=CAUGHT
    elif [ "$code" = 0 ]; then res=MISSED
    else res="EXIT-$code"; fi
    expect=CAUGHT; case "$p" in *MUSTNOTALARM*|*mustnotalarm*|*EQUIVALENT*) expect=MISSED;; esac
    flag=ok; [ "$res" != "$expect" ] && flag="UNEXPECTED"
    echo "$res $flag $p tests=[$tests] $(echo "$out" | grep -m1 -o 'oracle=[^ ]* site=[^ ]*')"
  done
done
