"""C04 - a rejected operation leaves wallet, positions, order book and action log intact.

Real: every write operation of UniLpMarket, AaveV3Market, SqueethMarket, DeribitOptionMarket, GmxMarket, GmxV2Market and the
Broker wallet operations, with the `write_func` gate, driven through the real Actuator bar loop.
Work: the rejection catalogue (dsim/worlds/rejects.py) - one recipe per (operation, precondition, token that can be short) -
each recipe dropped at a random point of a random program on a single-family or mixed world.
Oracle: the canonical observable state (dsim/ref/obsstate.py) immediately before and after EVERY call that raises must be
equal; multi-step helpers are judged per constituent transaction.
"""
import inspect
import math
from decimal import Decimal, ROUND_DOWN

import pandas as pd

from ..sim import Sim, Oracle, HarnessError
from ..ref import obsstate as OS
from ..worlds import rejects as RJ
from ..worlds import uni as U
from ..worlds import aave as A
from ..worlds import squeeth as S
from ..worlds import deribit as W
from ..worlds import gmx as G
from ..worlds import compose as C
from .. import rng as R

ID = "C04"
OID = "c04.unchanged"
PHASES = ["initialize", "before_bar", "trigger", "on_bar", "after_bar", "notify"]

# operations that are several transactions (property: "held to this per constituent transaction")
HELPER_OPS = {"uni.remove", "uni.add_by_value", "uni.even_rebalance", "uni.remove_all", "sq.open_deposit_mint_by_collat_rate"}
# their constituent public methods, wrapped per instance; a constituent that is itself a helper is decomposed further
CONSTITUENTS = {
    "uni": {"swap": "atomic", "add_liquidity_by_tick": "atomic", "add_liquidity": "atomic", "collect_fee": "atomic", "buy": "atomic",
            "sell": "atomic", "remove_liquidity": "helper"},
    "squeeth": {"open_deposit_mint": "atomic"},
}

# public write methods whose signatures take `Decimal | float` amounts: an operation flagged "float" hands its Decimal arguments
# over as floats (outermost call only; calls the method makes on itself or on other markets are not touched)
FLOAT_API = {
    "uni": ("add_liquidity", "add_liquidity_by_tick", "add_liquidity_by_value", "collect_fee", "buy", "sell", "swap"),
    "aave": ("supply", "withdraw", "borrow", "repay"),
    "squeeth": ("open_deposit_mint", "open_deposit_mint_by_collat_rate", "deposit", "burn_and_withdraw", "buy_squeeth", "sell_squeeth"),
    "deribit": ("deposit", "withdraw", "buy", "sell"),
    "gmx1": ("buy_glp", "sell_glp"),
    "gmx2": ("deposit", "withdraw"),
}
FLOAT_BROKER = ("swap_by_from", "swap_by_to", "subtract_from_balance")
# the parameters these methods have on the tree the harness was written against. A parameter that is NOT listed here is new:
# an operation flagged "probe_new" sets every new optional numeric parameter to an extreme value (1e30 / -1), so that a
# refusal decided by a new argument (a slippage bound, a cap) is held to the same rule: refused => nothing changed
KNOWN_PARAMS = {
    "add_liquidity": {"lower_quote_price", "upper_quote_price", "quote_max_amount", "base_max_amount"},
    "add_liquidity_by_tick": {"lower_tick", "upper_tick", "base_max_amount", "quote_max_amount", "sqrt_price_x96", "tick", "trim_tick"},
    "add_liquidity_by_value": {"lower_tick", "upper_tick", "value_to_use", "trim_tick"},
    "collect_fee": {"position", "max_collect_amount0", "max_collect_amount1", "remove_dry_pool", "collect_to_user"},
    "buy": {"base_token_amount", "price", "instrument_name", "amount", "price_in_token", "price_in_usd", "max_mark_price_multiple"},
    "sell": {"base_token_amount", "price", "instrument_name", "amount", "price_in_token", "price_in_usd", "max_mark_price_multiple"},
    "swap": {"from_amount", "from_token", "to_token", "price", "throw_action"},
    "supply": {"token_info", "amount", "collateral"}, "withdraw": {"token_info", "amount"}, "borrow": {"token_info", "amount"},
    "repay": {"borrow_token", "payback_amount", "repay_with_collateral", "repay_collateral_token"},
    "open_deposit_mint": {"deposit_eth_amount", "osqth_mint_amount", "vault_key", "uni_position"},
    "open_deposit_mint_by_collat_rate": {"deposit_eth_amount", "collateral_rate", "vault_key", "uni_position"},
    "deposit": {"vault_key", "eth_value", "amount", "long_amount", "short_amount"},
    "burn_and_withdraw": {"vault_key", "osqth_burn_amount", "withdraw_eth_amount"},
    "buy_squeeth": {"osqth_amount", "eth_amount"}, "sell_squeeth": {"osqth_amount", "eth_amount"},
    "buy_glp": {"token", "amount"}, "sell_glp": {"token", "glp_amount"},
    "swap_by_from": {"from_token", "to_token", "amount", "prices", "fee_rate"}, "swap_by_to": {"from_token", "to_token", "amount", "prices", "fee_rate"},
    "subtract_from_balance": {"token", "amount"},
}
FLOAT_OPS = ("uni", "aave", "sq", "deribit", "gmx1", "gmx2", "broker")

BASE_PRICE = {"WETH": 1800.0, "ETH": 1800.0, "WBTC": 29000.0, "BTC": 29000.0, "BTC.B": 29000.0, "USDC": 1.0, "USDC.E": 1.0, "USDT": 1.001,
              "DAI": 0.999, "MIM": 1.0, "LINK": 7.3, "WMATIC": 0.57, "WAVAX": 29.0}
SAME = {"ETH": "WETH", "BTC": "WBTC", "BTC.B": "WBTC"}  # same asset under another name: same path
STABLE = ("USDC", "USDC.E", "USDT", "DAI", "MIM")
UNI_PAIRS = [(("USDC", 6), ("WETH", 18)), (("WBTC", 8), ("WETH", 18)), (("WETH", 18), ("USDT", 6)), (("DAI", 18), ("WETH", 18)), (("WBTC", 8), ("USDC", 6))]


# ====================================================================================================== world
def _sig(x, digits=12):
    return G._sig(float(x), digits)


def _path(rw, n, p0, vol):
    out, p = [], p0
    for _ in range(n):
        out.append(float(_sig(p)))
        p *= math.exp(rw.gauss(0, vol)) if vol else 1.0
    return out


def compose(rw, fams, tier, want=None):
    """one broker, the markets of `fams`, one price frame. Returns (world, ctx)."""
    want = want or {}
    has_drb = "deribit" in fams
    others = [f for f in fams if f not in ("deribit", "broker")]
    if has_drb and not others:
        H = rw.choice([2, 3, 4, 6] if tier == "quick" else [2, 3, 4, 6, 12])
        n, mpb = 60 * (H - 1) + 1, 60
    elif has_drb:
        n, mpb = 60 + rw.choice([1, 2, 6, 15]), 1
    else:
        n, mpb = rw.choice([5, 8, 12, 16, 24] if tier == "quick" else [5, 8, 12, 16, 24, 40, 60]), 1
    start = pd.Timestamp("2023-08-13 00:00:00") + pd.Timedelta(hours=rw.randint(0, 40))
    if not has_drb:
        start += pd.Timedelta(minutes=rw.choice([0, 0, 7, 30, 59]))
    vol = rw.choice([0.0, 0.0003, 0.001, 0.003])
    paths = {}

    def path(t):
        key = SAME.get(t, t)
        if key not in paths:
            p0 = BASE_PRICE.get(key, 10.0) * (1.0 if key in STABLE else math.exp(rw.uniform(-0.4, 0.4)))
            paths[key] = _path(rw, n, p0, 0.0 if key in STABLE else vol)
        return paths[key]

    tokens, markets, ctx = {}, [], {"mpb": mpb, "n": n, "fams": list(fams), "by_family": {}}

    def declare(t, d):
        if t in tokens and tokens[t] != d:
            raise HarnessError(f"token {t} declared with {tokens[t]} and {d} decimals")
        tokens[t] = d

    if "uni" in fams:
        t0, t1 = rw.choice(UNI_PAIRS[:1] * 3 + UNI_PAIRS) if any(f in fams for f in ("aave", "gmx2", "gmx1")) else rw.choice(UNI_PAIRS)
        if rw.random() < 0.5:
            t0, t1 = t1, t0
        quote = rw.choice([t0[0], t1[0]])
        fprices = {t0[0]: path(t0[0]), t1[0]: path(t1[0])}
        mw = C.uni_from_prices(rw, "uni0", n, t0, t1, quote, fprices)
        declare(*t0), declare(*t1)
        markets.append(mw)
        ctx["by_family"]["uni"] = mw
    if "squeeth" in fams:
        mw = S.gen_squeeth_market(rw, "sq", n, {"WETH": path("WETH")}, pool_name="sqpool", heavy_fees=rw.random() < 0.4)
        declare("WETH", 18), declare("OSQTH", 18)
        markets += S.split_markets(mw)
        ctx["by_family"]["squeeth"] = markets[-1]
        ctx["osqth"] = S.squeeth_price_columns(mw)["OSQTH"]
    if "aave" in fams:
        pool = [t for t in A.TOKENS]
        pick = [("WETH", 18), ("USDC", 6)] if rw.random() < 0.6 else []
        rest = [t for t in pool if t not in pick]
        pick += rw.sample(rest, rw.choice([2, 2, 3]) - (1 if pick else 0) + (0 if pick else 1))
        names = [t[0] for t in pick]
        for t, d in pick:
            declare(t, d)
            path(t)
        mw = A.gen_aave_market(rw, "aave0", n, {t: path(t) for t in names}, tokens=names)
        ctx["risk_kinds"] = _shape_risk(rw, mw, want.get("risk"))
        markets.append(mw)
        ctx["by_family"]["aave"] = mw
    if has_drb:
        tok = rw.choice(["ETH", "ETH", "BTC"])
        declare(tok, 18 if tok == "ETH" else 8)
        mw = W.gen_deribit_market(rw, "drb0", n, {tok: path(tok)}, token=tok, start=str(start), expiries=["after_last"],
                                  n_instruments=rw.choice([2, 3, 4]), closed_state_prob=0.15 if want.get("closed_state") else 0.06,
                                  max_levels=rw.choice([2, 4, 8]))
        if want.get("closed_state") or rw.random() < 0.3:  # an instrument that is not tradable in each hour
            for h in mw["hours"]:
                names = sorted(h["rows"])
                if len(names) >= 2:
                    h["rows"][rw.choice(names)]["state"] = "closed"
        markets.append(mw)
        ctx["by_family"]["deribit"] = mw
    if "gmx1" in fams:
        toks = {"WETH": 18, "WAVAX": 18}
        extra = rw.sample(["USDC", "USDC.E", "BTC.B", "WBTC", "MIM"], rw.randint(1, 3))
        if want.get("token") and want["token"] not in toks:
            extra.append(want["token"])
        if not any(G.GLP_CATALOGUE[t] != 18 for t in extra):
            extra.append(rw.choice(["USDC", "BTC.B"]))
        for t in extra:
            toks[t] = G.GLP_CATALOGUE[t]
        for t, d in toks.items():
            declare(t, d)
        mw = G.gen_gmx1_market(rw, "glp0", n, {t: [_sig(x) for x in path(t)] for t in toks}, tokens=dict(toks))
        markets.append(mw)
        ctx["by_family"]["gmx1"] = mw
        if want.get("unheld_token") or rw.random() < 0.25:
            ctx["unheld_token"] = rw.choice([t for t in toks if t not in ("WETH", "USDC")] or list(toks))
    if "gmx2" in fams:
        lt, st = rw.choice([("WETH", "USDC"), ("WETH", "USDC"), ("WBTC", "USDC"), ("WETH", "WETH"), ("WBTC", "WBTC")])
        if want.get("single_token_pool"):
            lt = st = rw.choice(["WETH", "WBTC"])  # single-token GM pools (long token == short token)
        if lt == st:
            ctx["single_token_pool"] = True
        declare(lt, G.GLP_CATALOGUE[lt]), declare(st, G.GLP_CATALOGUE[st])
        mw = G.gen_gmx2_market(rw, "gm0", n, {t: [_sig(x) for x in path(t)] for t in (lt, st)}, long=lt, short=st, config=G.gen_gmx2_config(rw))
        markets.append(mw)
        ctx["by_family"]["gmx2"] = mw
    if not markets:
        raise HarnessError("world without a market")
    prices = {}
    for t in tokens:
        if t == "OSQTH":
            prices[t] = list(ctx["osqth"])
        else:
            prices[t] = [_sig(x) for x in path(t)]
    assets = {}
    wealth = rw.choice(["rich"] * 5 + ["modest"] * 2)
    for t, d in tokens.items():
        if t == ctx.get("unheld_token"):
            continue
        if t == "OSQTH":
            assets[t] = rw.choice(["0", "50", "500", "5000"])
            continue
        usd = 10 ** (rw.uniform(5.5, 8) if wealth == "rich" else rw.uniform(3.5, 5))
        assets[t] = format((Decimal(repr(usd)) / Decimal(prices[t][0])).quantize(Decimal(1).scaleb(-min(d, 8)), rounding=ROUND_DOWN), "f")
    tokens[RJ.GHOST] = 18
    tokens[RJ.NOPRICE] = 18
    prices[RJ.GHOST] = ["1"] * n
    world = {"start": str(start), "n": n, "interval": "1min", "tokens": tokens, "assets": assets, "quote": "USD", "prices": prices, "markets": markets}
    return world, ctx


def _shape_risk(rw, mw, want_kind=None):
    """make every Aave precondition reachable in one market: a good collateral, a second borrowable token, and (with three or
    more tokens) a token that cannot be collateral, one that cannot be borrowed and a collateral with LTV 0"""
    toks = list(mw["tokens"])
    risk = mw["risk"]
    rw.shuffle(toks)
    good, second = toks[0], toks[1]
    risk[good].update({"collateral": True, "ltv": max(risk[good]["ltv"], 6500)})
    risk[good]["lt"] = max(risk[good]["lt"], risk[good]["ltv"] + 500)
    risk[good]["borrow"] = True
    risk[second]["borrow"] = True
    kinds = [want_kind or rw.choice(["no_collateral", "no_borrow", "ltv0"])]
    if len(toks) >= 4:
        kinds.append(rw.choice([k for k in ("no_collateral", "no_borrow", "ltv0") if k != kinds[0]]))
    for z, kind in zip(toks[2:], kinds):
        if kind == "no_collateral":
            risk[z]["collateral"] = False
        elif kind == "no_borrow":
            risk[z]["borrow"] = False
        else:
            risk[z].update({"collateral": True, "ltv": 0})
            risk[z]["lt"] = max(risk[z]["lt"], 1000)
    out = set()
    for t in toks:
        r = risk[t]
        if not r["collateral"]:
            out.add("no_collateral")
        if not r["borrow"]:
            out.add("no_borrow")
        if r["collateral"] and r["ltv"] == 0:
            out.add("ltv0")
    return out


# ====================================================================================================== program
def _bars(world, ctx):
    """(bar count, open bars of the option market, closed bars)"""
    n, mpb = int(world["n"]), ctx["mpb"]
    if mpb == 60:
        nb = (n - 1) // 60 + 1
        return nb, list(range(nb)), []
    nb = n
    if "deribit" in ctx["by_family"]:
        start = pd.Timestamp(world["start"])
        opens = [i for i in range(n) if (start + pd.Timedelta(minutes=i)).minute == 0]
        return nb, opens, [i for i in range(n) if i not in set(opens)]
    return nb, list(range(nb)), []


def _hour_rows(world, mw, bar, mpb):
    t = pd.Timestamp(world["start"]) + pd.Timedelta(minutes=max(bar, 0) * mpb)
    t0 = str(t.floor("1h"))
    for h in mw["hours"]:
        if h["t"] == t0:
            return h["rows"]
    return {}


def generate(seed: int, tier: str = "quick") -> dict:
    rw, rp, rf = R.sub(seed, "world"), R.sub(seed, "program"), R.sub(seed, "faults")
    primary = RJ.CATALOGUE[R.h64(seed, "entry") % len(RJ.CATALOGUE)]
    fams = set()
    if primary.family != "broker":
        fams.add(primary.family)
    allf = ["uni", "aave", "squeeth", "deribit", "gmx1", "gmx2"]
    r = rw.random()
    k = 0 if r < 0.4 else (1 if r < 0.8 else 2)
    if not fams:
        k = max(k, 1)
    for f in rw.sample(allf, len(allf)):
        if k == 0:
            break
        if f not in fams:
            fams.add(f)
            k -= 1
    if primary.place == "closed" and not (fams - {"deribit"}):
        fams.add(rw.choice(["uni", "uni", "aave", "gmx2"]))
    want = dict(primary.needs)
    world, ctx = compose(rw, [f for f in allf if f in fams], tier, want)
    if R.sub(seed, "overdraft").random() < 0.06:
        # an account that may be overdrawn: the wallet refuses nothing, so a call that fails does so later in the call
        world["allow_negative_balance"] = True
    nb, opens, closed = _bars(world, ctx)
    mpb = ctx["mpb"]
    slots = {}  # (bar, phase index) -> list of op blocks
    faults = []
    if world.get("allow_negative_balance"):
        faults.append({"kind": "account_may_be_overdrawn"})

    def slot_for(family, place=None, min_bar=-1):
        if family == "deribit":
            if place == "closed" and closed:
                b = rp.choice(closed)
            else:
                b = rp.choice(opens)
        elif place == "early":
            b = rp.choice([-1, -1, 0])
        else:
            b = rp.randint(min_bar, nb - 1)
        b = max(b, min_bar)
        ph = 0 if b == -1 else rp.choice([1, 2, 3, 3, 4, 4] + ([5] if rp.random() < 0.1 else []))
        return b, ph

    def gctx(family, bar):
        mw = ctx["by_family"].get(family)
        extra = {"minutes_per_bar": mpb, "unheld_token": ctx.get("unheld_token")}
        if family == "deribit":
            extra["hour_rows"] = _hour_rows(world, mw, bar, mpb)
        return RJ.G_(rp, world, mw, bar, nb, extra)

    def put(b, ph, block, front=False):
        lst = slots.setdefault((b, ph), [])
        if front:
            lst.insert(0, block)
        else:
            lst.insert(rp.randint(0, len(lst)), block)

    # ---- background: ordinary operations that build the states the recipes meet
    if "deribit" in fams:
        tok = ctx["by_family"]["deribit"]["token"]
        put(-1, 0, [RJ.O("deribit.deposit", "drb0", {"amount": {"f": f"wallet:{tok}", "x": rp.choice(["0.3", "0.6"])}})], front=True)
    if "squeeth" in fams and rp.random() < 0.7:
        g = gctx("squeeth", 0)
        pos, add = RJ._sq_lp(g, 2, weth=rp.choice(["1", "5"]))
        b0 = rp.choice([-1, 0, 0])
        put(b0, 0 if b0 == -1 else 1, [add, RJ.O("sq.open_deposit_mint_by_collat_rate", "sq", {"deposit": rp.choice(["1", "4"]), "rate": rp.choice(["2", "3"]), "pos": pos})], front=True)
    for f in sorted(fams | {"broker"}):
        nops = rp.choice([1, 2, 3, 5, 8]) if f != "broker" else rp.choice([0, 0, 1, 2])
        if f == "deribit" and mpb == 1:
            nops = min(nops, 5)
        for _ in range(nops):
            b, ph = slot_for(f)
            ops = RJ.background(gctx(f, b), f)
            if ops:
                put(b, ph, ops)
    # ---- recipes: the primary entry plus a few more applicable ones
    applicable = [e for e in RJ.CATALOGUE if (e.family in fams or e.family == "broker") and _applicable(e, ctx, closed, nb)]
    chosen = [primary] + [rp.choice(applicable) for _ in range(rp.choice([1, 2, 3, 4, 6]))]
    entries = []
    for e in chosen:
        min_bar = 1 if e.needs.get("shock") else -1
        if e.needs.get("shock") and nb < 2:
            continue
        b, ph = slot_for(e.family, e.place, min_bar)
        if e.needs.get("shock") and ph == 5:
            ph = 3
        g = gctx(e.family, b)
        ops = e.make(g)
        if not ops:
            continue
        main, before = [], []
        for o in ops:
            o = dict(o)
            d = o.pop("dbar", 0)
            if o.pop("target", False):
                o["entry"] = e.id
            (before if d < 0 else main).append(o)
        if before:
            pb = b - 1
            put(pb, 0 if pb == -1 else rp.choice([3, 4]), before)
        put(b, ph, main)
        entries.append(e.id)
        faults.append({"kind": "reject:" + e.id, "bar": b})
        sh = g.extra.get("shock")
        if sh:
            row = b * mpb
            s = world["prices"][sh["token"]]
            for i in range(row, len(s)):
                s[i] = _sig(Decimal(s[i]) * Decimal(sh["factor"]))
            faults.append({"kind": "price_shock", "bar": b, "token": sh["token"], "factor": sh["factor"]})
    if closed and any(o for o in entries if o.endswith("closed_bar")):
        faults.append({"kind": "closed_market"})
    program = []
    for (b, ph) in sorted(slots):
        for block in slots[(b, ph)]:
            for o in block:
                o = dict(o)
                o["bar"], o["phase"] = b, PHASES[ph]
                if o["op"].split(".")[0] in FLOAT_OPS and rf.random() < 0.1:
                    o["float"] = True  # the documented `Decimal | float` signature taken at its word
                if o["op"].split(".")[0] in FLOAT_OPS and rf.random() < 0.1:
                    o["probe_new"] = rf.choice(["1e30", "-1", "1e30"])
                program.append(o)
    if any(o.get("float") for o in program):
        faults.append({"kind": "float_arguments"})
    opts = {"primary": primary.id, "entries": entries}
    kinds = {m_["kind"] for m_ in world["markets"]}
    rd = R.sub(seed, "direct_drive")
    if "deribit" not in kinds and world.get("interval", "1min") == "1min" and rd.random() < 0.05:
        # the markets driven without Actuator.run() (statuses carrying their data row; no check_market, so a token the assets
        # do not name has no wallet entry at all)
        opts["drive"] = "direct"
        program = [o for o in program if o["phase"] in ("initialize", "before_bar", "on_bar", "after_bar")]
        if "squeeth" in kinds and rd.random() < 0.6:
            world["assets"].pop("OSQTH", None)
        faults.append({"kind": "markets_driven_without_the_actuator"})
    return {"property": ID, "seed": seed, "world": world, "program": program, "faults": faults, "opts": opts}


def _applicable(e, ctx, closed, nb):
    if e.place == "closed" and not closed:
        return False
    if "token" in e.needs and e.needs["token"] not in ctx["by_family"]["gmx1"]["tokens"]:
        return False
    if e.needs.get("unheld_token") and not ctx.get("unheld_token"):
        return False
    if e.needs.get("shock") and nb < 2:
        return False
    if e.needs.get("single_token_pool") and not ctx.get("single_token_pool"):
        return False
    if e.needs.get("risk") and e.needs["risk"] not in ctx.get("risk_kinds", ()):
        return False
    return True


def after_truncate(scenario):
    w = scenario["world"]
    if any(m["kind"] == "deribit" for m in w["markets"]):
        scenario = W.after_truncate(scenario)
        if scenario is None:
            return None
        w = scenario["world"]
    only = all(m["kind"] == "deribit" for m in w["markets"])
    nb = ((int(w["n"]) - 1) // 60 + 1) if only else int(w["n"])
    scenario["program"] = [o for o in scenario["program"] if o["bar"] < nb]
    return scenario


def shrink_candidates(scenario):
    """drop markets that no remaining operation touches (keeping the pool of a squeeth market and the first market's
    time grid when a minutely co-market is what closes the option market's bars)"""
    import copy

    w = scenario["world"]
    used = {o.get("m") for o in scenario.get("program", [])}
    for mw in w["markets"]:
        if mw["kind"] == "squeeth":
            used.add(mw["pool"] if isinstance(mw["pool"], str) else mw["pool"]["name"])
    if len(w["markets"]) > 1:
        for mw in w["markets"]:
            if mw["name"] in used:
                continue
            rest = [x for x in w["markets"] if x["name"] != mw["name"]]
            if any(x["kind"] == "deribit" for x in rest) and all(x["kind"] == "deribit" for x in rest):
                continue  # would turn a minutely world into an hourly one: bar numbers would change meaning
            c = copy.deepcopy(scenario)
            c["world"]["markets"] = [x for x in c["world"]["markets"] if x["name"] != mw["name"]]
            yield c


# ====================================================================================================== oracle
class Frame:
    __slots__ = ("label", "kind", "baseline", "top")

    def __init__(self, label, kind, baseline, top=False):
        self.label, self.kind, self.baseline, self.top = label, kind, baseline, top


class UnchangedOracle(Oracle):
    """observable state before == after for every raising call; helpers per constituent transaction"""

    def start(self, sim):
        self.kinds = OS.kinds_of(sim)
        self.stack = []
        self.judged_state = None
        self.cur_op = None
        self.last_write = None
        for e in RJ.CATALOGUE:  # every catalogue entry appears in the evidence, fired or not
            sim.count("fault:reject:" + e.id, 0)
        for name, m in sim.markets.items():
            for meth, kind in CONSTITUENTS.get(self.kinds[name], {}).items():
                self._wrap(sim, m, meth, kind)
        self.float_on, self.fdepth = False, 0
        self.probe_new, self.sim_ = None, sim
        for name, m in sim.markets.items():
            for meth in FLOAT_API.get(self.kinds[name], ()):
                self._floatify(m, meth)
        for meth in FLOAT_BROKER:
            self._floatify(sim.broker, meth)

    def observe(self, sim):
        return OS.observe(sim, self.kinds)

    # ---- constituent frames
    def _wrap(self, sim, m, meth, kind):
        orig = getattr(m, meth)
        oracle = self

        def wrapper(*a, **k):
            parent = oracle.stack[-1] if oracle.stack else None
            if parent is None or parent.kind != "helper":
                return orig(*a, **k)  # inside a single transaction (or outside any operation): not a transaction boundary
            snap = oracle.observe(sim)
            parent.baseline = snap  # what the helper did so far is a completed constituent
            fr = Frame(meth, kind, snap)
            oracle.stack.append(fr)
            try:
                res = orig(*a, **k)
            except Exception as e:
                oracle.stack.pop()
                oracle.on_raise(sim, fr, type(e).__name__, str(getattr(e, "message", e)))
                raise
            oracle.stack.pop()
            parent.baseline = oracle.observe(sim)
            return res

        setattr(m, meth, wrapper)

    def _floatify(self, obj, meth):
        orig = getattr(obj, meth)
        oracle = self
        new_numeric = []
        try:
            for n, prm in list(inspect.signature(getattr(type(obj), meth)).parameters.items())[1:]:
                ann = str(prm.annotation)
                if (n not in KNOWN_PARAMS.get(meth, ()) and prm.default is not inspect.Parameter.empty and prm.kind in (prm.POSITIONAL_OR_KEYWORD, prm.KEYWORD_ONLY)
                        and ("Decimal" in ann or "float" in ann or "int" in ann) and "bool" not in ann):
                    new_numeric.append(n)
        except (TypeError, ValueError):
            pass

        def wrapper(*a, **k):
            if oracle.probe_new and oracle.fdepth == 0 and new_numeric:
                k = dict(k)
                for n in new_numeric:
                    k.setdefault(n, Decimal(oracle.probe_new))
                oracle.sim_.count("probe:new_optional_parameter_set_to_an_extreme")
            if oracle.float_on and oracle.fdepth == 0:
                a = tuple(float(x) if isinstance(x, Decimal) else x for x in a)
                k = {n: (float(x) if isinstance(x, Decimal) else x) for n, x in k.items()}
            oracle.fdepth += 1
            try:
                return orig(*a, **k)
            finally:
                oracle.fdepth -= 1

        setattr(obj, meth, wrapper)

    def on_raise(self, sim, fr, exc, msg):
        now = self.observe(sim)
        if self.judged_state is not None and now == self.judged_state and fr.kind == "helper":
            return  # the raising constituent was judged already and this helper did nothing after it
        self.judged_state = now
        if exc == "RunTimeout":
            raise HarnessError("run timeout inside an operation")
        cause = RJ.cause_of(exc, msg)
        op = self.cur_op
        label = op["op"] if fr.top else f"{op['op']}>{fr.label}"
        sim.count(f"probe:rejected:{label}:{cause}")
        shape = OS.shape(fr.baseline)
        sim.state((label, cause, shape))
        for feat in _features(shape):
            sim.count("probe:rejected_in_state:" + feat)
        if cause == "closed_bar":
            sim.count("probe:rejected_in_state:closed_option_bar")
        if self.last_write == (sim.bar, op.get("phase")):
            sim.count("probe:rejected_in_state:mid_bar_after_another_write")
        d = OS.diff(fr.baseline, now)
        if d:
            what = d[0][0]
            sim.violate(OID, f"{label}:{cause}:{what}", exc=exc, msg=msg[:160], entry=op.get("entry"), bar=sim.bar, phase=op.get("phase"),
                        changed=[{"what": x[0], "where": x[1], "before": x[2], "after": x[3]} for x in d[:8]], args=op.get("a"))

    # ---- top-level frames
    def before_op(self, sim, op):
        self.cur_op = op
        self.judged_state = None
        self.float_on, self.fdepth = bool(op.get("float")), 0
        self.probe_new = op.get("probe_new")
        if self.float_on:
            sim.count("fault:float_arguments")
        kind = "helper" if op["op"] in HELPER_OPS else "atomic"
        self.stack = [Frame(op["op"], kind, self.observe(sim), top=True)]

    def after_op(self, sim, op, outcome):
        fr = self.stack[0] if self.stack else None
        self.stack = []
        self.float_on = False
        self.probe_new = None
        if fr is None:
            return
        eid = op.get("entry")
        status = outcome["status"]
        if status == "rejected":
            exc, msg = outcome.get("exc") or "", outcome.get("msg") or ""
            self.on_raise(sim, fr, exc, msg)
            e = RJ.BY_ID.get(eid) if eid else None  # a replay file may name an entry that has left the catalogue since
            if e is not None:
                cause = RJ.cause_of(exc, msg)
                tok_ok = True
                if op.get("want_token") and cause == "wallet_short":
                    tok_ok = RJ.short_token(msg) == op["want_token"]
                if cause in e.causes and tok_ok:
                    sim.count("fault:reject:" + eid)
                else:
                    sim.count(f"probe:recipe_other_cause:{eid}:{cause}" + ("" if tok_ok else ":other_token"))
        elif eid:
            sim.count(f"probe:recipe_{'accepted' if status == 'ok' else 'skipped'}:{eid}")
        if status == "ok" and outcome.get("new_actions"):
            self.last_write = (sim.bar, op.get("phase"))
        self.cur_op = None

    def finish(self, sim):
        if sim.crash is not None:
            # a bar loop that dies (e.g. inside update()) is not a rejected *operation*; other properties judge it
            sim.count("probe:run_crashed:" + type(sim.crash).__name__ + "@" + "/".join(getattr(sim, "crash_where", [])[-1:]))


# ====================================================================================================== plugin
def execute(scenario) -> Sim:
    sim = Sim(scenario, UnchangedOracle())
    sim.run()
    w = scenario["world"]
    if all(m["kind"] == "deribit" for m in w["markets"]):
        sim.sim_minutes = len(sim.actuator.account_status) * 60
    return sim


def abstract(scenario, sim):
    return sim.states


def _features(shape):
    out = []
    for fam in shape:
        k = fam[0]
        if k == "uni":
            if fam[1] >= 1:
                out.append("uni_one_position" if fam[1] == 1 else "uni_several_positions")
            if fam[2]:
                out.append("uni_pending_fees_or_uncollected")
            if fam[3]:
                out.append("lp_lent_to_squeeth_vault")
        elif k == "aave":
            if fam[1]:
                out.append("aave_supplies")
            if fam[2]:
                out.append("aave_debt")
        elif k == "squeeth":
            if fam[1]:
                out.append("squeeth_one_vault" if fam[1] == 1 else "squeeth_several_vaults")
            if fam[2]:
                out.append("squeeth_short")
        elif k == "deribit":
            if fam[1]:
                out.append("deribit_cash")
            if fam[2]:
                out.append("deribit_option_holdings")
        elif k == "gmx1" and fam[1]:
            out.append("glp_held" + ("_with_reward" if fam[2] else ""))
        elif k == "gmx2" and fam[1]:
            out.append("gm_held")
    return out or ["empty"]


def nontrivial(state) -> bool:
    _label, _cause, shape = state
    return _features(_hashable(shape)) != ["empty"]


def _hashable(s):
    return tuple(_hashable(x) for x in s) if isinstance(s, (list, tuple)) else s


def catalogue_report(counters: dict) -> dict:
    """per-entry hit counts from aggregated counters (evidence['coverage']['faults_fired'] or agg['counters'])"""
    fired = {}
    for e in RJ.CATALOGUE:
        fired[e.id] = int(counters.get("reject:" + e.id, counters.get("fault:reject:" + e.id, 0)))
    return {"entries": len(fired), "fired": fired, "unreached": sorted(k for k, v in fired.items() if v == 0)}


RULE = (
    "one case = one call that raised (a top-level operation, or one constituent transaction of a multi-step helper) inside a seeded "
    "run of the real bar loop, with the canonical observable state compared before/after; distinct_nontrivial counts distinct "
    "(operation or helper>constituent, classified rejection cause, shape of the state it was applied in: per market how many "
    "positions / supplies / debts / vaults / option holdings exist, pending fees, LP lent to a vault, cash, book present) tuples "
    "whose state is not empty. The catalogue itself is enumerated (every entry is the primary recipe of ~ runs/len(catalogue) runs); "
    "per-entry fired counts are in coverage.faults_fired under 'reject:<entry>' (0 = never reached in this batch)"
)
BUDGET = {"quick": {"runs": 4000, "wall": 55}, "thorough": {"runs": 100000, "wall": 1100}}
LEVEL = "fault_enumeration"
ASSUMPTIONS = [
    "observable state = wallet balances (a missing token is a zero balance), Uniswap positions (liquidity, pending amounts, transferred flag), Aave scaled supplies with collateral flag and scaled debts, Squeeth vaults (eth collateral, oSQTH short, LP held), Deribit cash + option positions + the displayed asks/bids of every instrument of the current status, GLP amount and reward, GM amount, and the action log (length + the last 6 records); memoised views, has_update, last_tick and id counters (SqueethMarket._max_vault_id) are not part of it",
    "multi-step helpers are judged per constituent transaction: remove_liquidity(collect=True) = remove, then collect_fee; add_liquidity_by_value = swap, then add_liquidity_by_tick; even_rebalance = one buy or sell; remove_all_liquidity = one remove_liquidity per position; open_deposit_mint_by_collat_rate = one open_deposit_mint. open_deposit_mint, burn_and_withdraw, buy and sell are single transactions",
    "any exception counts as 'raises an error', including Python-level ones (KeyError for an unknown position / vault / token, TypeError ...) raised by demeter on a call with well-typed arguments; those get cause names py_<Type> in the violation site",
    "Aave observation reads the market's own position book (scaled amount, flag) so that observing never warms or resets a memoised view",
    "worlds run at the 1-minute interval; an option market alone has hourly bars, next to a minutely market it is open on the hour only (closed-bar recipes); runs start on the hour when an option market is present (DESIGN section 5)",
    "a bar loop that dies outside an operation (e.g. in update()) is not a rejected operation and is only counted (probe run_crashed)",
    "a call the code accepts is not a rejection, whatever its arguments (negative amounts are refused since the validation fixes and are catalogue entries like any other)",
    "about 10 % of the market and broker-swap operations hand their amounts over as floats instead of Decimals (the public signatures say `Decimal | float`; outermost call only); whatever such a call raises - a protocol error or a TypeError from mixed arithmetic - is a rejection and judged like one",
]
LEVEL_TEXT = (
    "fault enumeration over a catalogue: every entry of the rejection catalogue (one recipe per operation x precondition x token that "
    "can be short; Uniswap, Aave, Squeeth, Deribit, GMX v1, GMX v2, Broker) is the primary recipe of a share of the runs and a "
    "secondary recipe of others; each recipe is placed at a random (bar, phase, position) of a random program on a single-family or "
    "mixed world and executed through the real Actuator bar loop; around EVERY raising call (recipe or not) the observable state "
    "must be unchanged. The catalogue is enumerated, the states it is applied in are sampled. Not proof."
)
LEVEL_NOTE = (
    "trusted: the definition of observable state (dsim/ref/obsstate.py), the decomposition of helpers into constituent transactions, the "
    "classification of exception messages into causes (reporting only - the verdict does not depend on it), generator reach (per-entry "
    "fired counts in coverage.faults_fired); histories are synthetic frames in the loaders' output format"
)
