"""C01 - reported net value equals an independent valuation of wallet plus positions.

Real: Actuator.run -> Broker.get_account_status -> every market's get_market_balance (UniLpMarket, AaveV3Market,
SqueethMarket, DeribitOptionMarket, GmxMarket, GmxV2Market), transfer_position_out/in through Squeeth's
deposit/withdraw_uni_position, Actuator.set_price / Broker._check_quote_token (which quote-token combinations run).
Worlds: dsim/worlds/mixed.py (1-4 markets of different families on one broker, account quote USD / USDC / WETH).
Oracle: dsim/ref/valuation.py - at the end of EVERY bar (state after after_bar, i.e. exactly what the loop reports)
and after every `acct.status` operation the reported AccountStatus is compared, term by term, with a valuation
recomputed from the public position state and my own copy of that bar's data rows:
  wallet      asset_value                       = sum balance * P
  per market  market_status[m].net_value        = that family's rule (in the market's quote token)
  total       net_value                         = asset_value + sum market value * (1 | P[market quote])
  once        every LP position is owned by exactly one of {its pool, a vault}: lent <=> referenced by one vault
The function under test is never called to produce an expectation.
"""
from decimal import Decimal

import pandas as pd

from ..sim import Sim, Oracle, HarnessError
from ..worlds import mixed as M
from ..worlds import deribit as W
from ..ref import valuation as V
from ..ref import aave as RA
from .. import rng as R

ID = "C01"
OID = "c01"

QUOTE_OF_KIND = {"aave": "USD", "squeeth": "USD", "gmx1": "USD", "gmx2": "USD"}


# --------------------------------------------------------------------------------------------------- generation
def generate(seed: int, tier: str = "quick") -> dict:
    rw, rp, rf = R.sub(seed, "world"), R.sub(seed, "program"), R.sub(seed, "faults")
    world, info = M.gen_world(rw, rf, tier)
    program = M.gen_program(rp, rf, world, info)
    return {"property": ID, "seed": seed, "world": world, "program": program, "faults": info["faults"]}


after_truncate = W.after_truncate


def shrink_candidates(scenario):
    """drop one market that no remaining operation addresses (never the pool of a remaining Squeeth market, never so
    that only option markets are left: that would change the bar grid)"""
    import copy

    w = scenario["world"]
    used = {o.get("m") for o in scenario.get("program", []) if o.get("m")}
    pools = {m["pool"] if isinstance(m["pool"], str) else m["pool"]["name"] for m in w["markets"] if m["kind"] == "squeeth"}
    for mw in w["markets"]:
        name = mw["name"]
        if name in used or name in pools:
            continue
        rest = [m for m in w["markets"] if m["name"] != name]
        if not rest or all(m["kind"] == "deribit" for m in rest):
            continue
        sc = copy.deepcopy(scenario)
        sc["world"]["markets"] = [m for m in sc["world"]["markets"] if m["name"] != name]  # a Squeeth market's pool stays as a plain pool
        yield sc


# --------------------------------------------------------------------------------------------------- oracle
def _fin(x):
    return isinstance(x, Decimal) and x.is_finite()


def _s(x):
    return V.fmt(x) if isinstance(x, Decimal) else x


class ValuationOracle(Oracle):
    def start(self, sim):
        w = sim.world
        if w.get("interval", "1min") not in ("1min", "1T", "min"):
            raise HarnessError("C01 worlds run at the 1-minute interval (ASSUMPTIONS)")
        if w.get("prices") is None:
            raise HarnessError("C01 worlds carry an explicit price frame")
        self.prices = V.Prices(w)
        self.start_ts = pd.Timestamp(w["start"])
        self.n = int(w["n"])
        self.kinds, self.refs, self.mquote = {}, {}, {}
        dec = w["tokens"]
        by_name = {mw["name"]: mw for mw in w["markets"]}
        for mw in w["markets"]:
            k, name = mw["kind"], mw["name"]
            self.kinds[name] = k
            if k == "uni":
                self.refs[name] = V.UniRef(mw, dec)
                self.mquote[name] = mw["quote"].upper()
            elif k == "aave":
                self.refs[name] = V.AaveRefData(mw)
            elif k == "deribit":
                self.refs[name] = V.DeribitRefData(mw)
                self.mquote[name] = mw["token"].upper()
            elif k == "gmx1":
                self.refs[name] = V.Gmx1RefData(mw)
            elif k == "gmx2":
                self.refs[name] = V.Gmx2RefData(mw)
            elif k != "squeeth":
                raise HarnessError(f"C01 has no valuation rule for market kind {k}")
            if k in QUOTE_OF_KIND:
                self.mquote[name] = QUOTE_OF_KIND[k]
        self.sq_pool = {}
        for mw in w["markets"]:
            if mw["kind"] == "squeeth":
                pool = mw["pool"] if isinstance(mw["pool"], str) else mw["pool"]["name"]
                self.sq_pool[mw["name"]] = pool
                pmw = by_name.get(pool) or mw["pool"]
                if pool not in self.refs:
                    self.refs[pool] = V.UniRef(pmw, dec)
                    self.kinds[pool] = "uni"
                    self.mquote[pool] = pmw["quote"].upper()
                self.refs[mw["name"]] = V.SqueethRefData(mw, self.refs[pool])
        # the markets' declared quote tokens are part of the public state: cross-check my table
        for name, m in sim.markets.items():
            if m.quote_token.name.upper() != self.mquote[name]:
                raise HarnessError(f"market {name}: quote token {m.quote_token.name} != expected {self.mquote[name]}")
        self.account_quote = self.prices.quote
        if sim.broker.quote_token is None or sim.broker.quote_token.name.upper() != self.account_quote:
            raise HarnessError("account quote token differs from the world's")
        if any(q != self.account_quote for q in self.mquote.values()):
            sim.count("probe:run_with_market_quote_differing_from_account_quote")
        self.bar_expect = {}
        self.n_actions_seen = 0
        # observation of the schedule only (DESIGN 2.5): when did an option market last compute its figures?
        self.drb_seen_cash = {}
        for name, k in self.kinds.items():
            if k == "deribit":
                self._observe_deribit(sim, name)

    def _observe_deribit(self, sim, name):
        m = sim.markets[name]
        orig = m.get_market_balance
        oracle = self

        def observed(_o=orig, _m=m, _n=name):
            r = _o()
            ts = _m.market_status.timestamp
            if ts is not None and pd.Timestamp(ts) == pd.Timestamp(ts).floor("1h"):
                oracle.drb_seen_cash[_n] = Decimal(_m.balance)
            return r

        m.get_market_balance = observed

    # ---------------------------------------------------------------------------------------- public state
    def read_state(self, sim):
        st = {"wallet": {k.name.upper(): Decimal(v.balance) for k, v in sim.broker.assets.items()}, "m": {}}
        for name, m in sim.markets.items():
            k = self.kinds[name]
            if k == "uni":
                st["m"][name] = {
                    key: {"lo": int(key.lower_tick), "hi": int(key.upper_tick), "liquidity": int(p.liquidity),
                          "pending0": Decimal(p.pending_amount0), "pending1": Decimal(p.pending_amount1), "transferred": bool(p.transferred)}
                    for key, p in m.positions.items()
                }
            elif k == "aave":
                s = RA.read_state(m)  # (scaled amount, flag) per token without warming a memoised view
                st["m"][name] = {"sup": {t: Decimal(v[0].numerator) / Decimal(v[0].denominator) for t, v in s.sup.items()},
                                 "debt": {t: Decimal(v.numerator) / Decimal(v.denominator) for t, v in s.debt.items()}}
            elif k == "squeeth":
                st["m"][name] = [
                    {"id": int(v.id), "collateral": Decimal(v.collateral_amount), "short": Decimal(v.osqth_short_amount), "nft": v.uni_nft_id}
                    for _k, v in sorted(m.vault.items(), key=lambda kv: kv[0].id)
                ]
            elif k == "deribit":
                st["m"][name] = {"cash": Decimal(m.balance), "pos": {nm: Decimal(p.amount) for nm, p in m.positions.items()}}
            elif k == "gmx1":
                st["m"][name] = {"glp": Decimal(m.glp_amount), "reward": Decimal(m.reward)}
            elif k == "gmx2":
                st["m"][name] = {"gm": float(m.amount)}
        return st

    # ---------------------------------------------------------------------------------------- expectation
    def row_of(self, ts):
        r = int((pd.Timestamp(ts) - self.start_ts) / pd.Timedelta("1min"))
        if r < 0 or r >= self.n:
            raise HarnessError(f"bar time {ts} outside the world")
        return r

    def expect(self, sim, ts):
        """independent valuation of the present public state under the data rows of the bar at `ts`"""
        ts = pd.Timestamp(ts)
        row = self.row_of(ts)
        st = self.read_state(sim)
        out = {"row": row, "ts": ts, "markets": {}, "once": [], "states": []}
        for t in st["wallet"]:
            if not self.prices.has(t):
                raise HarnessError(f"wallet token {t} has no price column (generator must price every token)")
        out["wallet"] = V.wallet_value(st["wallet"], self.prices, row)
        # who holds which LP position
        holders = {}
        for sq, pool in self.sq_pool.items():
            for vt in st["m"][sq]:
                if vt["nft"] is not None:
                    holders.setdefault((pool, vt["nft"]), []).append((sq, vt["id"]))
        for name, k in self.kinds.items():
            s = st["m"][name]
            ref = self.refs[name]
            same = self.mquote[name] == self.account_quote
            qrel = "same_quote" if same else "other_quote"
            if k == "uni":
                own, lent_here = [], 0
                for key, p in s.items():
                    h = holders.get((name, key), [])
                    pv, pt = ref.position_value(p, row)
                    if h:
                        lent_here += 1
                        if not p["transferred"] and abs(pv) > pt:
                            out["once"].append(("double_counted:lent_position_still_counted_in_pool", name, key, pv))
                        if len(h) > 1 and abs(pv) > pt:
                            out["once"].append(("double_counted:position_held_by_two_vaults", name, key, pv))
                    else:
                        own.append(p)
                        if p["transferred"] and abs(pv) > pt:
                            out["once"].append(("dropped:position_moved_out_but_held_by_no_market", name, key, pv))
                v, tol = ref.market_value(own, row)
                cause = "positions_with_one_lent_out" if lent_here else "positions"
                out["markets"][name] = {"lo": v, "hi": v, "tol": tol, "site": f"uni:{cause}"}
                cls = "none" if not s else ("lent" if lent_here else ("liquidity" if any(p["liquidity"] > 0 for p in own) else "pending_only"))
                out["states"].append(("uni", qrel, cls))
                if lent_here:
                    sim.count("probe:valuation_with_lp_lent_as_collateral")
            elif k == "aave":
                v, tol = ref.market_value(s["sup"], s["debt"], self.prices, row)
                out["markets"][name] = {"lo": v, "hi": v, "tol": tol, "site": "aave:positions"}
                out["states"].append(("aave", qrel, "none" if not s["sup"] and not s["debt"] else ("with_debt" if s["debt"] else "supply_only")))
            elif k == "squeeth":
                pool = self.sq_pool[name]
                vaults, has_lp = [], False
                for vt in s:
                    lp = None
                    if vt["nft"] is not None:
                        lp = st["m"][pool].get(vt["nft"])
                        has_lp = has_lp or lp is not None
                    vaults.append({"collateral": vt["collateral"], "short": vt["short"], "lp": lp})
                v, tol = ref.market_value(vaults, row)
                out["markets"][name] = {"lo": v, "hi": v, "tol": tol, "site": "squeeth:" + ("vault_holding_lp" if has_lp else "vaults")}
                out["states"].append(("squeeth", qrel, "none" if not s else ("vault_lp" if has_lp else ("short" if any(x["short"] > 0 for x in s) else "collateral_only"))))
            elif k == "deribit":
                hour = ts.floor("1h")
                lo, hi, tol, missing = ref.market_value(s["cash"], s["pos"], str(hour))
                is_open = ts == hour
                seen = self.drb_seen_cash.get(name)
                moved = (not is_open) and seen is not None and seen != s["cash"]
                cause = ("open_bar" if is_open else "closed_bar") + (":cash_moved_since_last_open_bar" if moved else (":instrument_missing_from_book" if missing else ""))
                out["markets"][name] = {"lo": lo, "hi": hi, "tol": tol, "site": "deribit:" + cause}
                out["states"].append(("deribit", qrel, ("options" if s["pos"] else "cash_only") + ":" + cause))
                if missing:
                    sim.count("probe:deribit_held_instrument_missing_from_book(band)")
            elif k == "gmx1":
                v, tol = ref.market_value(s["glp"], s["reward"], row)
                out["markets"][name] = {"lo": v, "hi": v, "tol": tol, "site": "gmx1:glp_and_reward"}
                out["states"].append(("gmx1", qrel, "none" if s["glp"] == 0 and s["reward"] == 0 else ("glp+reward" if s["reward"] > 0 and s["glp"] > 0 else ("reward_only" if s["reward"] > 0 else "glp"))))
                if s["reward"] > 0:
                    sim.count("probe:valuation_with_reward_positive")
            elif k == "gmx2":
                v, tol = ref.market_value(s["gm"], row)
                out["markets"][name] = {"lo": v, "hi": v, "tol": tol, "site": "gmx2:gm"}
                out["states"].append(("gmx2", qrel, "gm" if s["gm"] > 0 else "none"))
            out["markets"][name]["conv"] = self.prices.conversion(self.mquote[name], row)
            out["markets"][name]["quote"] = self.mquote[name]
        return out

    # ---------------------------------------------------------------------------------------- judgement
    def judge(self, sim, status, exp, where):
        """status: the reported AccountStatus; exp: expect(); where: 'bar_end' | 'status_read'"""
        for s in exp["states"]:
            sim.state(s + (where,))
        sim.count("probe:valuations_judged:" + where)
        bar = exp["row"]
        # 1. wallet
        want, tol = exp["wallet"]
        got = status.asset_value
        got = Decimal(got) if not isinstance(got, Decimal) else got
        if not _fin(got):
            sim.violate(OID + ".wallet_value", "wallet:not_a_number", where=where, row=bar, got=got)
        elif abs(got - want) > tol:
            sim.violate(OID + ".wallet_value", "wallet", where=where, row=bar, ts=exp["ts"], got=got, want=_s(want), tol=_s(tol))
        # 2. every market on its own
        reported = {}
        for name, e in exp["markets"].items():
            key = sim.markets[name].market_info
            if key not in status.market_status:
                sim.violate(OID + ".market_value", f"{e['site']}:market_not_reported", where=where, row=bar, market=name)
                continue
            g = status.market_status[key].net_value
            g = Decimal(g) if not isinstance(g, Decimal) else g
            reported[name] = g
            if not _fin(g):
                sim.violate(OID + ".market_value", f"{e['site']}:not_a_number", where=where, row=bar, market=name, got=g)
                continue
            if g < e["lo"] - e["tol"] or g > e["hi"] + e["tol"]:
                sim.violate(OID + ".market_value", e["site"], where=where, row=bar, ts=exp["ts"], market=name, got=g,
                            want=_s(e["lo"]) if e["lo"] == e["hi"] else [_s(e["lo"]), _s(e["hi"])], tol=_s(e["tol"]),
                            diff=_s(g - e["lo"]), market_quote=e["quote"])
        # 3. the sum: wallet + every market's value converted into the account's quote token
        nv = status.net_value
        nv = Decimal(nv) if not isinstance(nv, Decimal) else nv
        if not _fin(nv):
            sim.violate(OID + ".net_value", "total:not_a_number", where=where, row=bar, got=nv)
        elif _fin(got) and all(_fin(reported.get(n)) for n in exp["markets"]):
            with V.high():
                total, scale = got, abs(got)
                for name, e in exp["markets"].items():
                    term = reported[name] * e["conv"]
                    total += term
                    scale += abs(term)
                tol_sum = V.EXACT_REL * scale
                resid = nv - total
            if abs(resid) > tol_sum:
                cause = "sum_mismatch"
                conv = [n for n, e in exp["markets"].items() if e["conv"] != 1 and reported[n] != 0]
                for mask in range(1, 1 << len(conv)):  # is the residual what some markets' missing conversion explains?
                    sub = [n for i, n in enumerate(conv) if mask >> i & 1]
                    with V.high():
                        dropped = sum((reported[n] * (1 - exp["markets"][n]["conv"]) for n in sub), Decimal(0))
                    if abs(resid - dropped) <= tol_sum:
                        kinds = "+".join(sorted({self.kinds[n].rstrip("12") for n in sub}))
                        cause = f"value_of_{kinds}_market_not_converted"
                        break
                sim.violate(OID + ".net_value", f"total:{cause}", where=where, row=bar, ts=exp["ts"], got=nv, want=_s(total), diff=_s(resid),
                            account_quote=self.account_quote, conversions={n: [e["quote"], _s(e["conv"])] for n, e in exp["markets"].items()})
        # 4. every holding exactly once
        for cause, pool, key, pv in exp["once"]:
            sim.violate(OID + ".counted_once", cause, where=where, row=bar, pool=pool, position=[key.lower_tick, key.upper_tick], position_value=_s(pv))

    # ---------------------------------------------------------------------------------------- hooks
    def phase(self, sim, bar, phase, pos):
        if phase == "after_bar" and pos == "end":
            # nothing runs between here and the loop's own get_account_status for this bar
            self.bar_expect[bar] = self.expect(sim, sim.snapshot.timestamp)
            self._action_probes(sim)

    def _action_probes(self, sim):
        acts = sim.actuator.actions
        for a in acts[self.n_actions_seen:]:
            nm = type(a).__name__
            mod = type(a).__module__
            if nm == "LiquidationAction":
                sim.count("fault:liquidation_during_run:" + ("aave" if ".aave." in mod else "squeeth"))
            elif nm == "ReduceDebtAction":
                sim.count("fault:squeeth_lp_redeemed_at_bar_end")
            elif nm in ("DeliverAction", "ExpiredAction"):
                sim.count("fault:option_expired_during_run")
        self.n_actions_seen = len(acts)

    def after_op(self, sim, op, outcome):
        name = op["op"]
        if name == "acct.status" and outcome["status"] == "ok":
            call = getattr(sim, "acct_call", None) or {}
            exp = self.expect(sim, call.get("ts", sim.world["start"]))
            self.judge(sim, outcome["result"], exp, "status_read")
        elif name == "acct.status" and outcome["status"] == "rejected":
            # the read itself failed: no value reported at all
            if self.dangling_lp(sim):
                sim.count("probe:valuation_failed:vault_references_position_deleted_through_pool_api(observation)")
            else:
                sim.violate(OID + ".crash", f"status_read:{outcome.get('exc')}", msg=outcome.get("msg"))
        elif name in ("deribit.deposit", "deribit.withdraw") and outcome["status"] == "ok" and sim.bar >= 0 and sim.snapshot is not None:
            ts = pd.Timestamp(sim.snapshot.timestamp)
            if ts != ts.floor("1h"):
                sim.count(f"fault:{name.split('.')[1]}_on_closed_bar")

    def dangling_lp(self, sim):
        """a vault references an LP position that is no longer in its pool: the strategy emptied and collected the lent
        position through the pool's own API (the pool does not refuse that), after which nothing can value the vault"""
        for sq, pool in self.sq_pool.items():
            for v in sim.markets[sq].vault.values():
                if v.uni_nft_id is not None and v.uni_nft_id not in sim.markets[pool].positions:
                    return True
        return False

    def finish(self, sim):
        rows = sim.actuator.account_status
        for bar in sorted(self.bar_expect):
            if bar < 0 or bar >= len(rows):
                continue
            exp = self.bar_expect[bar]
            if pd.Timestamp(rows[bar].timestamp) != exp["ts"]:
                raise HarnessError(f"account row {bar} is stamped {rows[bar].timestamp}, the bar was {exp['ts']}")
            self.judge(sim, rows[bar], exp, "bar_end")
        self._action_probes(sim)
        if sim.crash is not None:
            msg = str(getattr(sim.crash, "message", sim.crash))
            name = type(sim.crash).__name__
            if name == "DemeterError" and "must quote by stable coin" in msg:
                sim.count("probe:configuration_refused_by_quote_token_check")
                return
            import traceback

            frames = [f.name for f in traceback.extract_tb(sim.crash.__traceback__)]
            if "get_account_status" in frames:  # the loop died while valuing the account: no value is reported at all
                if name == "KeyError" and sim.crash_where[-1] == "broker.py:get_account_status" and not self.prices.has(msg.strip("'\"")):
                    raise HarnessError(f"token {msg} has no price column: generator bug")
                if self.dangling_lp(sim):
                    sim.count("probe:valuation_failed:vault_references_position_deleted_through_pool_api(observation)")
                else:
                    sim.violate(OID + ".crash", f"bar_loop:{name}@{sim.crash_where[-1]}", msg=msg[:200], where=sim.crash_where)
            else:
                sim.count("probe:crash_outside_valuation:" + name + "@" + sim.crash_where[-1])


# --------------------------------------------------------------------------------------------------- execution
def execute(scenario) -> Sim:
    sim = Sim(scenario, ValuationOracle())
    sim.run()
    only = all(m["kind"] == "deribit" for m in scenario["world"]["markets"])
    sim.sim_minutes = len(sim.actuator.account_status) * (60 if only else 1)
    return sim


def abstract(scenario, sim):
    return sim.states


def nontrivial(state) -> bool:
    cls = state[2]
    return not (cls == "none" or cls.startswith("cash_only:open_bar") and cls.count(":") == 1)


RULE = (
    "one case = one market (or the wallet/total) valued at one moment - the end of a bar or an account-status read after an "
    "operation - inside a seeded run of the real bar loop; distinct_nontrivial counts distinct abstract cases (market family, "
    "market quote token equal to / different from the account quote token, position class: uniswap none/liquidity/pending only/one "
    "position lent out; aave none/supply only/with debt; squeeth none/collateral only/short/vault holding an LP position; deribit "
    "cash only/options x open bar/closed bar/cash moved on closed bars/held instrument missing from the book; gmx none/glp/glp+reward/gm; "
    "judged at bar end or after an operation) in which the market holds something or the bar is hostile"
)
BUDGET = {"quick": {"runs": 1800, "wall": 44}, "thorough": {"runs": 40000, "wall": 1100}}
LEVEL = "exploration"
ASSUMPTIONS = [
    "bar interval is 1 minute (an option market alone: one bar per listed hour); what a resampled bar's data row is, is the subject of C02/C05/C08, not restated here",
    "a Uniswap bar's pool price is the `price` cell of its data row (close of the previous minute; first row: its open), positions are valued in the pool's quote token at that price; sqrt prices are allowed 4 units of their Q64.96 representation",
    "a stable coin used as the account's quote token is worth exactly 1 USD in the generated price frame (USD-quoted markets - Aave, Squeeth, GMX - are then summed 1:1, as the quote-token check intends); when the account is quoted in a non-stable token the frame states the USD price explicitly",
    "Aave totals are compared to 1e-4 absolute (its reporting granularity), the Squeeth LP term to 1e-9 relative (float TWAP), GMX v1 to 1e-15 relative (16-digit glp_price column), GMX v2 to 1e-15 relative (floats), everything else to 1e-18 relative of the summed magnitudes",
    "Deribit: an option is valued at the mark of the bar's book (the hour the bar belongs to), exact or rounded to one fee step; a held instrument that has no row in that book is accepted at any value between nothing and its highest earlier mark (the text does not say what an unquoted option is worth)",
    "runs with an option market start on the hour with the floor hour present (a run starting off the hour crashes before any value is reported, DESIGN section 5)",
    "programs move LP positions between markets only through Squeeth's deposit/withdraw_uni_position (and its liquidation); a bare transfer_position_out by the strategy, which hands the position to nobody, is not generated",
    "a run that dies is an observation, not a C01 violation, when no value is reported for a reason outside valuation: the configuration is refused by the quote-token check, the loop crashes outside get_account_status, or a vault references an LP position that the strategy emptied, collected and thereby deleted through the pool's own API (the pool does not refuse that; nothing can value such a vault); any other exception raised inside get_account_status is reported as c01.crash",
    "Squeeth vault value uses the Squeeth frame's own WETH / OSQTH columns ('that bar's market data'); the account price frame carries the same columns",
    "Aave position state is read from the position dicts (scaled amount per token) so that observing never warms or resets a memoised view",
]
LEVEL_TEXT = (
    "seeded exploration: generated mixed worlds (1-4 of: Uniswap pools with decimals from {6,8,18} and either token as quote, Aave v3, "
    "Squeeth with its pool incl. vaults holding an LP position, Deribit ETH/BTC, GMX v1, GMX v2; account quoted in USD, USDC or WETH) x "
    "programs that open, modify and close positions in every market from every phase (initialize, before_bar, trigger, on_bar, after_bar, notify), with hostile histories (price shocks that "
    "liquidate Aave / Squeeth positions at bar end, option expiry, missing instruments / hours, deposits and withdrawals on closed option "
    "bars); at every bar end and after account-status reads the reported wallet value, every market value and the total are compared "
    "with an independent recomputation from public position state and the scenario's raw numbers. Sampling, not proof."
)
LEVEL_NOTE = (
    "trusted: the oracle's reading of the property and of DESIGN appendix A (dsim/ref/valuation.py), the generator's reach (see "
    "reach_probes), Python Decimal at 60 digits; histories are synthetic frames in the loaders' output format"
)
