"""C02 - no look-ahead: bars 0..k depend only on data of bars 0..k; supplied frames stay intact; re-runs reproduce.

Twin histories: scenario S runs on history H (twice, on the *same* frame objects) and on H'_k = H[0..k] ++ a different
future (frozen tail, truncated history, or an independent random continuation). The event log (operation results,
snapshots handed to the strategy, notifications), the account-status rows and the actions of bars 0..k must be
identical; SHA-256 of every supplied frame must be unchanged by a run.
"""
import copy

import pandas as pd

from ..sim import Sim, Oracle, op
from ..multi import Combined
from ..canon import canon, digest
from ..shrink import truncate_world
from ..worlds import uni as U
from ..worlds import deribit as W
from .. import rng as R
from .. import donors as DN
from .c05 import gen_prices, grid_labels, ORDER

ID = "C02"


# --------------------------------------------------------------------------------------------------- generation
def gen_base(seed, tier):
    rw, rp = R.sub(seed, "world"), R.sub(seed, "program")
    interval = rw.choice(["1min"] * 4 + ["2min", "5min", "15min"])
    k = int(pd.Timedelta(interval) / pd.Timedelta("1min"))
    nbars = rw.choice([3, 4, 6, 9, 14, 22] if tier == "quick" else [3, 4, 6, 9, 14, 22, 40, 90])
    off = rw.choice([0, 0, 1, k - 1]) if k > 1 else rw.choice([0, 13])
    n = max(2, nbars * k - (off % k))
    start = pd.Timestamp("2023-08-13 00:00:00") + pd.Timedelta(minutes=off + 60 * rw.randint(0, 30))
    pools = [(("USDC", 6), ("WETH", 18), "USDC"), (("WBTC", 8), ("USDC", 6), "USDC"), (("DAI", 18), ("WETH", 18), "WETH")]
    rw.shuffle(pools)
    nm = rw.choice([1, 1, 2])
    markets, tokens = [], {}
    for j in range(nm):
        t0, t1, q = pools[j]
        mw = U.gen_uni_market(rw, f"uni{j}", n, t0, t1, q)
        mw["currentLiquidity"] = [x if int(x) > 0 else "1000000000000" for x in mw["currentLiquidity"]]
        # holes in the raw data exercise the real fillna/ffill path (first row kept: the loader back-fills a leading hole by design)
        for i in range(1, n):
            if rw.random() < 0.08:
                mw["closeTick"][i] = None
        rh = R.sub(seed, "prehistory", j)
        if rh.random() < 0.3:
            # the supplied frame is a slice of a longer loaded one: 1-7 minutes of history before the run, so the derived
            # columns of the first row (price = previous close) are not what the slice alone would give
            h = rh.choice([1, 2, 3, 7])
            h = h + 1 if h == n else h  # never as long as the run (generic list walkers take n-long lists for minute series)
            t_first = next(t for t in mw["closeTick"] if t is not None)
            mw["pre"] = [{"closeTick": t_first + rh.randint(-300, 300), "inAmount0": mw["inAmount0"][0], "inAmount1": mw["inAmount1"][0]} for _ in range(h)]
        markets.append(mw)
        tokens[t0[0]] = t0[1]
        tokens[t1[0]] = t1[1]
    explicit = rw.random() < 0.6 or nm > 1
    world = {
        "start": str(start), "n": n, "interval": interval, "tokens": tokens, "assets": {t: "100000" for t in tokens},
        "quote": "USD", "prices": gen_prices(rw, sorted(tokens), n) if explicit else None, "markets": markets,
    }
    labels = grid_labels(start, n, k)
    nb = len(labels)
    program = []
    for _ in range(rp.choice([1, 3, 6, 12, 20])):
        mw = rp.choice(markets)
        bar = rp.randint(-1, nb - 1)
        phase = "initialize" if bar == -1 else rp.choice(["before_bar", "trigger", "on_bar", "on_bar", "after_bar"])
        i = min(n - 1, max(0, bar) * k)
        ct = next((t for t in reversed(mw["closeTick"][: i + 1]) if t is not None), mw["closeTick"][0])
        o = U.random_uni_read(rp, mw, ct) if rp.random() < 0.25 else U.random_uni_op(rp, mw, ct, hostile=0.1)
        o.update({"bar": bar, "phase": phase})
        program.append(o)
    program.sort(key=lambda o: (o["bar"], ORDER.index(o["phase"])))
    return {"property": ID, "seed": seed, "world": world, "program": program, "faults": []}, k, nb, labels, start


def generate(seed: int, tier: str = "quick") -> dict:
    rv = R.sub(seed, "flavour")
    if rv.random() < 0.55:
        return gen_donor(seed, tier, DN.pick(rv))
    sc, k, nb, labels, start = gen_base(seed, tier)
    rf = R.sub(seed, "faults")
    n = sc["world"]["n"]
    # divergence points: (bar k after which the future differs, raw minute j where it starts, kind)
    cands = sorted(set([0, max(0, nb - 2)] + [rf.randint(0, max(0, nb - 2)) for _ in range(2)]))
    twins = []
    for kb in cands:
        if kb + 1 >= nb:
            continue
        j0 = next(i for i in range(n) if _label(start, i, k) == labels[kb + 1])
        j = j0 + (rf.randint(0, k - 1) if k > 1 and rf.random() < 0.4 else 0)
        j = min(j, n - 1)
        kind = rf.choice(["freeze", "truncate", "random", "random"])
        twins.append({"k": kb, "j": j, "kind": kind, "seed": rf.randint(0, 2**31), "mid_bin": j != j0})
        sc["faults"].append({"kind": "future_divergence:" + kind, "bar": kb})
    sc["twins"] = twins
    if R.sub(seed, "reordered").random() < 0.06 and not any("pre" in m for m in sc["world"]["markets"]):
        sc.setdefault("opts", {})["reordered_rows"] = True
        sc["faults"].append({"kind": "frames_not_in_chronological_order"})
    elif R.sub(seed, "loader").random() < 0.2:
        sc.setdefault("opts", {})["loader_twin"] = True  # the twin data sets also go through the real CSV loader
        sc["faults"].append({"kind": "data_read_from_minute_files"})
    if not sc.get("opts", {}).get("reordered_rows"):
        _maybe_add_column(R.sub(seed, "add_column"), sc)
        _maybe_decoys(R.sub(seed, "decoys"), sc)
    return sc


def gen_donor(seed, tier, donor):
    """history and program of another market family (aave, squeeth + pool, deribit alone or beside a minutely uniswap
    market, gmx v1/v2) with the same twin-future machinery"""
    base = DN.base_scenario(donor, seed, tier)
    world = base["world"]
    rf = R.sub(seed, "faults")
    extra_faults = []
    if any(m.get("kind") == "gmx2" for m in world["markets"]) and world.get("interval", "1min") == "1min" and R.sub(seed, "gm_resampled").random() < 0.3:
        # a GM market on coarser bars: today that run is refused before the first bar (GmxV2Market._resample calls a pandas
        # API that does not exist) - refused or not, the frame the caller handed over stays the caller's
        world["interval"] = R.sub(seed, "gm_interval").choice(["2min", "5min", "15min"])
        world["allow_gmx2_resample"] = True
        extra_faults.append({"kind": "gm_market_on_resampled_bars"})
    times = DN.bar_times(world)
    nb = len(times)
    n = int(world["n"])
    k = DN.interval_minutes(world)
    sc = {"property": ID, "seed": seed, "world": world, "program": base["program"], "faults": [{"kind": "donor:" + donor}] + extra_faults, "donor": donor}
    # an instrument that drops out of the hourly snapshot for one hour of its life and is back in the next ("data may be
    # missing due to unstable collect server"): whatever a held position is worth in that hour must not come from later hours
    rm = R.sub(seed, "missing_mid_life")
    for mw in world["markets"]:
        if mw.get("kind") == "deribit" and len(mw.get("hours", [])) >= 3 and rm.random() < 0.35:
            h = rm.randint(1, len(mw["hours"]) - 2)
            names = sorted(mw["hours"][h]["rows"])
            if len(names) >= 1:
                nm = rm.choice(names)
                if nm in mw["hours"][h + 1]["rows"] and len(names) > 1:
                    del mw["hours"][h]["rows"][nm]
                    sc["faults"].append({"kind": "instrument_missing_for_one_hour", "bar": h})
    # the option token's price taken from the option market's own data through the market's helper (hourly underlying,
    # expanded to minutes by the real get_price_from_data) instead of a price list of the user's own
    for mw in world["markets"]:
        if mw.get("kind") == "deribit" and mw.get("token") == "ETH" and "ETH" in (world.get("prices") or {}) and R.sub(seed, "prices_from_market").random() < 0.4:
            world["prices_from"] = {"ETH": mw["name"]}
            sc["faults"].append({"kind": "token_price_derived_from_option_data"})
            break
    cands = sorted(set([0, max(0, nb - 2)] + [rf.randint(0, max(0, nb - 2)) for _ in range(2)]))
    twins = []
    for kb in cands:
        if kb + 1 >= nb:
            continue
        j0 = DN.minute_of(world, times[kb + 1])
        if j0 <= 0 or j0 >= n:
            continue
        j = min(n - 1, j0 + (rf.randint(0, k - 1) if k > 1 and rf.random() < 0.4 else 0))
        kind = rf.choice(["freeze", "truncate", "random", "random"])
        twins.append({"k": kb, "j": j, "kind": kind, "seed": rf.randint(0, 2**31), "mid_bin": j != j0})
        sc["faults"].append({"kind": "future_divergence:" + kind, "bar": kb})
    if world.get("prices_from"):
        # a data set that ends with the snapshot taken exactly at midnight (the day boundary of the derived price list)
        for kb in range(nb - 1):
            t = pd.Timestamp(times[kb])
            j0 = DN.minute_of(world, times[kb + 1])
            if t == t.normalize() and 0 < j0 < n and not any(tw["k"] == kb and tw["kind"] == "truncate" for tw in twins):
                twins.append({"k": kb, "j": j0, "kind": "truncate", "seed": rf.randint(0, 2**31), "mid_bin": False})
                sc["faults"].append({"kind": "future_divergence:truncate_after_the_midnight_snapshot", "bar": kb})
                break
    sc["twins"] = twins
    _maybe_add_column(R.sub(seed, "add_column"), sc)
    _maybe_decoys(R.sub(seed, "decoys"), sc)
    return sc


def _label(start, i, k):
    ts = start + pd.Timedelta(minutes=i)
    m = ts.hour * 60 + ts.minute
    return ts.normalize() + pd.Timedelta(minutes=(m // k) * k)


def make_twin(scenario, tw):
    """H' = H[0..j) ++ a different future"""
    n = int(scenario["world"]["n"])
    j = tw["j"]
    has_hourly = any(m.get("kind") == "deribit" for m in scenario["world"]["markets"])
    if tw["kind"] == "truncate":
        sc = truncate_world(scenario, j)
        if sc is not None and has_hourly:
            sc = W.after_truncate(sc)
        if sc is None:
            return None
        sc["program"] = list(sc["program"])
        return sc
    sc = copy.deepcopy(scenario)
    rr = R.sub(tw["seed"], "future")
    t_div = pd.Timestamp(scenario["world"]["start"]) + pd.Timedelta(minutes=j)

    def walk(o):
        if isinstance(o, dict):
            if o.get("kind") == "deribit" and "hours" in o:  # hourly rows, handled as a whole (book levels are lists too)
                return dict(o, hours=_diverge_hours(rr, o["hours"], t_div, tw["kind"]))
            vals = {k2: walk(o[k2]) for k2 in sorted(o)}  # sorted: the PRNG draw order must not depend on key order
            return {k2: vals[k2] for k2 in o}
        if isinstance(o, list):
            if len(o) == n and not any(isinstance(x, (dict, list)) or _literal_kind(x) == "text" for x in o):
                head = o[:j]
                last = next((x for x in reversed(head) if x is not None), o[0])
                if tw["kind"] == "freeze":
                    return head + [last if _same_kind(last, x) else x for x in o[j:]]
                return head + [_perturb(rr, last, x) for x in o[j:]]
            return [walk(x) for x in o]
        return o

    sc["world"] = walk(sc["world"])
    return sc


def _diverge_hours(rr, hours, t_div, kind):
    """hourly order-book rows at or after the divergence time get a different future: frozen = the last earlier
    hour's rows repeated; random = marks, underlying and every book level rescaled and resized"""
    from decimal import Decimal

    out, last = [], None
    for h in hours:
        if pd.Timestamp(h["t"]) < t_div:
            out.append(h)
            last = h
            continue
        if kind == "freeze":
            out.append({"t": h["t"], "rows": copy.deepcopy(last["rows"])} if last is not None else h)
            continue
        f = Decimal(repr(round(rr.uniform(0.6, 1.6), 4)))
        g = Decimal(repr(round(rr.uniform(0.7, 1.4), 4)))
        rows = {}
        for nm in sorted(h["rows"]):
            r = dict(h["rows"][nm])
            r["mark"] = format((Decimal(r["mark"]) * f).quantize(Decimal("0.00000001")).normalize(), "f") if Decimal(r["mark"]) else r["mark"]
            r["underlying"] = format((Decimal(r["underlying"]) * g).quantize(Decimal("0.01")), "f")
            for side in ("asks", "bids"):
                r[side] = [[format((Decimal(p) * f).quantize(Decimal("0.000001")).normalize(), "f"), str(int(Decimal(q)) + rr.randint(1, 40))] for p, q in r[side]]
            rows[nm] = r
        out.append({"t": h["t"], "rows": rows})
    return out


def _literal_kind(x):
    """what pandas' dtype inference sees in a literal: whole number below / above the int64 limit, fraction, other"""
    if isinstance(x, str):
        try:
            from decimal import Decimal

            d = Decimal(x)
        except Exception:
            return "text"
        if not d.is_finite():
            return "text"  # "nan": an empty cell
        if "." in x or "e" in x.lower():
            return "fraction"
        v = abs(int(d))
        return "whole" if v < (1 << 63) else ("u64" if v < (1 << 64) else "huge")
    return type(x).__name__


def _same_kind(a, b):
    return _literal_kind(a) == _literal_kind(b)


def _perturb(rr, last, x):
    """an independent continuation value of the same type as x"""
    if x is None:
        return None if rr.random() < 0.5 else last
    if isinstance(x, int):
        return int(last if last is not None else x) + rr.randint(-400, 400)
    if isinstance(x, str):
        from decimal import Decimal

        if _literal_kind(x) == "text":
            return x
        d = Decimal(x)
        if not d.is_finite():
            return x
        if d == d.to_integral_value() and "." not in x and "e" not in x.lower():
            # whole-number literal (wei amounts, liquidity): stays a whole-number literal on the same side of the int64
            # limit, so that the dtype pandas infers for the column (int64 vs object) is the same in both histories
            v = int(d * Decimal(repr(round(rr.uniform(0.3, 3.0), 6)))) + rr.randint(0, 1000)
            lo, hi = {"whole": (0, (1 << 63) - 1), "u64": (1 << 63, (1 << 64) - 1), "huge": (1 << 64, None)}[_literal_kind(x)]
            if v < lo:
                v = lo + rr.randint(0, 1000)
            if hi is not None and v > hi:
                v = hi - rr.randint(0, 1000)
            return str(v)
        out = format(d * Decimal(repr(round(rr.uniform(0.5, 1.8), 6))), "f")
        return out if "." in out else out + ".0"
    if isinstance(x, float):
        return x * rr.uniform(0.5, 1.8)
    return x


# --------------------------------------------------------------------------------------------------- oracle
class SnapshotLogger(Oracle):
    """puts a deep digest of every snapshot handed to the strategy into the event log (at hand-over time)"""

    def phase(self, sim, bar, phase, pos):
        if pos == "begin" and phase in ("before_bar", "on_bar", "after_bar") and sim.snapshot is not None:
            s = sim.snapshot
            # Snapshot.market_status is a class-level dict shared by every snapshot in the process: digest only this
            # run's markets, otherwise the log would depend on which scenarios the worker process ran before
            mine = {name: s.market_status[m.market_info] for name, m in sim.markets.items()}
            sim.event("snapshot", phase, digest([s.timestamp, s.row_id, s.prices, mine]))
            # a strategy may keep what it was handed (`self.last = snapshot.prices`): time, row and prices of a snapshot
            # stay what they were at hand-over whatever comes later (the market rows are left out: Snapshot.market_status is a
            # process-wide shared dict on the unchanged tree, DESIGN 11.2)
            if not hasattr(self, "kept"):
                self.kept = []
            self.kept.append((bar, phase, s, s.prices, digest([s.timestamp, s.row_id, s.prices])))

    def finish(self, sim):
        for bar, phase, s, prices, d0 in getattr(self, "kept", []):
            if digest([s.timestamp, s.row_id, prices]) != d0 or s.prices is not prices and digest([s.timestamp, s.row_id, s.prices]) != d0:
                sim.violate("c02.lookahead", f"kept_snapshot:{phase}:changed_after_hand_over", bar=bar, now=[s.timestamp, s.row_id, s.prices])
                break


def frame_hash(df, user_columns=()):
    """hash of a supplied frame; columns the STRATEGY added on its own request (Strategy.add_column writes into the run's
    market data by design) are the user's and left out - anything else that appears in the frame counts"""
    if user_columns:
        keep = [c for c in df.columns if c not in user_columns]
        if len(keep) != len(df.columns):
            df = df[keep]
    return digest([canon(df), [str(t) for t in df.dtypes], str(df.index.dtype), [str(c) for c in df.columns]])


def _user_columns(scenario):
    return tuple(sorted({o["a"]["name"] for o in scenario.get("program", []) if o.get("op") == "strat.add_sparse_column"}))


@op("strat.add_sparse_column")
def _add_sparse_column(sim, m, a):
    """The strategy registers an indicator of its own in initialize (Strategy.add_column): a CAUSAL one - the value stamped
    t is computed from the data row of t alone - but sampled more coarsely than the data (every s-th row from an offset),
    so most rows have no value of their own."""
    df = m.data
    if isinstance(df.index, pd.MultiIndex) or isinstance(df.columns, pd.MultiIndex):
        return None
    src = next((c for c in df.columns if c != a["name"] and len(df) and isinstance(df[c].iloc[0], (int, float)) and not isinstance(df[c].iloc[0], bool)), None)
    if src is None:
        src = next((c for c in df.columns if c != a["name"]), None)
    if src is None:
        return None

    def call():
        step, off = max(1, int(a.get("step", 2))), int(a.get("off", 0)) % max(1, int(a.get("step", 2)))
        part = df[src].iloc[off::step]
        series = pd.Series([float(x) if x == x and x is not None else float("nan") for x in part], index=part.index)
        sim.strategy.add_column(m if a.get("by") == "market" else m.market_info, a["name"], series)
        return [a["name"], src, step, off]

    return call


def _maybe_decoys(rx, sc):
    if rx.random() < 0.25:
        sc.setdefault("opts", {})["decoys"] = True
        sc["faults"].append({"kind": "other_market_objects_constructed_between_the_runs"})


def _build_decoys(sim):
    """Between the first run and its repetition the process constructs - and drops - other market objects of the same
    kinds with OTHER tokens / pools (another notebook cell, another configuration tried and discarded). A repeated run on
    the same inputs is a function of its inputs, not of what else was built meanwhile."""
    from demeter import MarketInfo, TokenInfo
    from demeter.broker import MarketTypeEnum

    made = 0
    for name, m in sim.markets.items():
        kind = type(m).__name__
        try:
            if kind == "GmxMarket":
                from demeter.gmx import GmxMarket

                mw_ = next(x for x in sim.world["markets"] if x["name"] == name)  # the scenario's own token list
                toks = [sim.token(t) for t in sorted(mw_["tokens"])]
                GmxMarket(MarketInfo("decoy_" + name, MarketTypeEnum.gmx_v1), tokens=toks[:1] + [TokenInfo("DECOY", 18)])
                GmxMarket(MarketInfo("decoy2_" + name, MarketTypeEnum.gmx_v1), tokens=[])
                made += 1
            elif kind == "UniLpMarket":
                from demeter.uniswap import UniLpMarket, UniV3Pool

                a, b = TokenInfo("DECOYA", 7), TokenInfo("DECOYB", 11)
                UniLpMarket(MarketInfo("decoy_" + name, MarketTypeEnum.uniswap_v3), UniV3Pool(a, b, 1, a))
                made += 1
            elif kind == "GmxV2Market":
                from demeter.gmx import GmxV2Market
                from demeter.gmx._typing2 import GmxV2Pool

                a, b = TokenInfo("DECOYA", 7), TokenInfo("DECOYB", 11)
                GmxV2Market(MarketInfo("decoy_" + name, MarketTypeEnum.gmx_v2), GmxV2Pool(a, b, a))
                made += 1
            elif kind == "DeribitOptionMarket":
                from demeter.deribit import DeribitOptionMarket

                other = DeribitOptionMarket.BTC if m.token == DeribitOptionMarket.ETH else DeribitOptionMarket.ETH
                DeribitOptionMarket(MarketInfo("decoy_" + name, MarketTypeEnum.deribit_option), other)
                made += 1
        except ImportError:
            raise
    return made


def _maybe_add_column(rx, sc):
    """in ~12% of the scenarios the strategy adds a sparse indicator column to one single-index market in initialize"""
    if rx.random() >= 0.12:
        return
    cands = [mw["name"] for mw in sc["world"]["markets"] if mw.get("kind") in ("uni", "squeeth", "gmx", "gmx2")]
    if not cands:
        return
    sc["program"].insert(0, {"bar": -1, "phase": "initialize", "op": "strat.add_sparse_column", "m": rx.choice(cands),
                             "a": {"name": rx.choice(["my_signal", "sma_h"]), "step": rx.choice([2, 3, 5, 60]), "off": rx.randint(0, 4), "by": rx.choice(["market", "key"])}})
    sc["faults"].append({"kind": "strategy_adds_a_sparse_indicator_column"})


def _dtypes(fed):
    return {name: [str(t) for t in df.dtypes] for name, df in fed.items()}


def _prefix(events, k):
    out = []
    for e in events:
        if e[1] == "phase" and e[2] == "before_bar" and e[3] == k + 1:
            break
        if e[1] == "phase" and e[2] == "finalize":
            continue
        out.append(e)
    return out


CSV_COLUMNS = ("netAmount0", "netAmount1", "closeTick", "openTick", "lowestTick", "highestTick", "inAmount0", "inAmount1", "currentLiquidity")


def load_through_files(world, mw):
    """The market's raw minute rows written as demeter-fetch day files (a minute without a swap has no row) into a private
    directory and read back through the REAL loader (load_uni_v3_data: read_csv, reindex to whole days, fillna, statistic
    columns), with the loader's feather cache pointed at a private empty directory."""
    import os
    import shutil
    import tempfile

    import demeter.data.data_cache as DC
    from demeter import TokenInfo
    from demeter.uniswap import UniV3Pool
    from demeter.uniswap.helper import load_uni_v3_data

    start, n = pd.Timestamp(world["start"]), int(world["n"])
    tok = {k: TokenInfo(k, int(v)) for k, v in world["tokens"].items()}
    pool = UniV3Pool(tok[mw["token0"]], tok[mw["token1"]], mw["fee"], tok[mw["quote"]])
    root = tempfile.mkdtemp(prefix="dsim-loader-")
    saved = (DC.CACHE_PATH, DC.CACHE_CONFIG_PATH)
    try:
        DC.CACHE_PATH = os.path.join(root, "cache")
        DC.CACHE_CONFIG_PATH = os.path.join(DC.CACHE_PATH, "config.pkl")
        days = {}
        for i in range(n):
            if mw["closeTick"][i] is None:
                continue
            ts = start + pd.Timedelta(minutes=i)
            row = [str(ts)]
            for c in CSV_COLUMNS:
                v = mw.get(c)
                if c.endswith("Tick"):
                    row.append(repr(float(mw["closeTick"][i] if v is None else v[i])))
                else:
                    row.append("0" if v is None else str(v[i]))
            days.setdefault(ts.date(), []).append(",".join(row))
        d0, d1 = start.date(), (start + pd.Timedelta(minutes=n - 1)).date()
        d = d0
        while d <= d1:
            with open(os.path.join(root, f"ethereum-0xdsim-{d.strftime('%Y-%m-%d')}.minute.csv"), "w") as f:
                f.write("timestamp," + ",".join(CSV_COLUMNS) + "\n" + "\n".join(days.get(d, [])) + ("\n" if days.get(d) else ""))
            d += pd.Timedelta(days=1).to_pytimedelta()
        return load_uni_v3_data(pool, "ethereum", "0xdsim", d0, d1, data_path=root)
    finally:
        DC.CACHE_PATH, DC.CACHE_CONFIG_PATH = saved
        shutil.rmtree(root, ignore_errors=True)


def loader_twin_check(res, base, tw, sc2):
    """Two sets of minute FILES that agree before the divergence minute, read by the real loader: the frames (whose rows are
    what the snapshots of those bars hand to the strategy) must agree on every row before that minute."""
    t_div = pd.Timestamp(base["world"]["start"]) + pd.Timedelta(minutes=int(tw["j"]))
    twin_markets = {m["name"]: m for m in sc2["world"]["markets"]}
    for mw in base["world"]["markets"]:
        if mw["kind"] != "uni" or mw["name"] not in twin_markets:
            continue
        fa = load_through_files(base["world"], {k: v for k, v in mw.items() if k != "pre"})
        fb = load_through_files(sc2["world"], {k: v for k, v in twin_markets[mw["name"]].items() if k != "pre"})
        pa, pb = fa[fa.index < t_div], fb[fb.index < t_div]
        res.count("probe:loader_twin_frames_compared")
        if frame_hash(pa) != frame_hash(pb):
            bad = None
            if list(pa.columns) == list(pb.columns) and len(pa) == len(pb):
                ca, cb = canon(pa)["__frame__"][1], canon(pb)["__frame__"][1]
                bad = next((ra[0] for ra, rb in zip(ca, cb) if ra != rb), None)
            res.violate("c02.lookahead", f"loader:{mw['name']}:rows_before_divergence:" + tw["kind"], j=tw["j"], first_row=bad,
                        columns_a=[str(c) for c in pa.columns], columns_b=[str(c) for c in pb.columns])


def execute_reordered(scenario):
    """The supplied frames in an order of the caller's making (the day files joined newest first): whatever the run makes
    of such data, it must leave the frames as they were handed over, and a second run on them must repeat the first."""
    base = {kk: v for kk, v in scenario.items() if kk != "twins"}
    s0 = Sim(base, SnapshotLogger())  # built, not run: only to obtain frames in the loaders' format
    frames = {}
    for name, df in s0.fed.items():
        if name == "__prices__" or len(df) < 2:
            frames[name] = df
            continue
        h = max(1, len(df) // 2)
        frames[name] = pd.concat([df.iloc[h:], df.iloc[:h]])
    h0 = {name: frame_hash(df) for name, df in frames.items()}
    s1 = Sim(base, SnapshotLogger(), prebuilt=frames)
    s1.run()
    h1 = {name: frame_hash(df) for name, df in frames.items()}
    s2 = Sim(base, SnapshotLogger(), prebuilt=frames)
    s2.run()
    h2 = {name: frame_hash(df) for name, df in frames.items()}
    res = Combined([s1, s2])
    res.count("fault:frames_not_in_chronological_order")
    for name in h0:
        if h0[name] != h1[name] or h0[name] != h2[name]:
            res.violate("c02.input_mutated", name + ":reordered_rows", after_run=1 if h0[name] != h1[name] else 2)
    if s1.events != s2.events or canon(s1.actuator.account_status) != canon(s2.actuator.account_status):
        res.violate("c02.rerun_differs", "reordered_rows")
    res.state(("reordered", False, False, False, len(scenario["world"]["markets"]), scenario["world"]["prices"] is None, "uni"))
    return res


def execute(scenario):
    if scenario.get("donor"):
        DN.prepare(scenario["donor"])
    if scenario.get("opts", {}).get("reordered_rows") and not scenario.get("donor"):
        return execute_reordered(scenario)
    base = {kk: v for kk, v in scenario.items() if kk != "twins"}
    h0 = {}
    ucols = _user_columns(base)
    s1 = Sim(base, SnapshotLogger(), on_feed=lambda name, df: h0.__setitem__(name, frame_hash(df)))  # hashed before hand-over
    frames = dict(s1.fed)
    s1.run()
    h1 = {name: frame_hash(df, ucols) for name, df in frames.items()}
    if scenario.get("opts", {}).get("decoys"):
        _build_decoys(s1)  # other market objects come and go in the same process between the two runs
        res_decoys = True
    else:
        res_decoys = False
    s2 = Sim(base, SnapshotLogger(), prebuilt=frames)  # fresh account, the very same frame objects
    s2.run()
    h2 = {name: frame_hash(df, ucols) for name, df in frames.items()}
    res = Combined([s1, s2])
    if res_decoys:
        res.count("fault:other_market_objects_constructed_between_the_runs")
    for name in h0:
        if h0[name] != h1[name] or h0[name] != h2[name]:
            res.violate("c02.input_mutated", name, after_run=1 if h0[name] != h1[name] else 2)
    if s1.events != s2.events:
        i = next((i for i, (a, b) in enumerate(zip(s1.events, s2.events)) if a != b), min(len(s1.events), len(s2.events)))
        res.violate("c02.rerun_differs", _ev_site(s1.events, s2.events, i), first_diff=i, a=_get(s1.events, i), b=_get(s2.events, i))
    if canon(s1.actuator.account_status) != canon(s2.actuator.account_status):
        res.violate("c02.rerun_differs", "account_status")
    k_iv = DN.interval_minutes(scenario["world"])
    res.count("probe:resampled" if k_iv > 1 else "probe:minute")
    res.count("probe:world:" + (scenario.get("donor") or "uni"))
    for tw in scenario.get("twins", []):
        sc2 = make_twin(base, tw)
        if sc2 is None:
            continue
        if scenario.get("opts", {}).get("loader_twin") and not scenario.get("donor"):
            loader_twin_check(res, base, tw, sc2)
        s3 = Sim(sc2, SnapshotLogger())
        if _dtypes(s3.fed) != _dtypes(s1.fed):
            # the two files do not "agree on bars 0..k" as frames: pandas inferred another dtype for some column from
            # the later rows (int64 / uint64 / object / float64), so even the prefix cells are different objects
            res.count("probe:twin_skipped_column_dtype_differs")
            continue
        s3.run()
        res.op_results += s3.op_results
        res.events.append(["twin", tw["k"], tw["kind"], s3.events])
        k = tw["k"]
        if tw["kind"] == "truncate" and s3.crash is None and len(s3.actuator.account_status) < k + 1:
            # the shortened history does not contain bar k at all: an hourly market whose last prefix hours have no data
            # row gets those (empty) bars only because a LATER row exists (resampling fills the gap between the first and
            # the last row).  The two data sets then agree only on the bars the shorter one has.
            k = len(s3.actuator.account_status) - 1
            res.count("probe:truncated_twin_shorter_than_prefix")
            if k < 0:
                continue
        pa, pb = _prefix(s1.events, k), _prefix(s3.events, k)
        res.count("fault:future_divergence:" + tw["kind"])
        if tw.get("mid_bin"):
            res.count("probe:divergence_inside_a_resample_bin")
        if any(e[1] == "op" and e[5] == "ok" for e in pa):
            res.count("probe:accepted_op_in_prefix")
        res.state((tw["kind"], k == 0, k_iv > 1, bool(tw.get("mid_bin")), len(scenario["world"]["markets"]), scenario["world"]["prices"] is None, scenario.get("donor") or "uni"))
        if pa != pb:
            i = next((i for i, (a, b) in enumerate(zip(pa, pb)) if a != b), min(len(pa), len(pb)))
            res.violate("c02.lookahead", _ev_site(pa, pb, i) + ":" + tw["kind"], k=k, j=tw["j"], first_diff=i, a=_get(pa, i), b=_get(pb, i))
            continue
        ra, rb = s1.actuator.account_status[: k + 1], s3.actuator.account_status[: k + 1]
        if canon(ra) != canon(rb):
            res.violate("c02.lookahead", "account_status:" + tw["kind"], k=k, j=tw["j"])
        if len(ra) > k:
            tmax = ra[k].timestamp
            aa = [canon(vars(a)) for a in s1.actuator.actions if a.timestamp <= tmax]
            ab = [canon(vars(a)) for a in s3.actuator.actions if a.timestamp <= tmax]
            if aa != ab:
                res.violate("c02.lookahead", "actions:" + tw["kind"], k=k, j=tw["j"])
    return res


def _get(ev, i):
    return ev[i][:5] if i < len(ev) else None


def _ev_site(a, b, i):
    e = a[i] if i < len(a) else (b[i] if i < len(b) else ["", "end"])
    return str(e[1]) + (":" + str(e[2]) if len(e) > 2 and isinstance(e[2], str) else "")


def abstract(scenario, res):
    return res.states


def nontrivial(state):
    return True


NO_TRUNCATE = True  # twins carry absolute minute positions


def shrink_candidates(scenario):
    tw = scenario.get("twins", [])
    for i in range(len(tw)):
        if len(tw) > 1:
            sc = copy.deepcopy(scenario)
            del sc["twins"][i]
            yield sc


RULE = (
    "one run = scenario S executed twice on the same frame objects of history H and once per divergence point on "
    "H'_k (k in {0, last-1, 2 random}); future = frozen / truncated / independent random continuation, starting on or "
    "inside a resample bin. distinct_nontrivial counts distinct (future kind, k==0, resampled, mid-bin, markets, "
    "auto-price) twin classes compared"
)
BUDGET = {"quick": {"runs": 900, "wall": 90}, "thorough": {"runs": 60000, "wall": 1500}}
LEVEL = "exploration"
ASSUMPTIONS = [
    "the first raw row is never a hole: the real loader back-fills a leading hole from the future by design",
    "programs are scripted; symbolic arguments read current state only",
    "twin futures keep every value's literal kind (whole number in the int64 / uint64 / beyond range, decimal fraction, missing) where they can; a twin whose frames nevertheless get other column dtypes than the original's (pandas infers a column's dtype from the whole file: a property of the file format, not a look-ahead of the back test) is not compared",
    "the strategy can always read the whole supplied frame through strategy.data; look-ahead is judged on what the framework computes and hands over (snapshots, account rows, actions, operation results)",
]
LEVEL_TEXT = (
    "seeded exploration with twin histories: exact equality of the event-log prefix (operation results, deep digests "
    "of every snapshot at hand-over time, notifications), account rows and actions for bars 0..k; SHA-256 of every "
    "supplied frame before/after each run; byte-identical re-run on the same frame objects. Sampling, not proof."
)
LEVEL_NOTE = "trusted: canonical deep hashing of frames (object cells included), the three continuation kinds cover a dependence on later rows only if the later values differ"
