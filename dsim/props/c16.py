"""C16 - options settle once, at the first open bar at or after expiry, with intrinsic payoff net of the delivery fee;
nothing before expiry; the hourly market trades only on bars where it is open.

Real: Actuator bar loop -> DeribitOptionMarket.update -> check_option_exercise -> _deliver_option, _is_open, the
Market.is_open flag and the write_func gate; hourly-only worlds (1 min = no resampling, and the 1 h resample path) and
worlds with a minutely Uniswap co-market at 1 / 5 / 15 / 60-minute bars.
Oracle: the update step of every bar is bracketed (end of on_bar .. begin of after_bar); from the positions held just
before it and my own copy of the history the oracle derives which positions must / may / must not settle there and
what each pays (DESIGN A.5), and compares with the positions, cash and Expired/Deliver records after it.
"""
from decimal import Decimal
from fractions import Fraction

import pandas as pd

from ..sim import Sim, Oracle, HarnessError
from ..worlds import deribit as W
from ..ref import deribit as REF
from ..ref.deribit import F, exact
from .. import rng as R
from . import c15 as C15

ID = "C16"
PHASE_ORDER = C15.PHASE_ORDER


# --------------------------------------------------------------------------------------------------- generation
def generate(seed: int, tier: str = "quick") -> dict:
    rw = R.sub(seed, "world")
    rp = R.sub(seed, "program")
    rf = R.sub(seed, "faults")
    world, token, comarket, path = C15.base_world(rw, tier, comarket_prob=0.45, hours_choices=[2, 3, 3, 4, 5, 6] if tier == "quick" else [2, 3, 4, 6, 9, 14, 26])
    n = world["n"]
    H = (n - 1) // 60 + 1
    # underlying exactly on a whole number at some hours, so that at-the-money-to-the-cent settlements occur
    for h in range(H):
        if rw.random() < 0.35:
            path[60 * h] = float(round(path[60 * h]))
    world["prices"][token] = [format(x, ".2f") for x in path]
    scale = 1 if token == "ETH" else 15
    offs = [("abs", 0), ("abs", 0), ("abs", 1), ("abs", -1), ("abs", 2 * scale), ("abs", -2 * scale), ("abs", 30 * scale),
            ("abs", -30 * scale), ("abs", 200 * scale), ("abs", -200 * scale),
            # strikes far from the underlying: a put struck at more than twice the underlying pays more than one coin per contract
            1.3, 2.6, -0.6]
    mw = W.gen_deribit_market(
        rw, "drb0", n, {token: path}, token=token, start=world["start"],
        expiries=["on_hour", "on_hour", "between", "between", "before_first", "after_last"],
        strike_offsets=offs, tiny_marks=0.35, n_instruments=rw.choice([1, 2, 3, 4, 6]), max_levels=rw.choice([2, 4, 8]),
        size_kinds=["int", "float_int"] if token == "ETH" else ["int", "float_int", "frac"], closed_state_prob=0.0,
        basis=R.sub(seed, "basis").random() < 0.4,  # every expiry quoted against its own underlying (index / futures basis)
    )
    world["markets"].append(mw)
    if comarket:
        C15.add_comarket(rw, world, token, path)
        if R.sub(seed, "filtered").random() < 0.3:
            mw["filtered_from_half_hours"] = True
    faults = []
    meta = mw["meta"]["instruments"]
    hours = mw["hours"]
    hour_index = {h["t"]: i for i, h in enumerate(hours)}
    # listing realism + hostile history around expiry
    for nm in sorted(mw["instruments"]):
        k = meta[nm]["settle_hour"]
        if meta[nm]["placement"] == "between":
            faults.append({"kind": "expiry_on_closed_bar", "instrument": nm})
        if k is None:
            continue
        # after the settlement hour an expired instrument is normally no longer listed
        if rf.random() < 0.8:
            for h in hours[k + 1:]:
                h["rows"].pop(nm, None)
        r = rf.random()
        if r < 0.3:
            if hours[k]["rows"].pop(nm, None) is not None:
                faults.append({"kind": "missing_instrument", "instrument": nm, "hour": k})
        elif r < 0.5 and nm in hours[k]["rows"]:
            # the snapshot of the settlement hour shows the book already closed (state != open): not tradable, still the row
            # the contract is settled against
            hours[k]["rows"][nm]["state"] = "closed"
            faults.append({"kind": "book_closed_at_settlement", "instrument": nm, "hour": k})
    if R.sub(seed, "settlement_column").random() < 0.5:
        # the file's settlement_price column filled in (the option's last daily settlement, an OPTION price in coin): it is
        # not the delivery price - contracts are settled against the underlying price of the expiry snapshot
        rs_ = R.sub(seed, "settlement_values")
        for h in hours:
            for nm, r_ in h["rows"].items():
                r_["settlement"] = format(max(float(r_["mark"]) * rs_.uniform(0.8, 1.25), 0.0001), ".4f")
        faults.append({"kind": "settlement_price_column_filled"})
    if not mw.get("filtered_from_half_hours") and R.sub(seed, "via_files").random() < 0.25:
        mw["via_files"] = True  # the snapshots reach the market through per-day files and the real loader
        faults.append({"kind": "data_read_from_day_files"})
    settle_hours = sorted({meta[nm]["settle_hour"] for nm in meta if meta[nm]["settle_hour"]})
    if settle_hours and rf.random() < 0.25:
        k = rf.choice(settle_hours)
        if k > 0:
            t = str(pd.Timestamp(world["start"]) + k * W.HOUR)
            mw["hours"] = [h for h in hours if h["t"] != t]
            faults.append({"kind": "missing_hour", "hour": k})
    # keep every hour non-empty (an hour without any row is a missing hour)
    mw["hours"] = [h for h in mw["hours"] if h["rows"] or h["t"] == world["start"]]
    if not mw["hours"][0]["rows"]:
        # the first hour must exist in the data: keep one far-dated row so that the floor hour is present
        nm = sorted(mw["instruments"])[0]
        mw["hours"][0]["rows"][nm] = {"state": "open", "mark": "0.01", "underlying": format(path[0], ".2f"), "delta": "0.5", "gamma": "0.001", "asks": [["0.02", "5"]], "bids": []}
    bars = C15.open_bars(world)
    opens = [i for i, _t, o in bars if o]
    closed = [i for i, _t, o in bars if not o]
    hour_bar = {str(t): i for i, t, _o in bars}
    names = sorted(mw["instruments"])
    program = [{"bar": -1, "phase": "initialize", "op": "deribit.deposit", "m": "drb0", "a": {"amount": {"f": f"wallet:{token}", "x": "0.5"}}}]
    lots = ["1", "2", "3", "10", "25"] if token == "ETH" else ["0.1", "0.5", "1", "2.5", "0.3"]
    present_at = {nm: [i for i, h in enumerate(mw["hours"]) if nm in h["rows"]] for nm in names}
    for idx, nm in enumerate(names):
        if rp.random() < 0.1 or not present_at[nm]:
            continue
        for _ in range(rp.choice([1, 1, 2])):
            hi = rp.choice(present_at[nm][: max(1, len(present_at[nm]))])
            bar = hour_bar.get(mw["hours"][hi]["t"])
            if bar is None:
                continue
            phase = rp.choice(["before_bar", "trigger", "on_bar", "on_bar", "after_bar"])
            if bar == 0 and rp.random() < 0.15:
                bar, phase = -1, "initialize"
            program.append({"bar": bar, "phase": phase, "op": "deribit.buy", "m": "drb0",
                            "a": {"inst": {"i": idx}, "amount": {"abs": rp.choice(lots), "max_depth": "1"}}})
        if rp.random() < 0.3:
            hi = rp.choice(present_at[nm])
            bar = hour_bar.get(mw["hours"][hi]["t"])
            if bar is not None:
                program.append({"bar": bar, "phase": rp.choice(["on_bar", "after_bar"]), "op": "deribit.sell", "m": "drb0",
                                "a": {"inst": {"name": nm}, "amount": {"holding": rp.choice(["0.5", "1", "0.3"]), "else": "0", "max_depth": "1"}}})
    # trade attempts on closed bars, reads, cash movements anywhere
    for _ in range(rp.choice([0, 1, 2, 4])):
        if closed:
            b = rp.choice(closed)
            half = [i for i, t, o in bars if not o and pd.Timestamp(t).minute == 30]
            if mw.get("filtered_from_half_hours") and half and rp.random() < 0.6:
                b = rp.choice(half)  # exactly where the finer frame had a snapshot that the hourly one dropped
            o = rp.choice(["deribit.buy", "deribit.sell"])
            a = {"inst": {"i": rp.randint(0, len(names) - 1)}, "amount": {"abs": rp.choice(lots)}} if o == "deribit.buy" else {"inst": {"held": rp.randint(0, 3)}, "amount": {"holding": "1", "else": lots[0]}}
            program.append({"bar": b, "phase": rp.choice(["before_bar", "trigger", "on_bar", "after_bar"]), "op": o, "m": "drb0", "a": a})
            faults.append({"kind": "closed_market", "bar": b})
    for _ in range(rp.choice([0, 1, 2])):
        b = rp.randint(0, len(bars) - 1)
        program.append({"bar": b, "phase": rp.choice(["before_bar", "on_bar", "after_bar"]), "op": "deribit.read_balance", "m": "drb0", "a": {}})
    if rp.random() < 0.3:
        b = rp.randint(0, len(bars) - 1)
        program.append({"bar": b, "phase": "on_bar", "op": "deribit.withdraw", "m": "drb0", "a": {"amount": {"f": "cash:drb0", "x": "0.2"}}})
    program.sort(key=lambda o: (o["bar"], PHASE_ORDER.index(o["phase"])))
    sc = {"property": ID, "seed": seed, "world": world, "program": program, "faults": faults}
    if R.sub(seed, "earlier_run").random() < 0.08:
        sc["opts"] = {"earlier_run": True}
        faults.append({"kind": "market_objects_served_an_earlier_run_on_other_books"})
    return sc


after_truncate = W.after_truncate


# --------------------------------------------------------------------------------------------------- oracle
def _s(x):
    return C15._s(x)


class SettleOracle(Oracle):
    oid = "c16"

    def start(self, sim):
        w = sim.world
        drb = [mw for mw in w["markets"] if mw["kind"] == "deribit"][0]
        self.name = drb["name"]
        self.token = drb["token"]
        self.m = sim.markets[self.name]
        self.ins = drb["instruments"]
        self.meta = drb.get("meta", {}).get("instruments", {})
        self.hours = {h["t"]: h["rows"] for h in drb["hours"]}
        self.times = W.bar_times(w)
        self.step = REF.unit(REF.CONFIG[self.token]["fee_exp"])  # DESIGN C16 "Tol": one fee step
        self.only = all(m["kind"] == "deribit" for m in w["markets"])
        self.interval = w.get("interval", "1min")
        self.start_ts = pd.Timestamp(w["start"])
        self.prices = w["prices"][self.token]
        self.pre = None
        self.last = None  # (cash, {name: amount}) after the last observed point
        self.pre_op = None

    # ---- helpers
    def ts_of(self, sim, bar):
        if bar < 0:
            bar = 0
        if bar >= len(self.times):
            raise HarnessError(f"bar {bar} beyond my grid of {len(self.times)} bars")
        ts = self.times[bar]
        if sim.snapshot is not None and sim.bar >= 0 and pd.Timestamp(sim.snapshot.timestamp) != ts:
            raise HarnessError(f"bar {bar}: loop at {sim.snapshot.timestamp}, my grid says {ts}")
        return ts

    def snap(self):
        return (Fraction(self.m.balance), {nm: Fraction(p.amount) for nm, p in self.m.positions.items()})

    def my_price(self, ts):
        i = int((ts - self.start_ts) / pd.Timedelta("1min"))
        return F(self.prices[i])

    def is_trade_open(self, ts):
        return ts == ts.floor("1h") and str(ts) in self.hours

    def continuity(self, sim, where):
        cur = self.snap()
        if self.last is not None and cur != self.last:
            sim.violate(self.oid + ".spontaneous_change", where, before=_snap_s(self.last), after=_snap_s(cur))
        self.last = cur

    # ---- schedule
    def phase(self, sim, bar, phase, pos):
        if phase == "notify":
            return
        if phase == "on_bar" and pos == "end":
            self.continuity(sim, "between_ops:before_update")
            self.pre = (self.snap(), len(sim.actuator.actions))
        elif phase == "after_bar" and pos == "begin":
            if self.pre is not None:
                self.check_update(sim, bar)
                self.pre = None
            self.last = self.snap()
        elif pos in ("begin", "end"):
            self.continuity(sim, f"outside_update:{phase}:{pos}")

    def before_op(self, sim, op):
        if op.get("m") != self.name:
            return
        self.continuity(sim, "between_ops")
        sim.resolved = None
        self.pre_op = self.snap()
        self.pre_books = C15.real_books(self.m)

    def after_op(self, sim, op, outcome):
        if op.get("m") != self.name:
            return
        r = sim.resolved or {}
        if r.get("op") in ("buy", "sell"):
            self.check_gate(sim, r, outcome)
        self.last = self.snap()

    # ---- the trade gate
    def check_gate(self, sim, r, outcome):
        ts = self.ts_of(sim, sim.bar)
        open_now = self.is_trade_open(ts)
        status = outcome["status"]
        cause = C15.cause_of(outcome) if status == "rejected" else None
        if not open_now:
            sim.count("fault:closed_market")
            why = "off_the_hour" if ts != ts.floor("1h") else "hour_row_missing"
            if status == "ok":
                sim.violate(self.oid + ".gate", f"{r['op']}:closed_bar:{why}:accepted", ts=ts, result=outcome.get("result"))
            elif self.snap() != self.pre_op:
                sim.violate(self.oid + ".gate", f"{r['op']}:closed_bar:{why}:state_changed", ts=ts, before=_snap_s(self.pre_op), after=_snap_s(self.snap()))
            sim.state(("gate", self.token, r["op"], why, status, self.interval, self.only))
            return
        if status == "rejected" and cause == "closed_bar":
            sim.violate(self.oid + ".gate", f"{r['op']}:open_bar:rejected_as_closed", ts=ts, msg=outcome.get("msg"))
            return
        if status == "rejected" and r["mode"] == "market":
            # on an open bar a trade is subject only to C15's rules: judge accept/reject with the reference matcher on
            # the book displayed just before the order
            nm = r["name"]
            row = (self.hours.get(str(ts)) or {}).get(nm)
            book = self.pre_books.get(nm)
            if row is not None and book is not None and row.get("state", "open") == "open":
                is_buy = r["op"] == "buy"
                outs = REF.trade_outcomes(book["asks" if is_buy else "bids"], is_buy, Fraction(r["amount"]), self.token, "market")
                cash, pos = self.pre_op
                must = bool(outs) and all(o.accepted for o in outs)
                if must:
                    o = outs[0]
                    if is_buy:
                        must = o.premium + REF.trade_fee(o.q, o.premium, self.token) < cash - REF.SIZE_TOL * 16
                    else:
                        must = o.q <= pos.get(nm, Fraction(0))
                if must:
                    sim.violate(self.oid + ".gate", f"{r['op']}:open_bar:wrongly_rejected:{cause}", ts=ts, instrument=nm, request=_s(Fraction(r["amount"])), msg=outcome.get("msg"))
        sim.state(("gate", self.token, r["op"], "open", status, self.interval, self.only))

    # ---- settlement
    def check_update(self, sim, bar):
        ts = self.ts_of(sim, bar)
        (cash0, pos0), n_act = self.pre
        cash1, pos1 = self.snap()
        new = sim.actuator.actions[n_act:]
        expired = {}
        delivered = {}
        for a in new:
            tn = type(a).__name__
            if tn == "ExpiredAction":
                expired.setdefault(a.instrument_name, []).append(a)
            elif tn == "DeliverAction":
                delivered.setdefault(a.instrument_name, []).append(a)
        on_hour = ts == ts.floor("1h")
        rows = self.hours.get(str(ts)) if on_hour else None
        total_income = Fraction(0)
        for nm in sorted(pos0):
            q = pos0[nm]
            ins = self.ins.get(nm)
            if ins is None:
                raise HarnessError(f"position in unknown instrument {nm}")
            expiry = pd.Timestamp(ins["expiry"])
            due = on_hour and ts >= expiry
            must = due and rows is not None
            may = due and rows is None  # DESIGN C16: missing hour row - trade gate says closed, settlement says open
            gone = nm not in pos1
            n_exp, n_del = len(expired.get(nm, [])), len(delivered.get(nm, []))
            place = self.meta.get(nm, {}).get("placement", "?")
            if not due:
                why = "before_expiry" if ts < expiry else "on_closed_bar"
                if gone or n_exp or n_del:
                    sim.violate(self.oid + ".timing", f"update:settled_{why}", ts=ts, instrument=nm, expiry=expiry, removed=gone, expired_records=n_exp, deliver_records=n_del)
                elif pos1[nm] != q:
                    sim.violate(self.oid + ".timing", f"update:amount_changed_{why}", ts=ts, instrument=nm, before=_s(q), after=_s(pos1[nm]))
                continue
            if not gone and not n_exp and not n_del:
                if must:
                    sim.violate(self.oid + ".timing", "update:not_settled_at_first_open_bar_at_or_after_expiry", ts=ts, instrument=nm, expiry=expiry, held=_s(q))
                else:
                    sim.count("probe:missing_hour_settlement_deferred")
                continue
            if may:
                sim.count("probe:missing_hour_settled_on_that_bar")
            # settled here
            if not gone:
                sim.violate(self.oid + ".once", "update:position_not_removed", ts=ts, instrument=nm, held_after=_s(pos1[nm]))
            if n_exp != 1:
                sim.violate(self.oid + ".once", "update:expired_record_count", ts=ts, instrument=nm, count=n_exp)
            if n_del > 1:
                sim.violate(self.oid + ".once", "update:deliver_record_count", ts=ts, instrument=nm, count=n_del)
            income = sum((Fraction(a.income_amount) for a in delivered.get(nm, [])), Fraction(0))
            total_income += income
            self.check_payoff(sim, ts, nm, ins, q, rows, income, n_del, place)
            if ts > expiry:
                sim.count("probe:deferred_settlement")
        for nm in sorted(set(expired) | set(delivered)):
            if nm not in pos0:
                sim.violate(self.oid + ".once", "update:record_for_position_not_held", ts=ts, instrument=nm)
        for nm in sorted(pos1):
            if nm not in pos0:
                sim.violate(self.oid + ".timing", "update:position_appeared", ts=ts, instrument=nm)
        if abs((cash1 - cash0) - total_income) > 0:
            sim.violate(self.oid + ".cash", "update:cash_delta_vs_deliver_records", ts=ts, cash_delta=_s(cash1 - cash0), recorded_income=_s(total_income))

    def check_payoff(self, sim, ts, nm, ins, q, rows, income, n_del, place):
        token = self.token
        kind = ins["type"]
        K = Fraction(int(ins["strike"]))
        row = (rows or {}).get(nm)
        step = self.step
        if row is not None:
            S = exact(float(row["underlying"]))
            mark = REF.mark_rounded(exact(float(row["mark"])), token)
            fee_lo = fee_hi = REF.delivery_fee(q, q * mark, token)
            src = "book"
        else:
            # instrument (or the whole hour) missing from the book: underlying from the price frame; the option value is
            # unknown, so any delivery fee between 0 and the 0.015 % cap is accepted
            S = self.my_price(ts)
            fee_lo, fee_hi = Fraction(0), REF.delivery_fee(q, q * 10**6, token)
            src = "price_frame"
            sim.count("probe:settlement_from_price_frame")
            sim.count("fault:missing_hour" if rows is None else "fault:missing_instrument")
        intr = REF.intrinsic(q, kind, K, S)
        intr_r = REF.round_half_up(intr, REF.CONFIG[token]["fee_exp"])
        paid = n_del > 0
        # what is admissible
        may_pay = intr > 0 and intr_r + step > fee_lo
        must_pay = intr_r - step > fee_hi
        lo = max(Fraction(0), intr_r - fee_hi - step)
        hi = intr_r - fee_lo + step
        if intr == 0:
            cls = "atm" if S == K else "otm"
        elif fee_lo == fee_hi and intr_r <= fee_lo:
            cls = "itm_fee_eats"
        elif must_pay:
            cls = "itm_paid"
        else:
            cls = "itm_edge"
        sim.count(f"probe:{kind.lower()}_{cls}")
        sim.state(("settle", token, kind, cls, place, src if rows is not None else "missing_hour", self.interval, self.only))
        detail = dict(ts=ts, instrument=nm, contracts=_s(q), strike=_s(K), underlying=_s(S), intrinsic=_s(intr_r), fee_min=_s(fee_lo), fee_max=_s(fee_hi), income=_s(income), source=src)
        if paid and not may_pay:
            sim.violate(self.oid + ".payoff", f"deliver:{kind.lower()}:paid_although_{'out_of_the_money' if intr == 0 else 'payoff_does_not_cover_fee'}", **detail)
        elif not paid and must_pay:
            sim.violate(self.oid + ".payoff", f"deliver:{kind.lower()}:in_the_money_not_paid", **detail)
        elif paid and not (lo <= income <= hi):
            sim.violate(self.oid + ".payoff", f"deliver:{kind.lower()}:amount", want_min=_s(lo), want_max=_s(hi), **detail)

    def finish(self, sim):
        if sim.crash is not None:
            inside = [w for w in sim.crash_where[-3:] if w in SETTLEMENT_FRAMES]
            if inside:
                sim.violate(self.oid + ".crash", f"bar_loop:{type(sim.crash).__name__}@{inside[-1]}", msg=str(sim.crash)[:200], where=sim.crash_where)
            else:
                sim.count("probe:crash_outside_settlement")


SETTLEMENT_FRAMES = {"market.py:update", "market.py:check_option_exercise", "market.py:_deliver_option", "market.py:get_deliver_fee", "market.py:_is_open"}


def _snap_s(s):
    return {"cash": _s(s[0]), "positions": {k: _s(v) for k, v in sorted(s[1].items())}}


# --------------------------------------------------------------------------------------------------- execution
def _sim_after_an_earlier_run(scenario, ox):
    """The market objects first serve an idle back test over OTHER books for the same hours (underlying 10 % lower, marks
    halved), then get this scenario's frames through the public `data` setter and run the scenario on a fresh actuator:
    what is settled follows the books the market holds now."""
    import copy
    from decimal import Decimal as _D

    def scaled(x, f):
        y = _D(str(x)) * _D(f)
        return format(y, "f") if isinstance(x, str) else (float(y) if isinstance(x, float) else type(x)(y))

    sa = copy.deepcopy({k: v for k, v in scenario.items() if k not in ("program", "expect", "minimised")})
    sa["program"] = []
    for m in sa["world"]["markets"]:
        if m.get("kind") != "deribit":
            continue
        for h in m["hours"]:
            for row in h["rows"].values():
                row["underlying"] = scaled(row["underlying"], "0.9")
                row["mark"] = scaled(row["mark"], "0.5")
    earlier = Sim(sa, None).run()
    if earlier.crash is not None:
        return None
    own = Sim(scenario, None)  # never run: only the frames its builders made are used
    frames = {name: mk.data for name, mk in own.markets.items()}
    sim = Sim(scenario, ox, reuse=earlier, prebuilt=frames)
    sim.mdata = dict(own.mdata)
    sim.count("fault:market_objects_served_an_earlier_run_on_other_books")
    return sim


def execute(scenario) -> Sim:
    sim = None
    if scenario.get("opts", {}).get("earlier_run"):
        sim = _sim_after_an_earlier_run(scenario, SettleOracle())
    if sim is None:
        sim = Sim(scenario, SettleOracle())
    sim.run()
    w = scenario["world"]
    only = all(m["kind"] == "deribit" for m in w["markets"])
    iv = w.get("interval", "1min")
    k = int(pd.Timedelta(iv if iv[0].isdigit() else "1" + iv) / pd.Timedelta("1min"))
    sim.sim_minutes = len(sim.actuator.account_status) * (60 if only else k)
    return sim


def abstract(scenario, sim):
    return sim.states


def nontrivial(state) -> bool:
    if state[0] == "settle":
        return True
    return state[3] != "open" or state[4] != "ok"


RULE = (
    "one case = one held position going through one settlement step (or one trade attempt judged against the open/closed gate) "
    "inside a seeded run of the real bar loop; distinct_nontrivial counts distinct abstract cases: settlements by (currency, "
    "call/put, moneyness class otm/atm/itm_paid/itm_fee_eats/itm_edge, expiry placement on_hour/between/before_first, payoff "
    "source book/price_frame/missing_hour, bar interval, with or without minutely co-market) plus gate cases that are closed-bar "
    "attempts or rejections"
)
BUDGET = {"quick": {"runs": 2500, "wall": 55}, "thorough": {"runs": 150000, "wall": 1100}}
LEVEL = "exploration"
ASSUMPTIONS = [
    "settlement happens in the bar's update step (between on_bar and after_bar): a position acquired in after_bar of an hour bar is first examined at the next hour bar",
    "a bar is open for trading iff it is on the hour and that hour has a row in the book data; when the hour row at/after expiry is missing, settlement on that bar or at the next hour with data are both accepted (DESIGN C16: the property's word 'open' is ambiguous there)",
    "when the instrument (or the hour) is missing from the book at settlement the underlying is the price-frame value and, the option value being unknown, any delivery fee between 0 and 0.015 % x contracts is accepted; the account quote is USD so that the price frame holds the underlying in USD",
    "payoff and the pay / do-not-pay frontier are judged to one fee step (1e-6 ETH / 1e-8 BTC, the exchange's settlement rounding); underlying and mark are the binary float values of the data; strikes are integers as in the real files",
    "runs start on the hour with the floor hour present (DESIGN section 5); bar intervals 1 min .. 1 h; trades in these programs are plain market orders within cash and holding (order matching itself is C15's subject)",
]
LEVEL_TEXT = (
    "seeded exploration: generated hourly option histories (calls and puts, strikes at / within cents of / far from the underlying at "
    "settlement, tiny and zero marks, expiries on the hour, between hours, before the first bar, after the last) with hostile "
    "placements (instrument or whole hour missing at expiry, expiry on a closed bar, trade attempts on closed bars) x programs "
    "that acquire, add to and partly sell positions, run through the real bar loop alone (hourly bars, with and without the "
    "1 h resample path) or beside a minutely Uniswap market (1/5/15/60-minute bars); every update step is compared with the "
    "reference settlement rule. Sampling, not proof."
)
LEVEL_NOTE = (
    "trusted: the oracle's reading of the property and of DESIGN appendix A.5 (dsim/ref/deribit.py), the generator's reach "
    "(see reach_probes), Python Fraction; histories are synthetic CSV text read by the same pandas calls as the real loader"
)
