"""python -m dsim.replay <file> [--quiet]: re-execute a replay file against /repo's working tree.

exit 1 if the recorded violation class reproduces (prints its record), 0 if the run is clean, 2 on harness error."""
import json
import sys

from . import bootstrap


def main(argv):
    bootstrap.ensure_hashseed()
    path = argv[0]
    quiet = "--quiet" in argv
    with open(path) as f:
        sc = json.load(f)
    from .runner import load_prop

    prop = load_prop(sc["property"])
    try:
        bootstrap.reset_process_state(sc)
        sim = prop.execute(sc)
    except Exception as e:
        print(f"HARNESS-ERROR {type(e).__name__}: {e}")
        return 2
    if not quiet:
        for ev in sim.events:
            print(json.dumps(ev))
    want = sc.get("expect")
    got = [(v["oracle"], v["site"]) for v in sim.violations]
    print("DIGEST", sim.log_digest())
    for v in sim.violations:
        print("VIOLATION-RECORD", json.dumps(dict(v), sort_keys=True))
    if want is not None:
        hit = (want["oracle"], want["site"]) in got
        if hit and want.get("digest") and want["digest"] != sim.log_digest():
            print("NONDETERMINISTIC digest differs from recorded", want["digest"])
            return 3
        return 1 if hit else 0
    return 1 if got else 0


if __name__ == "__main__":
    sys.exit(main(sys.argv[1:]))
