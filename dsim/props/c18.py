"""C18 - time triggers fire on exactly the bars their specification denotes.

Real: every time trigger class of demeter.strategy.trigger (AtTime, AtTimes, TimeRange, TimeRanges, Period, Periods)
evaluated by the real Actuator.run bar loop, including the retirement filter (is_out_date) and the real resampling of
the bar grid.  The uniswap world is only the clock source (no market operation is issued).
Oracle: denotational reference dsim/ref/triggers.py - fired set == denoted set intersected with the bar grid, one call
per firing with exactly the supplied kwargs, no retirement while a denoted firing is still ahead.
"""
import copy
from datetime import datetime, timedelta

from ..sim import Sim, Oracle, op, HarnessError
from ..worlds import uni as U
from ..ref import triggers as T
from .. import rng as R

from demeter import (  # the code under test, imported from the /repo working tree by dsim.bootstrap
    AtTimeTrigger,
    AtTimesTrigger,
    TimeRangeTrigger,
    TimeRangesTrigger,
    TimeRange,
    PeriodTrigger,
    PeriodsTrigger,
)

ID = "C18"
ENV_TZ_RATE = 0.12  # this is the property about clock times: the host zone is varied more often than elsewhere
INTERVALS = {1: "1min", 2: "2min", 5: "5min", 15: "15min", 60: "1h"}
MINUTES_OF = {v: k for k, v in INTERVALS.items()}
MINUTES_OF["60min"] = 60
# raw minutes of history per run (bars x interval); the quick tier keeps worlds small enough for its wall budget
MAX_MINUTES = {"quick": 1800, "thorough": 18000}
PERIOD_PRESETS = [(2, 3), (3, 2), (2, 4), (4, 2), (3, 5), (1, 2), (2, 1), (2, 2), (2, 3, 4), (3, 4, 6), (6, 4, 3), (5, 7), (4, 6, 10), (1, 3), (3, 1)]
KWARG_POOL = [("tag", "abc"), ("n", 7), ("x", None), ("lst", [1, 2, 3]), ("d", {"a": 1}), ("flag", False), ("amount", "1.5"), ("empty", ""),
              # names a trigger class might one day want for itself: today they are the user's and reach the action untouched
              ("name", "rebalance"), ("label", "weekly"), ("priority", 2), ("enabled", False), ("once", True), ("key", "k1")]


# ------------------------------------------------------------------------------------------------ spec -> real object
def build_trigger(spec, do):
    """Construct the real Trigger object a spec describes (public constructors only)."""
    kw = dict(spec.get("kwargs") or {})
    kind = spec["kind"]
    if kind == "at_time":
        return AtTimeTrigger(datetime.fromisoformat(spec["time"]), do, **kw)
    if kind == "at_times":
        return AtTimesTrigger([datetime.fromisoformat(x) for x in spec["times"]], do, **kw)
    if kind == "range":
        tr = TimeRange(datetime.fromisoformat(spec["start"]), datetime.fromisoformat(spec["end"]))
        trig = TimeRangeTrigger(tr, do, **kw)
        if spec.get("reuse_objects"):  # the caller moves its window on and builds the next trigger from the same object
            tr.start, tr.end = tr.start + timedelta(hours=1, minutes=7), tr.end + timedelta(hours=2)
        return trig
    if kind == "ranges":
        trs = [TimeRange(datetime.fromisoformat(a), datetime.fromisoformat(b)) for a, b in spec["ranges"]]
        trig = TimeRangesTrigger(trs, do, **kw)
        if spec.get("reuse_objects"):
            for tr in trs:
                tr.start, tr.end = tr.start + timedelta(hours=1, minutes=7), tr.end + timedelta(hours=2)
            trs.append(TimeRange(datetime(2023, 1, 1), datetime(2033, 1, 1)))
        return trig
    if kind == "period":
        return PeriodTrigger(
            timedelta(minutes=int(spec["period"])), do,
            trigger_immediately=bool(spec.get("immediate", False)), pending=timedelta(minutes=int(spec.get("pending", 0))), **kw,
        )
    if kind == "periods":
        return PeriodsTrigger(
            [timedelta(minutes=int(p)) for p in spec["periods"]], do,
            trigger_immediately=bool(spec.get("immediate", False)), pending=timedelta(minutes=int(spec.get("pending", 0))), **kw,
        )
    raise HarnessError(f"unknown trigger kind {kind}")


@op("trig.install")
def _install(sim, market, a):
    """Install one real trigger on the running strategy. The `do` callback records every call in the event log."""
    tid = a["id"]
    if not hasattr(sim, "trig_objs"):
        sim.trig_objs, sim.trig_calls = {}, {}

    def do(snapshot, **kwargs):
        sim.event("fire", tid, snapshot.timestamp, kwargs)
        sim.trig_calls.setdefault(tid, []).append((sim.bar, snapshot.timestamp, kwargs))
        # "the supplied extra arguments": a list or dict handed over at construction (a journal the action appends to, a
        # state dict) reaches the action as that very object, not as a look-alike
        for name, val in kwargs.items():
            if isinstance(val, (list, dict)) and name in (a.get("kwargs") or {}) and val is not a["kwargs"][name]:
                if not hasattr(sim, "trig_foreign_kwargs"):
                    sim.trig_foreign_kwargs = {}
                sim.trig_foreign_kwargs.setdefault(tid, name)
        # what an action returns is its own business (Trigger.do hands it back, the loop has no use for it)
        r = a.get("returns")
        return {"count": len(sim.trig_calls[tid]), "time": snapshot.timestamp, "list": [1], "true": True, "dict": {"ok": 1}}.get(r)

    def call():
        trig = build_trigger(a, do)
        if a.get("how") == "reassign":  # the strategy replaces its trigger list instead of appending in place
            sim.strategy.triggers = sim.strategy.triggers + [trig]
        else:
            sim.strategy.triggers.append(trig)
        sim.trig_objs[tid] = trig
        return tid

    return call


@op("trig.reset")
def _reset(sim, market, a):
    """The strategy re-arms one of its period triggers with the public reset(): its next evaluation is a first evaluation."""
    obj = getattr(sim, "trig_objs", {}).get(a["id"])
    if obj is None or not hasattr(obj, "reset"):
        return None
    return lambda: (obj.reset(), a["id"])[1]


@op("trig.remove")
def _remove(sim, market, a):
    """The strategy takes one of its triggers off its list (in place, or by assigning a new list)."""
    obj = getattr(sim, "trig_objs", {}).get(a["id"])
    if obj is None:
        return None

    def call():
        if a.get("how") == "reassign":
            sim.strategy.triggers = [t for t in sim.strategy.triggers if t is not obj]
        else:
            sim.strategy.triggers.remove(obj)
        return a["id"]

    return call


# ------------------------------------------------------------------------------------------------ spec features
def features(spec, grid, k, first_bar=0):
    """Which of the hostile parameter shapes of DESIGN §4/C18 a spec has on this grid (sorted tuple of str)."""
    bars = grid[first_bar:]
    f = set()
    if not bars:
        return ("not_evaluated",)
    on = set(bars)
    lo, hi = bars[0], bars[-1]
    kind = spec["kind"]
    if kind in ("at_time", "at_times"):
        ts = [T.parse_time(spec["time"])] if kind == "at_time" else [T.parse_time(x) for x in spec["times"]]
        for t in ts:
            f.add("t_before_run" if t < lo else ("t_after_run" if t > hi else ("t_on_grid" if t in on else "t_off_grid")))
            if t == lo:
                f.add("t_first_bar")
            if t == hi:
                f.add("t_last_bar")
        if len(set(ts)) < len(ts):
            f.add("duplicate_times")
    elif kind in ("range", "ranges"):
        rs = T.ranges_of(spec)
        for a, e in rs:
            if a >= e:
                f.add("empty_range")
                continue
            if e > hi:
                f.add("range_open_past_end")
            if a < lo:
                f.add("range_from_before_run")
            if e <= lo or a > hi:
                f.add("range_outside_run")
            for b in (a, e):
                if lo < b < hi and b not in on:
                    f.add("range_bound_off_grid")
        live = [(a, e) for a, e in rs if a < e]
        for i in range(len(live)):
            for j in range(i + 1, len(live)):
                if live[i][0] < live[j][1] and live[j][0] < live[i][1]:
                    f.add("overlapping_ranges")
                if live[i][1] == live[j][0] or live[j][1] == live[i][0]:
                    f.add("adjacent_ranges")
    else:
        ps = [spec["period"]] if kind == "period" else list(spec["periods"])
        if spec.get("immediate"):
            f.add("immediate")
        if int(spec.get("pending", 0)) > 0:
            f.add("pending")
        if spec.get("immediate") and int(spec.get("pending", 0)) > 0:
            f.add("immediate_plus_pending")
        if len(set(ps)) < len(ps):
            f.add("duplicate_periods")
        if kind == "periods" and len(ps) > 1:
            f.add("several_periods")
        co = T.coincidences(spec, grid, first_bar)
        if co:
            f.add("coinciding_periods")
            if any(t > co[0] for t in T.denoted_bars(spec, grid, first_bar)):
                f.add("due_after_coincidence")
        if all(lo + timedelta(minutes=int(p) + int(spec.get("pending", 0))) > hi for p in ps):
            f.add("period_longer_than_run")
    if spec.get("kwargs"):
        f.add("kwargs")
    if first_bar > 0:
        f.add("late_install")
    return tuple(sorted(f))


def _bucket(n):
    return "0" if n == 0 else ("1" if n == 1 else ("2-5" if n <= 5 else "6+"))


# ------------------------------------------------------------------------------------------------ generation
SUBMINUTE = ("90s", "150s")


def _subminute_grid(start, n, interval):
    """bars of a run resampled to an interval that is not a whole number of minutes (bins counted from midnight)"""
    from .c05 import grid_labels
    import pandas as pd

    return [t.to_pydatetime() for t in grid_labels(pd.Timestamp(start), int(n), interval)]


def _gen_subminute(seed, tier):
    """A grid whose bars are not all on whole minutes (90 s / 150 s bars): time and range triggers only. A specification
    time denotes its minute (the constructors drop the seconds), so a trigger for hh:mm fires on the bar stamped hh:mm:00
    if there is one - never on a bar stamped hh:mm:30."""
    rw, rp = R.sub(seed, "world"), R.sub(seed, "program")
    interval = rw.choice(SUBMINUTE)
    n = rw.choice([9, 12, 15, 21, 30, 45])
    start = datetime(2023, 8, 13) + timedelta(hours=rw.randint(0, 23), minutes=rw.choice([0, 0, 3, 7, 30]))
    mw = U.gen_uni_market(rw, "uni0", n, ("USDC", 6), ("WETH", 18), "USDC", fee=0.05, base_price=1800.0)
    world = {"start": str(start), "n": n, "interval": interval, "tokens": {"USDC": 6, "WETH": 18}, "assets": {"USDC": "1000", "WETH": "1"},
             "prices": None, "markets": [mw]}
    grid = _subminute_grid(start, n, interval)
    nb = len(grid)

    def pick():
        t = grid[rp.randrange(nb)]
        style = rp.choice(["bar", "bar", "minute_of_bar", "minute_of_bar", "next_minute", "before", "after"])
        if style == "minute_of_bar":
            return t.replace(second=0)  # the whole minute an off-minute bar lies in: not a bar itself
        if style == "next_minute":
            return t.replace(second=0) + timedelta(minutes=1)
        if style == "before":
            return grid[0] - timedelta(minutes=rp.choice([1, 3]))
        if style == "after":
            return grid[-1] + timedelta(minutes=rp.choice([1, 3]))
        return t

    program = []
    for j in range(rp.choice([1, 2, 2, 3, 4])):
        kind = rp.choice(["at_time", "at_time", "at_times", "range", "ranges"])
        spec = {"id": f"t{j}", "kind": kind, "kwargs": {}}
        if kind == "at_time":
            spec["time"] = T.iso(pick())
        elif kind == "at_times":
            spec["times"] = [T.iso(pick()) for _ in range(rp.randint(1, 5))]
        elif kind == "range":
            a = pick()
            spec["start"], spec["end"] = T.iso(a), T.iso(a + timedelta(seconds=rp.choice([90, 180, 300, 450, 600])))
        else:
            spec["ranges"] = []
            for _ in range(rp.randint(1, 3)):
                a = pick()
                spec["ranges"].append([T.iso(a), T.iso(a + timedelta(seconds=rp.choice([90, 180, 300, 450])))])
        program.append({"bar": -1, "phase": "initialize", "op": "trig.install", "m": None, "a": spec})
    return {"property": ID, "seed": seed, "world": world, "program": program,
            "faults": [{"kind": "bars_off_the_whole_minute:" + interval}]}


def generate(seed: int, tier: str = "quick") -> dict:
    if R.sub(seed, "subminute").random() < 0.05:
        return _gen_subminute(seed, tier)
    rw = R.sub(seed, "world")
    rp = R.sub(seed, "program")
    k = rw.choice([1, 1, 1, 1, 2, 2, 5, 5, 15, 15, 60])
    nbars = rw.choice([5, 6, 8, 10, 12, 16, 20, 24, 30, 30, 45, 60, 100, 200, 300])
    nbars = max(5, min(nbars, MAX_MINUTES.get(tier, MAX_MINUTES["quick"]) // k))
    n = nbars * k - (rw.randint(0, k - 1) if rw.random() < 0.3 else 0)
    minute = rw.choice([0, 0, rw.randint(0, 59), rw.randint(0, 59)])  # start minute offset: on or off the coarser grid
    start = datetime(2023, 8, 13) + timedelta(hours=rw.randint(0, 23), minutes=minute)
    mw = U.gen_uni_market(rw, "uni0", n, ("USDC", 6), ("WETH", 18), "USDC", fee=0.05, base_price=1800.0)
    world = {
        "start": str(start),
        "n": n,
        "interval": INTERVALS[k],
        "tokens": {"USDC": 6, "WETH": 18},
        "assets": {"USDC": "1000", "WETH": "1"},
        "prices": None,
        "markets": [mw],
    }
    grid = T.bar_grid(start, n, k)
    nb = len(grid)
    step = timedelta(minutes=k)

    def off(t):
        return t + timedelta(minutes=rp.randint(1, k - 1)) if k > 1 else t

    def pick(style=None):
        style = style or rp.choice(["on", "on", "on", "on", "first", "last", "off", "off", "before", "after", "past_end"])
        if style == "on":
            return grid[rp.randrange(nb)]
        if style == "first":
            return grid[0]
        if style == "last":
            return grid[-1]
        if style == "off":
            return off(grid[rp.randrange(nb)])
        if style == "before":
            return grid[0] - timedelta(minutes=rp.choice([1, k, 3 * k, 1440]))
        if style == "after":
            return grid[-1] + timedelta(minutes=rp.choice([1, 2 * k, 7 * k, 1440]))
        return grid[-1] + step  # one bar past the end

    def gen_range():
        style = rp.choice(["normal"] * 4 + ["empty", "inverted", "open_end", "from_before", "whole", "one_bar", "off_bounds", "to_last"])
        if style == "normal":
            a = pick(rp.choice(["on", "on", "off", "first"]))
            b = a + step * rp.randint(1, max(1, nb // 2))
            if rp.random() < 0.3:
                b = off(b)
        elif style == "empty":
            a = pick("on")
            b = a
        elif style == "inverted":
            a = pick("on")
            b = a - step * rp.randint(1, 3)
        elif style == "open_end":
            a, b = pick("on"), pick(rp.choice(["after", "past_end"]))
        elif style == "from_before":
            a, b = pick("before"), pick(rp.choice(["on", "off"]))
        elif style == "whole":
            a, b = pick("before"), pick("after")
        elif style == "one_bar":
            a = pick("on")
            b = a + step
        elif style == "to_last":
            a, b = pick("on"), grid[-1]
        else:
            a, b = sorted([pick("off"), pick("off")])
        return [a, b]

    def gen_mult():
        day = 1440 // k if 1440 % k == 0 else 1  # whole days (a timedelta with days set and seconds == 0)
        return rp.choice([1, 1, 2, 2, 3, 4, 5, 6, 10, max(1, nb // 2), max(1, nb - 1), nb, nb + 3, day, day * rp.choice([1, 2, 7])])

    def gen_pending(mult):
        return k * rp.choice([0, 0, 0, 0, 1, 2, 3, mult, nb])

    def gen_kwargs():
        if rp.random() < 0.45:
            return {}
        return {name: copy.deepcopy(val) for name, val in rp.sample(KWARG_POOL, rp.randint(1, 3))}

    enabled = [kd for kd in T.KINDS if rp.random() < 0.6] or [rp.choice(T.KINDS)]
    program = []
    for j in range(rp.choice([1, 1, 2, 2, 3, 4, 5])):
        kind = rp.choice(enabled)
        spec = {"id": f"t{j}", "kind": kind}
        if kind == "at_time":
            spec["time"] = T.iso(pick())
        elif kind == "at_times":
            ts = [pick() for _ in range(rp.randint(1, 6))]
            if rp.random() < 0.3:
                ts.append(rp.choice(ts))  # duplicate
            rp.shuffle(ts)
            if rp.random() < 0.04:
                ts = []  # a list that happens to be empty (e.g. filtered down to nothing): denotes no bar
            spec["times"] = [T.iso(t) for t in ts]
        elif kind == "range":
            a, b = gen_range()
            spec["start"], spec["end"] = T.iso(a), T.iso(b)
        elif kind == "ranges":
            rs = [gen_range()]
            for _ in range(rp.randint(0, 3)):
                how = rp.choice(["free", "free", "overlap", "adjacent", "dup"])
                pa, pb = rs[-1]
                if how == "overlap" and pa < pb:
                    a = pa + (pb - pa) // 2
                    a = a - timedelta(seconds=a.second, microseconds=a.microsecond)
                    rs.append([a, pb + step * rp.randint(0, 4)])
                elif how == "adjacent" and pa < pb:
                    rs.append([pb, pb + step * rp.randint(1, 4)])
                elif how == "dup":
                    rs.append(list(rs[-1]))
                else:
                    rs.append(gen_range())
            rp.shuffle(rs)
            if rp.random() < 0.04:
                rs = []
            spec["ranges"] = [[T.iso(a), T.iso(b)] for a, b in rs]
        elif kind == "period":
            m = gen_mult()
            spec.update(period=k * m, pending=gen_pending(m), immediate=rp.random() < 0.4)
            if k > 1 and rp.random() < 0.06:
                spec["period"] = k * m + rp.randint(1, k - 1)  # not a whole number of bars: judged three-valued
        else:
            if rp.random() < 0.7:
                ms = list(rp.choice(PERIOD_PRESETS))
                if rp.random() < 0.3:
                    f = rp.choice([2, 3, 5])
                    ms = [x * f for x in ms]
            else:
                ms = [gen_mult() for _ in range(rp.randint(1, 4))]
            spec.update(periods=[k * m for m in ms], pending=gen_pending(ms[0]), immediate=rp.random() < 0.4)
            if k > 1 and rp.random() < 0.25:
                # one period that is not a whole number of bars, among periods that are: whatever it does itself (judged
                # three-valued), the others must go on firing - "several periods independently of one another"
                spec["periods"].insert(rp.randint(0, len(spec["periods"])), k * rp.choice([1, 1, 2, 3, 7]) + rp.randint(1, k - 1))
            elif k > 1 and rp.random() < 0.04:
                spec["pending"] = spec["pending"] + rp.randint(1, k - 1)  # a delay off the grid makes every period ambiguous
        if rp.random() < 0.15:  # times given with a seconds part (30 s and more included): they denote their minute
            def sec(x):
                return T.iso(datetime.fromisoformat(x) + timedelta(seconds=rp.choice([1, 29, 30, 31, 45, 59])))

            if "time" in spec:
                spec["time"] = sec(spec["time"])
            if "times" in spec:
                spec["times"] = [sec(x) if rp.random() < 0.6 else x for x in spec["times"]]
            if "start" in spec:
                spec["start"], spec["end"] = (sec(spec["start"]) if rp.random() < 0.6 else spec["start"]), (sec(spec["end"]) if rp.random() < 0.6 else spec["end"])
            if "ranges" in spec:
                spec["ranges"] = [[sec(a) if rp.random() < 0.5 else a, sec(b) if rp.random() < 0.5 else b] for a, b in spec["ranges"]]
        spec["kwargs"] = gen_kwargs()
        bar, phase = -1, "initialize"
        if rp.random() < (0.12 if kind not in ("period", "periods") else 0.08):
            # installed while the run is under way (in before_bar: first evaluated in that very bar, which is T0 of a period)
            bar, phase = rp.randint(0, nb - 1), "before_bar"
        elif rp.random() < 0.15:
            # attached before run() is called (in the strategy's constructor, or by the script that assembled the actuator)
            bar, phase = -2, "pre_run"
        if rp.random() < 0.3:
            spec["how"] = "reassign"
        if rp.random() < 0.3:
            spec["returns"] = rp.choice(["count", "time", "list", "true", "dict"])
        if kind in ("range", "ranges") and rp.random() < 0.25:
            spec["reuse_objects"] = True
        program.append({"bar": bar, "phase": phase, "op": "trig.install", "m": None, "a": spec})
        if kind in ("period", "periods") and spec.get("how") != "never" and rp.random() < 0.1 and not T.off_grid_periods(spec, k) \
                and int(spec.get("pending", 0)) % k == 0:
            # re-armed with reset() somewhere in the run (after it may have fired): from its next evaluation on it counts anew
            rb = rp.randint(max(bar, 0), nb - 1)
            program.append({"bar": rb, "phase": rp.choice(["before_bar", "on_bar", "after_bar"]) if rb > bar else "on_bar", "op": "trig.reset", "m": None, "a": {"id": spec["id"]}})
        elif rp.random() < 0.12:  # the strategy later takes it off its list again
            rb = rp.randint(max(bar, 0), nb - 1)
            ph = rp.choice(["before_bar", "on_bar", "after_bar"]) if rb > bar else "on_bar"
            program.append({"bar": rb, "phase": ph, "op": "trig.remove", "m": None, "a": {"id": spec["id"], "how": rp.choice(["remove", "reassign"])}})
    program.sort(key=lambda o: o["bar"])
    faults = sorted({ft for o in program if o["op"] == "trig.install" for ft in features(o["a"], grid, k, max(o["bar"], 0))})
    if grid[0] != start:
        faults.append("start_off_grid")
    sc = {"property": ID, "seed": seed, "world": world, "program": program, "faults": [{"kind": ft} for ft in faults]}
    if R.sub(seed, "second_run").random() < 0.15:
        sc["opts"] = {"second_run": True}
        sc["faults"].append({"kind": "second_run_in_same_process"})
    return sc


# ------------------------------------------------------------------------------------------------ oracle
class TriggerOracle(Oracle):
    def start(self, sim):
        w = sim.world
        self.start_time = datetime.fromisoformat(w["start"])
        if w["interval"] in SUBMINUTE:
            self.k = 1  # nominal (only period triggers use it, and none is generated on such a grid)
            self.grid = _subminute_grid(self.start_time, int(w["n"]), w["interval"])
            sim.count("fault:bars_off_the_whole_minute")
        else:
            self.k = MINUTES_OF[w["interval"]]
            self.grid = T.bar_grid(self.start_time, int(w["n"]), self.k)
        self.specs = {}  # id -> spec, only triggers whose installation was accepted
        self.first_bar = {}
        self.denoted = {}
        self.feats = {}
        self.retired_at = {}
        self.may = {}
        self.removed_at = {}
        self.bars_seen = 0
        sim.trig_objs, sim.trig_calls = {}, {}

    # -- installation
    def after_op(self, sim, o, outcome):
        if o["op"] == "trig.reset":
            tid = o["a"]["id"]
            if outcome["status"] == "ok" and tid in self.specs and tid not in self.removed_at and tid not in self.retired_at:
                # the bar's trigger evaluation lies between before_bar and on_bar: a reset in before_bar makes this very
                # bar the first evaluation (the new T0), a later one the next bar
                b = max(o["bar"], 0)
                nb_ = b if o["phase"] == "before_bar" else b + 1
                cut = self.grid[nb_] if nb_ < len(self.grid) else None
                keep = [t for t in self.denoted[tid] if cut is None or t < cut]
                fresh = T.denoted_bars(self.specs[tid], self.grid, nb_, self.k) if cut is not None else []
                self.denoted[tid] = sorted(set(keep) | set(fresh))
                sim.count("fault:period_trigger_re_armed_with_reset")
            return
        if o["op"] == "trig.remove":
            tid = o["a"]["id"]
            if outcome["status"] == "ok" and tid in self.specs and tid not in self.removed_at:
                # taken off by the strategy itself: evaluated for the last time in this bar if the bar's trigger
                # evaluation (between before_bar and on_bar) was already over, else in the previous bar
                b = self.grid[max(o["bar"], 0)]
                keep = (lambda t: t <= b) if o["phase"] in ("on_bar", "after_bar") else (lambda t: t < b)
                self.denoted[tid] = [t for t in self.denoted[tid] if keep(t)]
                self.may[tid] = {t for t in self.may.get(tid, ()) if keep(t)}
                self.removed_at[tid] = o["bar"]
                sim.count("fault:removed_by_strategy:" + str(o["a"].get("how", "remove")))
            return
        if o["op"] != "trig.install":
            return
        spec = o["a"]
        fb = max(o["bar"], 0)
        den = T.denoted_bars(spec, self.grid, fb, self.k)
        if outcome["status"] != "ok":
            if den:
                sim.violate("c18.install", f"{spec['kind']}:constructor_raised:{outcome.get('exc')}", spec=spec, msg=outcome.get("msg"))
            return
        tid = spec["id"]
        if tid in self.specs:
            raise HarnessError(f"duplicate trigger id {tid}")
        self.specs[tid] = spec
        self.first_bar[tid] = fb
        self.denoted[tid] = den
        self.may[tid] = T.may_bars(spec, self.grid, fb, self.k)
        if self.may[tid]:
            sim.count("fault:period_off_the_bar_grid")
        self.feats[tid] = features(spec, self.grid, self.k, fb)
        for ft in self.feats[tid]:
            sim.count("fault:" + ft)
        if spec.get("how") == "reassign":
            sim.count("fault:installed_by_list_reassignment" + (":mid_run" if o["bar"] >= 0 else ""))
        if o["phase"] == "pre_run":
            sim.count("fault:installed_before_run_is_called")

    # -- retirement, observed after the loop's filter of every bar
    def phase(self, sim, bar, phase, pos):
        if phase != "on_bar" or pos != "begin":
            return
        if bar >= len(self.grid) or sim.snapshot.timestamp != self.grid[bar]:
            raise HarnessError(f"bar grid model mismatch at bar {bar}: loop {sim.snapshot.timestamp}, model {self.grid[bar] if bar < len(self.grid) else None}")
        self.bars_seen = bar + 1
        live = sim.strategy.triggers
        for tid, spec in self.specs.items():
            if tid in self.retired_at or tid in self.removed_at:
                continue
            obj = sim.trig_objs[tid]
            if any(x is obj for x in live):
                continue
            self.retired_at[tid] = bar
            sim.count("probe:trigger_retired")
            ahead = [t for t in self.denoted[tid] if t > self.grid[bar]]
            if ahead:
                sim.violate(
                    "c18.retired_early", f"{spec['kind']}:retired_with_firing_ahead", spec=spec, retired_after_bar=self.grid[bar],
                    next_denoted=ahead[0], n_ahead=len(ahead), grid=self._grid_info(),
                )

    def _grid_info(self):
        return {"first_bar": self.grid[0], "last_bar": self.grid[-1], "interval_min": self.k, "bars": len(self.grid), "data_start": self.start_time}

    # -- verdict
    def finish(self, sim):
        t_crash = None
        if sim.crash is not None:
            t_crash = self._crash(sim)
        elif self.bars_seen != len(self.grid):
            raise HarnessError(f"loop walked {self.bars_seen} bars, grid model has {len(self.grid)}")
        for tid, spec in self.specs.items():
            kind = spec["kind"]
            den = self.denoted[tid]
            calls = sim.trig_calls.get(tid, [])
            want_kw = spec.get("kwargs") or {}
            fired = {}
            for bar, ts, kw in calls:
                fired[ts] = fired.get(ts, 0) + 1
            dset = set(den)
            missing = [t for t in den if t not in fired and (t_crash is None or t < t_crash)]
            extra = sorted(t for t in fired if t not in dset and t not in self.may.get(tid, ()))
            for cause, ts in self._by_cause(spec, tid, missing, True).items():
                sim.violate(
                    "c18.fired_set", f"{kind}:missing:{cause}", spec=spec, n_missing=len(ts), missing=ts[:8], n_denoted=len(den),
                    n_fired=len(fired), fired_head=sorted(fired)[:8], grid=self._grid_info(),
                )
            for cause, ts in self._by_cause(spec, tid, extra, False).items():
                sim.violate(
                    "c18.fired_set", f"{kind}:extra:{cause}", spec=spec, n_extra=len(ts), extra=ts[:8], n_denoted=len(den),
                    denoted_head=den[:8], grid=self._grid_info(),
                )
            multi = sorted(t for t, c in fired.items() if c > 1)
            if multi:
                sim.violate("c18.call_count", f"{kind}:called_more_than_once_on_a_bar", spec=spec, bars=multi[:8], calls=[fired[t] for t in multi[:8]])
            bad_kw = [(ts, kw) for bar, ts, kw in calls if kw != want_kw]
            if bad_kw:
                sim.violate("c18.kwargs", f"{kind}:kwargs_not_as_supplied", spec=spec, bar=bad_kw[0][0], got=bad_kw[0][1], want=want_kw)
            elif tid in getattr(sim, "trig_foreign_kwargs", {}):
                sim.violate("c18.kwargs", f"{kind}:not_the_supplied_object", spec=spec, argument=sim.trig_foreign_kwargs[tid])
            # coverage
            feats = self.feats[tid]
            sim.count("probe:firings", len(calls))
            if "due_after_coincidence" in feats:
                sim.count("probe:coinciding_periods_with_later_due_time")
            if "immediate_plus_pending" in feats:
                sim.count("probe:immediate_plus_delay")
            if "range_bound_off_grid" in feats and den and self.k > 1:
                sim.count("probe:range_spanning_resample_boundary")
            if "late_install" in feats:
                sim.count("probe:late_install")
            if den and self.grid[0] != self.start_time:
                sim.count("probe:firing_on_grid_with_off_grid_start")
            sim.state((kind, self.k, feats, _bucket(len(den)), tid in self.retired_at, self.grid[0] != self.start_time))

    def _by_cause(self, spec, tid, times, missing):
        out = {}
        for t in times:
            out.setdefault(self._cause(spec, tid, t, missing), []).append(t)
        return out

    def _cause(self, spec, tid, t, missing):
        """Name the part of the *specification* a wrong bar belongs to (never looks at the code under test)."""
        kind = spec["kind"]
        t0 = self.grid[self.first_bar[tid]]
        if not missing and tid in self.removed_at and t >= self.grid[max(self.removed_at[tid], 0)]:
            return "after_removal_by_strategy"
        if kind in ("at_time", "at_times"):
            return "listed_time" if missing else "time_not_listed"
        if kind in ("range", "ranges"):
            rs = [(a, e) for a, e in T.ranges_of(spec) if a < e]
            if missing:
                return "range_start" if any(t == a for a, e in rs) else "inside_range"
            if any(t == e for a, e in rs):
                return "at_range_end"
            if any(t == e for a, e in T.ranges_of(spec)):
                return "at_end_of_empty_range"
            return "outside_every_range"
        if t == t0:
            return "first_bar_immediate" if missing else "first_bar_not_immediate"
        if missing:
            co = T.coincidences(spec, self.grid, self.first_bar[tid])
            if co and t > co[0]:
                return "due_after_coinciding_periods"
            first_due = [x for x in self.denoted[tid] if x != t0]
            return "first_due_time" if first_due and t == first_due[0] else "later_due_time"
        return "not_a_due_time"

    def _crash(self, sim):
        """The run died inside the loop. Attribute it to the trigger whose method raised; it is a violation of this
        property iff a denoted firing was lost."""
        culprit, method = None, None
        tb = sim.crash.__traceback__
        by_obj = {id(v): k for k, v in sim.trig_objs.items()}
        while tb is not None:
            me = tb.tb_frame.f_locals.get("self")
            if me is not None and id(me) in by_obj and tb.tb_frame.f_code.co_name in ("when", "do", "is_out_date"):
                culprit, method = by_obj[id(me)], tb.tb_frame.f_code.co_name
            tb = tb.tb_next
        if culprit is None or sim.bar < 0:
            raise HarnessError(f"run crashed outside trigger evaluation: {type(sim.crash).__name__}: {sim.crash} @ {sim.crash_where}")
        t_crash = self.grid[sim.bar]
        lost = {}
        for tid, den in self.denoted.items():
            got = {ts for _, ts, _ in sim.trig_calls.get(tid, [])}
            ls = [t for t in den if t >= t_crash and t not in got]
            if ls:
                lost[tid] = ls
        spec = self.specs[culprit]
        sim.count("probe:crash_in_trigger")
        if lost:
            sim.violate(
                "c18.crash", f"{spec['kind']}:{method}_raised:{type(sim.crash).__name__}", spec=spec, msg=str(sim.crash)[:200],
                crash_bar=t_crash, firings_lost={k: len(v) for k, v in sorted(lost.items())},
                first_lost={k: v[0] for k, v in sorted(lost.items())}, grid=self._grid_info(),
            )
        return t_crash


# ------------------------------------------------------------------------------------------------ plugin interface
def execute(scenario) -> Sim:
    sim = Sim(scenario, TriggerOracle()).run()
    if scenario.get("opts", {}).get("second_run") and sim.crash is None:
        # the same back test once more in the same process (a parameter scan, a notebook cell run twice): the first run's
        # triggers belong to the first run - whatever the second run does must not make them fire again
        before = {tid: len(c) for tid, c in sim.trig_calls.items()}
        orc = sim.oracle
        sim2 = Sim(scenario, TriggerOracle()).run()
        sim.count("fault:second_run_in_same_process")
        sim.event("second_run", sim2.log_digest())
        for tid, spec in orc.specs.items():
            grown = len(sim.trig_calls.get(tid, [])) - before.get(tid, 0)
            if grown:
                late = sim.trig_calls[tid][before.get(tid, 0):]
                sim.violate("c18.fired_set", f"{spec['kind']}:extra:fired_during_a_later_run_in_the_same_process", spec=spec,
                            n_extra=grown, extra=[ts for _b, ts, _k in late[:8]])
        for v in sim2.violations:
            sim.violate(v["oracle"], v["site"], **dict(v["detail"], second_run=True))
        sim.states |= sim2.states
    return sim


def abstract(scenario, sim):
    return sim.states


def nontrivial(state) -> bool:
    kind, k, feats, nden, retired, offgrid = state
    return nden != "0" or retired


def shrink_candidates(scenario):
    """Smaller trigger specifications (the generic shrinker already drops whole triggers and shortens the history)."""
    prog = scenario.get("program", [])
    for i, o in enumerate(prog):
        a = o["a"]

        def with_spec(new, bar=None):
            sc = copy.deepcopy(scenario)
            sc["program"][i]["a"] = new
            if bar is not None:
                sc["program"][i]["bar"], sc["program"][i]["phase"] = bar, "initialize"
            return sc

        if o["bar"] >= 0:
            yield with_spec(copy.deepcopy(a), bar=-1)
        if a.get("kwargs"):
            yield with_spec({**copy.deepcopy(a), "kwargs": {}})
        for key in ("times", "ranges", "periods"):
            if key in a and len(a[key]) > 1:
                for j in range(len(a[key])):
                    new = copy.deepcopy(a)
                    del new[key][j]
                    yield with_spec(new)
        if a.get("pending"):
            yield with_spec({**copy.deepcopy(a), "pending": 0})
        if a.get("immediate"):
            yield with_spec({**copy.deepcopy(a), "immediate": False})


RULE = (
    "one case = one installed trigger judged over one seeded run of the real bar loop; distinct_nontrivial counts distinct "
    "abstract cases (trigger kind, bar interval, set of hostile parameter shapes present [time on/off grid, before/after "
    "the run, duplicates, empty/overlapping/adjacent/open-ended ranges, bounds off the grid, immediate, pending, several/"
    "duplicate/coinciding periods, period longer than the run, extra kwargs, installed mid-run], number of denoted firings "
    "bucketed 0/1/2-5/6+, whether the loop retired the trigger, whether the data starts off the bar grid) in which at "
    "least one firing is denoted or the trigger was retired"
)
BUDGET = {"quick": {"runs": 4000, "wall": 50}, "thorough": {"runs": 150000, "wall": 1100}}
LEVEL = "exploration"
ASSUMPTIONS = [
    "a period or pending delay that is not a whole multiple of the bar interval is judged three-valued: what it denotes on "
    "that grid is ambiguous (fire never, or on the next bar, or when a due time happens to land on the grid), so it is never "
    "required to fire and may fire on any bar from its first due time on; periods of the same trigger that are whole "
    "multiples keep their exact denotation (they fire independently of the ambiguous one)",
    "a time that is not a bar timestamp denotes no bar (fired set = denoted instants intersected with the bar grid); ranges "
    "select the bars whose timestamp lies in [start, end)",
    "a time given with a seconds part denotes its minute (the constructors document that they set the seconds to 0; the bar clock has minute resolution); lists of periods are non-empty, lists of times / ranges may be empty (they denote no bar); periods are >= one bar",
    "T0 of a period trigger is the timestamp of the bar in which it is first evaluated: the first bar of the run for one "
    "installed in initialize or attached before run() is called, the bar of its installation for one installed from before_bar "
    "mid-run; bars before a mid-run installation are not denoted; a list or dict among the extra arguments reaches the "
    "action as the very object that was supplied; triggers are "
    "installed by appending to strategy.triggers or by assigning a new list to it, and some are later taken off again by the "
    "strategy (in place or by assignment, from before_bar / on_bar / after_bar): the bar's trigger evaluation lies between "
    "before_bar and on_bar, so a trigger taken off in before_bar is last evaluated in the previous bar",
    "retirement is judged on the bars of the run only: a trigger may be dropped once none of its denoted bars inside the "
    "run is ahead; retiring later than necessary (or never) is allowed",
    "a run that dies inside a trigger's when/do/is_out_date is a violation only if some trigger thereby loses a denoted "
    "firing; it is attributed to the trigger kind whose method raised",
    "the oracle recomputes the resampled bar grid itself (bins aligned to midnight, labelled by their left edge); a "
    "mismatch with the loop's grid is a HARNESS-ERROR, not a C18 verdict",
    "the uniswap market is only the clock source; no market operation is issued",
]
LEVEL_TEXT = (
    "seeded exploration: thousands of bar grids (start minute on/off the grid, interval 1/2/5/15/60 min through the real "
    "resampling, 5-300 bars) x 1-5 real trigger objects of the six time-trigger classes with generated parameters (times "
    "on/off grid, before/after the run, duplicates; empty, inverted, overlapping, adjacent, open-ended ranges; periods with "
    "delays, immediate flag, several periods with coinciding due times; extra kwargs) evaluated and retired by the real "
    "Actuator.run loop; fired bars, call counts, kwargs and retirement are compared with a denotational reference. "
    "Sampling, not proof."
)
LEVEL_NOTE = (
    "trusted: the denotation of each trigger kind as written in dsim/ref/triggers.py (from the property text), the "
    "generator's reach (see reach_probes / faults_fired in the evidence) and the stated carve-outs"
)
