"""C15 - option orders fill best-first at displayed sizes; fee, cash, position, visible book and equity exact.

Real: DeribitOptionMarket.check_transaction / _deduct_order_amount / get_new_order_list / buy / sell / get_trade_fee /
get_market_balance and the book refresh in set_market_status, driven through the real Actuator bar loop (hourly bars,
or minutely / 5 / 15 / 60-minute bars next to a Uniswap co-market where the option market is open only on the hour).
Oracle: a plain price-time matcher on exact rationals (dsim/ref/deribit.py, DESIGN A.5) kept in step with the real
market operation by operation; after every operation the public state (returned fills and fee, balance, positions,
displayed asks/bids, OptionMarketBalance) must equal the model's.
"""
from decimal import Decimal
from fractions import Fraction

import pandas as pd

from ..sim import Sim, Oracle
from ..worlds import deribit as W
from ..worlds import uni as U
from ..ref import deribit as REF
from ..ref.deribit import F, exact
from .. import rng as R

ID = "C15"

SIZE_TOL = REF.SIZE_TOL  # DESIGN C15: 1e-12 absolute on book sizes (floats in the data)
# Decimal arithmetic in the market runs at >= 28 significant digits; averages are compared to 1e-20 relative.
AVG_REL_TOL = Fraction(1, 10**20)
EXACT_TOL = Fraction(1, 10**24)  # "exact on Decimals": only the context rounding of the 35-digit Decimal context

PHASE_ORDER = ["initialize", "before_bar", "trigger", "on_bar", "after_bar", "notify"]


# --------------------------------------------------------------------------------------------------- generation
def price_path(rng, n, token):
    p = rng.uniform(1200, 3500) if token == "ETH" else rng.uniform(20000, 60000)
    vol = rng.choice([0.0002, 0.001, 0.004])
    out = []
    for _ in range(n):
        out.append(round(p, 2))
        p *= 1 + rng.gauss(0, vol)
    return out


def base_world(rw, tier, comarket_prob=0.35, hours_choices=None):
    token = rw.choice(["ETH", "ETH", "BTC"])
    comarket = rw.random() < comarket_prob
    if comarket:
        H = rw.choice([1, 2, 2, 3] if tier == "quick" else [1, 2, 3, 4, 6])
        n = 60 * (H - 1) + rw.choice([1, 1, 7, 30, 59])
        interval = rw.choice(["1min", "1min", "1min", "5min", "15min", "1h"])
    else:
        H = rw.choice(hours_choices or ([1, 1, 2, 2, 3, 4, 6] if tier == "quick" else [1, 2, 3, 4, 6, 12, 30]))
        n = 60 * (H - 1) + 1
        interval = rw.choice(["1min", "1min", "1h"])
    start = pd.Timestamp("2023-08-13 00:00:00") + pd.Timedelta(hours=rw.randint(0, 47))
    path = price_path(rw, n, token)
    dec = 18 if token == "ETH" else 8
    world = {
        "start": str(start), "n": n, "interval": interval, "tokens": {token: dec}, "assets": {token: "1000"},
        "quote": "USD", "prices": {token: [format(x, ".2f") for x in path]}, "markets": [],
    }
    return world, token, comarket, path


def add_comarket(rw, world, token, path):
    dec = world["tokens"][token]
    n = world["n"]
    mw = U.gen_uni_market(rw, "uni0", n, ("USDC", 6), (token, dec), "USDC", base_price=path[0])
    world["tokens"]["USDC"] = 6
    world["assets"]["USDC"] = "100000"
    world["prices"]["USDC"] = ["1"] * n
    world["markets"].append(mw)


def open_bars(world):
    """(bar index, timestamp, trade gate open?) for every bar of the run"""
    times = W.bar_times(world)
    drb = [m for m in world["markets"] if m["kind"] == "deribit"][0]
    present = {h["t"] for h in drb["hours"]}
    return [(i, t, (t == t.floor("1h") and str(t) in present)) for i, t in enumerate(times)]


def _phase(rp):
    return rp.choice(["before_bar", "trigger", "on_bar", "on_bar", "after_bar"])


def gen_trade_args(rp, token, is_buy, n_ins):
    small = ["1", "2", "3", "7", "2.5", "1.4", "12"] if token == "ETH" else ["0.1", "0.3", "1", "0.25", "2.5", "0.14", "4"]
    dust = ["0.4", "0.6", "0.01"] if token == "ETH" else ["0.04", "0.06", "0.001"]
    mode = rp.choice(["market"] * 9 + ["token"] * 5 + ["usd"] * 2 + ["cap"] * 3 + ["token+cap"])
    limit = mode in ("token", "usd", "token+cap")
    a = {"mode": mode}
    j = rp.choice([0, 0, 0, 1, 1, 2, 3, 5])
    r = rp.random()
    if is_buy:
        a["inst"] = {"i": rp.randint(0, n_ins - 1)}
        if limit:
            a["amount"] = {"level": j, "x": rp.choice(["1", "1", "0.5", "0.3", "0.1", "0.7", "0.2", "1.5"])} if r < 0.7 else {"abs": rp.choice(small)}
        elif r < 0.5:
            a["amount"] = {"abs": rp.choice(small)}
        elif r < 0.62:
            a["amount"] = {"level": rp.choice([0, 0, 1, 2]), "x": "1"}
        elif r < 0.93:
            a["amount"] = {"depth": rp.choice(["0.02", "0.05", "0.1", "0.2", "0.3", "0.6", "1"])}
        else:
            a["amount"] = rp.choice([{"depth": "1.2"}, {"abs": rp.choice(dust)}])
    else:
        a["inst"] = {"held": rp.randint(0, 5)}
        if r < 0.75:
            a["amount"] = {"holding": rp.choice(["0.5", "1", "1", "0.3"]), "else": rp.choice(small)}
            if limit:
                a["amount"]["max_level"] = j
            else:
                a["amount"]["max_depth"] = "1"
        elif r < 0.85:
            a["amount"] = {"holding": rp.choice(["1.5", "2", "10"]), "else": rp.choice(small)}
        else:
            a["amount"] = {"abs": rp.choice(small + dust[:1])}
    if limit:
        a["px"] = {"level": j, "mul": rp.choice(["1"] * 8 + ["1.0004", "0.9996", "1.0004", "0.9996", "1.003", "0.997"])}
    if mode in ("cap", "token+cap"):
        a["k"] = rp.choice(["1", "1.01", "1.05", "1.1", "1.3", "2", "5", "5"])
    if rp.random() < 0.15:
        a["as_float"] = True
    return a


def generate(seed: int, tier: str = "quick") -> dict:
    rw = R.sub(seed, "world")
    rp = R.sub(seed, "program")
    rf = R.sub(seed, "faults")
    world, token, comarket, path = base_world(rw, tier)
    shape = rw.choice(["any", "any", "thin", "deep"])
    mw = W.gen_deribit_market(
        rw, "drb0", world["n"], {token: path}, token=token, start=world["start"], expiries=["after_last"],
        max_levels={"any": 8, "thin": 1, "deep": 8}[shape],
        n_instruments=rw.choice([1, 2, 2, 3, 4, 6]),
        basis=R.sub(seed, "basis").random() < 0.5,
        dense_books=R.sub(seed, "dense").random() < 0.3,
    )
    world["markets"].append(mw)
    faults = []
    if any(len({r["underlying"] for r in h["rows"].values()}) > 1 for h in mw["hours"]):
        faults.append({"kind": "underlying_differs_per_instrument"})
    faults.append({"kind": {"thin": "book_thin", "deep": "book_many_levels", "any": "book_any"}[shape]})
    if mw["meta"]["size_kind"] != "int":
        faults.append({"kind": "book_float_sizes"})
    if comarket:
        add_comarket(rw, world, token, path)
    if not mw.get("filtered_from_half_hours") and R.sub(seed, "via_files").random() < 0.15:
        mw["via_files"] = True  # the snapshots reach the market through per-day files and the real loader
        faults.append({"kind": "data_read_from_day_files"})
    # hostile history: an instrument dropped from one hour / an hour row missing (never the first hour)
    if len(mw["hours"]) > 1 and rf.random() < 0.2:
        h = rf.randint(1, len(mw["hours"]) - 1)
        if rf.random() < 0.6 and len(mw["hours"][h]["rows"]) > 1:
            nm = rf.choice(sorted(mw["hours"][h]["rows"]))
            del mw["hours"][h]["rows"][nm]
            faults.append({"kind": "missing_instrument", "hour": h})
        else:
            del mw["hours"][h]
            faults.append({"kind": "missing_hour", "hour": h})
    bars = open_bars(world)
    opens = [i for i, _t, o in bars if o]
    closed = [i for i, _t, o in bars if not o]
    n_ins = len(mw["instruments"])
    program = []
    poor = rp.random() < 0.12
    dep = {"abs": rp.choice(["0.02", "0.1", "0.5"])} if poor else {"f": f"wallet:{token}", "x": rp.choice(["0.3", "0.5", "0.9"])}
    program.append({"bar": -1, "phase": "initialize", "op": "deribit.deposit", "m": "drb0", "a": {"amount": dep}})
    n_ops = rp.randint(5, 30)
    main_bar = rp.choice(opens)
    warm = rp.choice([1, 2, 3, 4])
    for _ in range(n_ops):
        r = rp.random()
        if _ < warm:
            bar = min(opens)
        elif r < 0.6:
            bar = main_bar
        elif r < 0.9 or not closed:
            bar = rp.choice(opens)
        else:
            bar = rp.choice(closed)
            faults.append({"kind": "closed_market", "bar": bar})
        phase = _phase(rp) if _ >= warm else "before_bar"
        if bar == 0 and rp.random() < 0.1:
            bar, phase = -1, "initialize"
        k = rp.random() if _ >= warm else 0.0  # the first few orders are buys: later sells have something to sell
        if k < 0.45:
            o = {"op": "deribit.buy", "a": gen_trade_args(rp, token, True, n_ins)}
        elif k < 0.75:
            o = {"op": "deribit.sell", "a": gen_trade_args(rp, token, False, n_ins)}
        elif k < 0.79:
            o = {"op": "deribit.deposit", "a": {"amount": {"f": f"wallet:{token}", "x": rp.choice(["0.1", "0.5", "1.5"])}}}
        elif k < 0.83:
            o = {"op": "deribit.withdraw", "a": {"amount": {"f": "cash:drb0", "x": rp.choice(["0.1", "0.5", "0.97", "1", "1.5"])}}}
        elif k < 0.91:
            o = {"op": "deribit.read_balance", "a": {}}
        elif k < 0.95:
            a = {"inst": {"i": rp.randint(0, n_ins - 1)}, "amount": {"abs": rp.choice(["1", "2", "0.3"])}, "side": rp.choice(["buy", "sell"])}
            o = {"op": "deribit.estimate_cost", "a": a}
        else:
            recipe = rp.choice(["unknown_instrument", "sell_unheld", "oversell", "dust", "beyond_depth", "price_not_in_book"])
            faults.append({"kind": "reject:" + recipe})
            if recipe == "unknown_instrument":
                o = {"op": rp.choice(["deribit.buy", "deribit.sell"]), "a": {"inst": {"name": f"{token}-1JAN30-1-C"}, "amount": {"abs": "1"}}}
            elif recipe == "sell_unheld":
                o = {"op": "deribit.sell", "a": {"inst": {"i": rp.randint(0, n_ins - 1)}, "amount": {"abs": rp.choice(["1", "2"])}}}
            elif recipe == "oversell":
                o = {"op": "deribit.sell", "a": {"inst": {"held": rp.randint(0, 3)}, "amount": {"holding": rp.choice(["1.5", "2", "10"]), "else": "1"}}}
            elif recipe == "dust":
                o = {"op": "deribit.buy", "a": {"inst": {"i": rp.randint(0, n_ins - 1)}, "amount": {"abs": "0.01"}}}
            elif recipe == "beyond_depth":
                o = {"op": "deribit.buy", "a": {"inst": {"i": rp.randint(0, n_ins - 1)}, "amount": {"depth": "1.01", "else": "100000"}}}
            else:
                o = {"op": "deribit.buy", "a": {"inst": {"i": rp.randint(0, n_ins - 1)}, "amount": {"abs": "1"}, "mode": "token", "px": {"level": 0, "mul": "1.01"}}}
        o.update({"bar": bar, "phase": phase, "m": "drb0"})
        program.append(o)
    if rp.random() < 0.5:  # an order in the hour after the main bar: must see the full (refreshed) book again
        later = [i for i in opens if i > main_bar]
        if later:
            program.append({"bar": later[0], "phase": "on_bar", "op": "deribit.buy", "m": "drb0", "a": gen_trade_args(rp, token, True, n_ins)})
    rb = R.sub(seed, "second_desk")
    if rb.random() < 0.2:
        # a second option market on the same token (another desk / sub-account / data source) registered BEFORE the one under
        # test: the same instrument names with a book of its own, and orders of its own right before some of drb0's orders.
        # Nothing one desk looks up, fills or refuses may show in the other desk's book, cash or positions
        import copy as _copy
        from decimal import Decimal as _D

        by = _copy.deepcopy(mw)
        by["name"] = "drb_by"
        f = _D(rb.choice(["1.03", "0.97", "1.11"]))
        for h in by["hours"]:
            for nm in sorted(h["rows"]):
                row = h["rows"][nm]
                row["mark"] = format((_D(row["mark"]) * f).quantize(_D("0.00000001")).normalize(), "f") if _D(row["mark"]) else row["mark"]
                for side in ("asks", "bids"):
                    row[side] = [[format((_D(px) * f).quantize(_D("0.0000001")).normalize(), "f"), sz] for px, sz in row[side]]
        world["markets"].insert(0, by)
        extra = [{"bar": -1, "phase": "initialize", "op": "deribit.deposit", "m": "drb_by", "a": {"amount": {"f": f"wallet:{token}", "x": "0.2"}}}]
        for o in list(program):
            if o["op"] in ("deribit.buy", "deribit.sell") and o["bar"] >= 0 and rb.random() < 0.5 and "i" in (o["a"].get("inst") or {}):
                kind = rb.choice(["deribit.buy", "deribit.buy", "deribit.estimate_cost"])
                a = {"inst": dict(o["a"]["inst"]), "amount": {"level": 0, "x": rb.choice(["0.3", "1"]), "else": "1"}}
                if kind == "deribit.estimate_cost":
                    a["side"] = "buy"
                extra.append({"bar": o["bar"], "phase": o["phase"], "op": kind, "m": "drb_by", "a": a, "_before": id(o)})
        # keep each of the second desk's orders right in front of the order it shadows
        merged = []
        by_target = {}
        for e in extra[1:]:
            by_target.setdefault(e.pop("_before"), []).append(e)
        for o in program:
            merged += by_target.get(id(o), [])
            merged.append(o)
        program = [extra[0]] + merged
        faults.append({"kind": "second_market_of_the_same_kind_registered_first"})
    program.sort(key=lambda o: (o["bar"], PHASE_ORDER.index(o["phase"])))
    return {"property": ID, "seed": seed, "world": world, "program": program, "faults": faults}


after_truncate = W.after_truncate


# --------------------------------------------------------------------------------------------------- oracle
def cause_of(outcome):
    """short, input-independent classification of a real rejection"""
    msg = outcome.get("msg", "") or ""
    exc = outcome.get("exc", "")
    table = [
        ("is not open.", "closed_bar"), ("is not in current orderbook", "unknown_instrument"), ("is not open", "state_not_open"),
        ("amount should greater than min amount", "min_amount"), ("doesn't have a order in price", "no_level_at_price"),
        ("insufficient order", "beyond_depth"), ("insufficient position", "beyond_holding"), ("No such instrument position", "no_holding"), ("Not enough balance", "cash_short"),
        ("insufficient balance", "wallet_short"), ("doesn't exist in assets", "wallet_short"),
    ]
    for frag, name in table:
        if frag in msg:
            return name
    if exc == "TypeError" and "unsupported operand" in msg:
        op = msg.split("for ")[1].split(":")[0] if "for " in msg else "?"
        return f"TypeError({op})"
    return exc or "other"


OPTION_MARKET_FRAMES = {
    "market.py:get_market_balance", "market.py:buy", "market.py:sell", "market.py:check_transaction", "market.py:_deduct_order_amount",
    "market.py:set_market_status", "market.py:get_trade_fee", "helper.py:get_new_order_list", "helper.py:round_decimal",
}


class TradeModel:
    """my own copy of the option account: cash, positions, and the displayed book of the current status"""

    def __init__(self, token):
        self.token = token
        self.cash = Fraction(0)
        self.pos = {}  # name -> dict(amount, buy_amount, buy_cost, sell_amount, sell_proceeds)
        self.book = {}  # name -> {"asks": [[p, s]], "bids": [[p, s]]}
        self.rows = None  # the current hour's pristine rows (dict) or None
        self.open = False

    def refresh(self, rows, is_open):
        self.rows = rows
        self.open = is_open
        self.book = {}
        if rows is not None:
            for nm, r in rows.items():
                self.book[nm] = {s: [[F(p), F(q)] for p, q in r[s]] for s in ("asks", "bids")}

    def equity(self):
        total = self.cash
        for nm, p in self.pos.items():
            if self.rows is not None and nm in self.rows:
                total += p["amount"] * REF.mark_rounded(exact(float(self.rows[nm]["mark"])), self.token)
        return total


def real_positions(m):
    out = {}
    for nm, p in m.positions.items():
        out[nm] = {
            "amount": Fraction(p.amount), "buy_amount": Fraction(p.buy_amount), "avg_buy": Fraction(p.avg_buy_price),
            "sell_amount": Fraction(p.sell_amount), "avg_sell": Fraction(p.avg_sell_price),
        }
    return out


def real_books(m):
    data = m.market_status.data
    out = {}
    if data is None:
        return out
    for nm in data.index:
        out[nm] = {s: [[F(repr(float(x[0]))), exact(float(x[1]))] for x in data.at[nm, s]] for s in ("asks", "bids")}
    return out


def book_map(levels):
    d = {}
    for p, s in levels:
        if abs(s) > SIZE_TOL:
            d[p] = d.get(p, Fraction(0)) + s
    return d


def same_book(a, b):
    da, db = book_map(a), book_map(b)
    if set(da) != set(db):
        return False
    return all(abs(da[p] - db[p]) <= SIZE_TOL for p in da)


def _s(x):
    if isinstance(x, Fraction):
        return format(Decimal(x.numerator) / Decimal(x.denominator), ".30g")
    return x


def _levels(levels):
    return [[_s(p), _s(s)] for p, s in levels]


class BookOracle(Oracle):
    oid = "c15"

    def start(self, sim):
        drb = [mw for mw in sim.world["markets"] if mw["kind"] == "deribit"][0]
        self.name = drb["name"]
        self.mw = drb
        self.token = drb["token"]
        self.m = sim.markets[self.name]
        self.hours = {h["t"]: h["rows"] for h in drb["hours"]}
        self.model = TradeModel(self.token)
        self.refreshes = 0
        self.filled_since_refresh = set()
        self.filled_before_refresh = set()
        self.bar_equity = {}
        self.size_kind = drb.get("meta", {}).get("size_kind", "?")
        orig = self.m.set_market_status
        oracle = self

        def observed(data, price, _o=orig):
            r = _o(data, price)
            oracle.on_refresh(sim, pd.Timestamp(data.timestamp))
            return r

        self.m.set_market_status = observed  # observation of the schedule only (DESIGN 2.5)

    # ---- schedule
    def on_refresh(self, sim, ts):
        t0 = ts.floor("1h")
        rows = self.hours.get(str(t0))
        self.model.refresh(rows, ts == t0 and rows is not None)
        self.refreshes += 1
        self.filled_before_refresh |= self.filled_since_refresh
        self.filled_since_refresh = set()
        self.ts = ts

    def phase(self, sim, bar, phase, pos):
        if phase == "after_bar" and pos == "end" and self.model.open:
            self.bar_equity[bar] = self.model.equity()

    # ---- helpers
    def resync(self, sim):
        m = self.m
        self.model.cash = Fraction(m.balance)
        self.model.pos = {}
        for nm, p in real_positions(m).items():
            self.model.pos[nm] = {
                "amount": p["amount"], "buy_amount": p["buy_amount"], "buy_cost": p["avg_buy"] * p["buy_amount"],
                "sell_amount": p["sell_amount"], "sell_proceeds": p["avg_sell"] * p["sell_amount"],
            }
        self.model.book = real_books(m)
        sim.count("probe:model_resynced_after_violation")

    def compare_state(self, sim, site, rejected=False, **detail):
        """public state (balance, positions, displayed books) vs the model; True if equal.  `site` names the
        operation and cause; on a reject path the suffixes say what changed although nothing may change."""
        m, model = self.m, self.model
        sfx = (lambda what: f"{site}:{what}_changed") if rejected else (lambda what: f"{site}:{what}")
        bad = False
        if abs(Fraction(m.balance) - model.cash) > self.money_tol:
            sim.violate(self.oid + ".cash", sfx("cash"), got=m.balance, want=_s(model.cash), **detail)
            bad = True
        rp = real_positions(m)
        for nm in sorted(set(rp) | set(model.pos)):
            ra = rp.get(nm, {}).get("amount", Fraction(0))
            ma = model.pos.get(nm, {}).get("amount", Fraction(0))
            if ra != ma:
                sim.violate(self.oid + ".position", sfx("position"), held_instrument=nm, got=_s(ra), want=_s(ma), **detail)
                bad = True
                continue
            if ra < 0:
                sim.violate(self.oid + ".position", f"{site}:negative_position", held_instrument=nm, got=_s(ra), **detail)
                bad = True
            if nm in rp and nm in model.pos:
                mp = model.pos[nm]
                for side in ("buy", "sell"):
                    if rp[nm][side + "_amount"] != mp[side + "_amount"]:
                        sim.violate(self.oid + ".position", sfx(f"{side}_amount"), held_instrument=nm,
                                    got=_s(rp[nm][side + "_amount"]), want=_s(mp[side + "_amount"]), **detail)
                        bad = True
                    elif mp[side + "_amount"] > 0:
                        want = mp["buy_cost" if side == "buy" else "sell_proceeds"] / mp[side + "_amount"]
                        got = rp[nm]["avg_" + side]
                        if abs(got - want) > AVG_REL_TOL * abs(want) + self.money_tol:
                            sim.violate(self.oid + ".avg_price", sfx(f"avg_{side}_price"), held_instrument=nm, got=_s(got), want=_s(want), **detail)
                            bad = True
        rb = real_books(m)
        for nm in sorted(set(rb) | set(model.book)):
            for side in ("asks", "bids"):
                a = rb.get(nm, {}).get(side, [])
                b = model.book.get(nm, {}).get(side, [])
                if not same_book(a, b):
                    sim.violate(self.oid + ".book", sfx("book"), book_instrument=nm, side=side, got=_levels(a), want=_levels(b), **detail)
                    bad = True
        return not bad

    @property
    def money_tol(self):
        # a fill may differ from the model's by SIZE_TOL per level (float sizes); in money that is SIZE_TOL x price,
        # prices are < 1 settlement-currency unit per contract for every generated book (and in reality)
        return SIZE_TOL * 16

    # ---- operations
    def before_op(self, sim, op):
        if op.get("m") != self.name:
            return
        sim.resolved = None
        # the book an order is about to see must be the model's (shrunken by earlier fills, restored by a refresh)
        ok = self.compare_state(sim, "before_op:" + ("fresh_status" if not self.filled_since_refresh else "same_status"))
        if not ok:
            self.resync(sim)
        self.pre_cash = Fraction(self.m.balance)

    def after_op(self, sim, op, outcome):
        if op.get("m") != self.name or outcome["status"] == "skipped":
            return
        r = sim.resolved or {}
        kind = r.get("op")
        model = self.model
        status = outcome["status"]
        if kind == "deposit":
            if status == "ok":
                model.cash += Fraction(r["amount"])
            ok = self.compare_state(sim, "deposit:" + status)
        elif kind == "withdraw":
            if status == "ok":
                model.cash -= Fraction(r["amount"])
            ok = self.compare_state(sim, "withdraw:" + status)
        elif kind in ("buy", "sell"):
            ok = self.check_trade(sim, r, outcome)
        elif kind == "read_balance":
            ok = self.compare_state(sim, "read_balance:state")
            if status == "ok":
                if model.open:
                    res = outcome["result"]
                    want = model.equity()
                    if abs(Fraction(res.net_value) - want) > EXACT_TOL * max(1, abs(want)) or abs(Fraction(res.balance) - model.cash) > self.money_tol:
                        sim.violate(self.oid + ".equity", "get_market_balance:open_bar", got=res.net_value, want=_s(want), cash=_s(model.cash), got_cash=res.balance)
                    sim.count("probe:equity_checked_after_op")
                else:
                    sim.count("probe:balance_read_on_closed_bar(not judged, C01)")
        else:
            ok = self.compare_state(sim, f"{kind or op['op']}:state")
        if not ok:
            self.resync(sim)
        else:
            model.cash = Fraction(self.m.balance)  # adopt the (equal within tolerance) real value: no tolerance drift

    def check_trade(self, sim, r, outcome):
        model, token = self.model, self.token
        is_buy = r["op"] == "buy"
        side_name = "asks" if is_buy else "bids"
        nm = r["name"]
        mode = r["mode"]
        status = outcome["status"]
        tag = f"{r['op']}:{mode}"
        request = Fraction(r["amount"])
        outs, ctx = self.expected(r, is_buy)
        fills_ok = [o for o in outs if o.accepted]
        rejects = [o for o in outs if not o.accepted]
        self.trade_probes(sim, r, outs, status)
        verdict = "either" if fills_ok and rejects else ("accept" if fills_ok else "reject:" + rejects[0].cause)
        if status == "rejected":
            cause = cause_of(outcome)
            sim.state((token, r["op"], mode, "rejected:" + cause, 0, False, nm in self.shrunk_names(side_name), self.size_kind))
            if not rejects:
                sim.violate(self.oid + ".verdict", f"{r['op']}:wrongly_rejected:{cause}", instrument=nm, request=_s(request), mode=mode,
                            msg=outcome.get("msg"), expected=repr(fills_ok[0]), book=_levels(ctx.get("side", [])))
                self.compare_state(sim, f"{r['op']}:reject_path:{cause}", rejected=True, request=_s(request))
                return False
            return self.compare_state(sim, f"{r['op']}:reject_path:{cause}", rejected=True, instrument=nm, request=_s(request),
                                      mode=mode, model_cause=rejects[0].cause)
        # accepted by the real market
        res = outcome["result"]
        if not fills_ok:
            sim.violate(self.oid + ".verdict", f"{r['op']}:wrongly_accepted:{rejects[0].cause}", instrument=nm, request=_s(request), mode=mode,
                        result=res, held=_s(model.pos.get(nm, {}).get("amount", Fraction(0))), cash=_s(model.cash))
            return False
        if any(o.note == "ambiguous" for o in fills_ok):
            sim.count("probe:ambiguous_limit_level(not judged)")
            self.resync(sim)
            return True
        real = [(F(p), Fraction(q)) for p, q in res["orders"]]
        real_fee = Fraction(res["fee"])
        chosen, why = None, None
        for v in fills_ok:
            why_v = self.match_fill(v, real, real_fee, is_buy)
            if why_v is None:
                chosen = v
                break
            why = why or (v, why_v)
        if chosen is None:
            v, (what, detail) = why
            sim.violate(self.oid + "." + what, f"{tag}:{what}", instrument=nm, request=_s(request), got=res, want=repr(v),
                        want_fee=_s(REF.trade_fee(v.q, v.premium, token)), book=_levels(ctx["side"]), **detail)
            return False
        v = chosen
        # model transition
        premium_real = sum((p * q for p, q in real), Fraction(0))
        if is_buy:
            model.cash -= premium_real + real_fee
            p = model.pos.setdefault(nm, {"amount": Fraction(0), "buy_amount": Fraction(0), "buy_cost": Fraction(0), "sell_amount": Fraction(0), "sell_proceeds": Fraction(0)})
            p["amount"] += v.q
            p["buy_amount"] += v.q
            p["buy_cost"] += v.premium
        else:
            model.cash += premium_real - real_fee
            p = model.pos[nm]
            p["amount"] -= v.q
            p["sell_amount"] += v.q
            p["sell_proceeds"] += v.premium
            if p["amount"] == 0:
                del model.pos[nm]
        model.book[nm][side_name] = REF.apply_fill(model.book[nm][side_name], v)
        self.filled_since_refresh.add((nm, side_name))
        nlev = len([1 for _i, _p, f in v.fills if f > SIZE_TOL])
        exhausted = any(abs(model.book[nm][side_name][i][1]) <= SIZE_TOL for i, _p, _f in v.fills)
        sim.state((token, r["op"], mode, "filled", min(nlev, 3), exhausted, ctx["shrunk"], self.size_kind))
        if nlev >= 2:
            sim.count("probe:multi_level_fill")
        if exhausted:
            sim.count("probe:exact_level_exhaustion")
        if mode in ("token", "usd", "token+cap") and not exhausted:
            sim.count("probe:limit_partial")
        if mode == "usd":
            sim.count("probe:price_in_usd_filled")
        if v.q != request:
            sim.count("probe:amount_rounded_to_step")
        return self.compare_state(sim, tag, instrument=nm, request=_s(request))

    def shrunk_names(self, side_name):
        return {n for n, s in self.filled_since_refresh if s == side_name}

    def match_fill(self, v, real, real_fee, is_buy):
        """None if the real result is the variant v, else (what, detail)"""
        token = self.token
        # displayed sizes are binary floats (and a level already reduced in this status carries float-subtraction noise):
        # an order that takes whole levels sums to the rounded amount only up to SIZE_TOL per level taken
        if abs(sum((q for _p, q in real), Fraction(0)) - v.q) > SIZE_TOL * max(1, len(real)):
            return ("fills", {"why": "sum of fills != amount rounded to the contract step", "sum": _s(sum((q for _p, q in real), Fraction(0))), "q": _s(v.q)})
        agg = {}
        for p, q in real:
            if q < 0:
                return ("fills", {"why": "negative fill"})
            agg[p] = agg.get(p, Fraction(0)) + q
        want = {}
        for _i, p, f in v.fills:
            want[p] = want.get(p, Fraction(0)) + f
        for p in set(agg) | set(want):
            if abs(agg.get(p, Fraction(0)) - want.get(p, Fraction(0))) > SIZE_TOL:
                return ("fills", {"why": "per-level quantity differs from best-first matching at displayed sizes", "level": _s(p),
                                  "got_qty": _s(agg.get(p, Fraction(0))), "want_qty": _s(want.get(p, Fraction(0)))})
        prices = [p for p, q in real if q > SIZE_TOL]
        if any((b < a) if is_buy else (b > a) for a, b in zip(prices, prices[1:])):
            return ("fills", {"why": "fills not ordered best-first"})
        lo = REF.trade_fee(v.q, max(Fraction(0), v.premium - self.money_tol), token)
        hi = REF.trade_fee(v.q, v.premium + self.money_tol, token)
        if not (lo <= real_fee <= hi):
            return ("fee", {"why": "fee != round_half_up(min(0.03% x contracts, 12.5% x premium), fee step)", "got_fee": _s(real_fee), "premium": _s(v.premium)})
        return None

    def expected(self, r, is_buy):
        """acceptable outcomes per the rules, from the model's state only"""
        model, token = self.model, self.token
        nm = r["name"]
        ctx = {"side": [], "shrunk": False}
        if not model.open:
            return [REF.Reject("closed_bar")], ctx
        row = (model.rows or {}).get(nm)
        if row is None:
            return [REF.Reject("unknown_instrument")], ctx
        if row.get("state", "open") != "open":
            return [REF.Reject("state_not_open")], ctx
        side_name = "asks" if is_buy else "bids"
        side = model.book[nm][side_name]
        ctx["side"] = side
        ctx["shrunk"] = (nm, side_name) in self.filled_since_refresh
        request = Fraction(r["amount"])
        mark = exact(float(row["mark"]))
        limit = None
        if r.get("limit") is not None:
            limit = Fraction(r["limit"])
        elif r.get("usd") is not None:
            limit = Fraction(r["usd"]) / F(repr(float(row["underlying"])))
        cap = None
        if r.get("k") is not None:
            k = Fraction(r["k"])
            cap = k * mark if is_buy else mark / k
        outs = REF.trade_outcomes(side, is_buy, request, token, "limit" if limit is not None else "market", limit, cap,
                                  inexact=ctx["shrunk"])
        final, seen = [], set()

        def add(o):
            key = repr(o)
            if key not in seen:
                seen.add(key)
                final.append(o)

        held = model.pos.get(nm, {}).get("amount", Fraction(0))
        for o in outs:
            if not o.accepted or o.note == "ambiguous":
                add(o)
                continue
            if is_buy:
                fee = REF.trade_fee(o.q, o.premium, token)
                total = o.premium + fee
                if total > model.cash + self.money_tol:
                    add(REF.Reject("cash_short"))
                elif total > model.cash - self.money_tol and total != model.cash:
                    add(REF.Reject("cash_short"))
                    add(o)
                else:
                    add(o)
            else:
                if o.q > held:
                    add(REF.Reject("no_holding" if held == 0 else "beyond_holding"))
                else:
                    add(o)
        ctx["cap_excludes"] = cap is not None and any(((p >= cap) if is_buy else (p <= cap)) and s > 0 for p, s in side)
        return final, ctx

    def trade_probes(self, sim, r, outs, status):
        nm = r["name"]
        side_name = "asks" if r["op"] == "buy" else "bids"
        if (nm, side_name) in self.filled_since_refresh and status == "ok":
            sim.count("probe:second_order_sees_shrunken_book")
        if (nm, side_name) in self.filled_before_refresh and (nm, side_name) not in self.filled_since_refresh and status == "ok":
            sim.count("probe:order_after_refresh_sees_full_book")
        if r.get("k") is not None and status == "ok":
            row = (self.model.rows or {}).get(nm)
            if row is not None:
                mark = exact(float(row["mark"]))
                k = Fraction(r["k"])
                cap = k * mark if r["op"] == "buy" else mark / k
                side = self.model.book[nm][side_name]
                if any(((p >= cap) if r["op"] == "buy" else (p <= cap)) and s > 0 for p, s in side):
                    sim.count("probe:cap_excludes_a_level")
        for o in outs:
            if not o.accepted:
                sim.count("fault:reject:" + r["op"] + ":" + o.cause)
                break

    def finish(self, sim):
        key = self.m.market_info
        rows = sim.actuator.account_status
        for bar, want in sorted(self.bar_equity.items()):
            if bar < 0 or bar >= len(rows):
                continue
            got = rows[bar].market_status[key].net_value
            if abs(Fraction(got) - want) > EXACT_TOL * max(1, abs(want)):
                sim.violate(self.oid + ".equity", "bar_end:open_bar", bar=bar, got=got, want=_s(want))
            sim.count("probe:equity_checked_at_bar_end")
        if sim.crash is not None:
            inside = [w for w in sim.crash_where[-3:] if w in OPTION_MARKET_FRAMES]
            if inside:  # the bar loop died inside the option market's bookkeeping on a legal history: nothing is reported at all
                sim.violate(self.oid + ".crash", f"bar_loop:{type(sim.crash).__name__}@{inside[-1]}", msg=str(sim.crash)[:200], where=sim.crash_where)
            else:
                sim.count("probe:crash_outside_option_market")


# --------------------------------------------------------------------------------------------------- execution
def execute(scenario) -> Sim:
    sim = Sim(scenario, BookOracle())
    sim.run()
    w = scenario["world"]
    only = all(m["kind"] == "deribit" for m in w["markets"])
    iv = w.get("interval", "1min")
    k = int(pd.Timedelta(iv if iv[0].isdigit() else "1" + iv) / pd.Timedelta("1min"))
    sim.sim_minutes = len(sim.actuator.account_status) * (60 if only else k)
    return sim


def abstract(scenario, sim):
    return sim.states


def nontrivial(state) -> bool:
    _token, _op, _mode, verdict, nlev, exhausted, shrunk, _size = state
    return verdict != "filled" or nlev >= 2 or exhausted or shrunk


RULE = (
    "one case = one buy/sell order evaluated against the reference matcher inside a seeded run of the real bar loop; "
    "distinct_nontrivial counts distinct abstract cases (settlement currency ETH/BTC, side, pricing mode "
    "market/token/usd/cap/token+cap, outcome filled or rejection cause, number of levels filled capped at 3, a level "
    "exhausted exactly, book already shrunken by an earlier fill in the same status, size literal kind int/float/fractional) "
    "that are rejections, multi-level fills, exact exhaustions or orders against a shrunken book"
)
BUDGET = {"quick": {"runs": 2500, "wall": 55}, "thorough": {"runs": 150000, "wall": 1100}}
LEVEL = "exploration"
ASSUMPTIONS = [
    "order books are in the exchange's display order (asks ascending, bids descending), one level per price, adjacent levels more than 0.5 % apart so that the level addressed by a limit price (0.1 % band, DESIGN A.5) is unique; a limit price exactly on the band edge or a level exactly on a price cap is accepted either way",
    "a request below one contract step may be refused or bumped to one contract (the text does not decide); an order that exhausts a fractional (binary float) displayed size to within 1e-12, or costs exactly the available cash to within 1e-12 x price, may be accepted or refused",
    "sizes are compared to 1e-12 absolute (floats in the data), money to 1e-12 x price, averages to 1e-20 relative; fee must equal the formula on the exact premium (or on premium +- that money tolerance)",
    "mark and underlying are the binary float values of the data; equity is judged on open bars only (the cached balance on closed bars is C01's subject); expiries lie after the last bar (settlement is C16's subject)",
    "runs start on the hour with the floor hour present (a Deribit run starting off the hour crashes for reasons outside C15/C16, DESIGN section 5)",
    "averages are size-weighted over the fills since the position was last opened (a fully sold position starts afresh)",
    "deposit/withdraw are followed for the cash balance only; their own accept/reject rules are C03/C04's subject; estimate_cost is exercised as a read that must not change state",
]
LEVEL_TEXT = (
    "seeded exploration: generated hourly order-book histories (ETH and BTC contract steps, 0-8 levels a side, integer, "
    "float-typed and fractional sizes, tiny and zero marks, closed instruments, missing instruments/hours) x programs of "
    "5-30 buys/sells in every pricing mode within one open bar and across bars/phases (plus deposits, withdrawals, reads, "
    "rejection recipes, closed-bar attempts), run through the real bar loop alone (hourly bars) or beside a minutely "
    "Uniswap market (1/5/15/60-minute bars); every order is compared with an exact price-time reference matcher. Sampling, not proof."
)
LEVEL_NOTE = (
    "trusted: the oracle's reading of the property and of DESIGN appendix A.5 (dsim/ref/deribit.py), the generator's reach "
    "(see reach_probes), Python Fraction/Decimal; histories are synthetic CSV text read by the same pandas calls as the real loader"
)
