"""Evidence writer (schema: /root/.vp/EVIDENCE.schema.json). Everything is measured on this run."""
import json
import os

from . import rng as R
from .canon import canon

VERIF = os.path.dirname(os.path.dirname(os.path.abspath(__file__)))

REAL_STUB = {
    "real (imported from /repo working tree)": [
        "demeter.core.actuator.Actuator (bar loop)", "demeter.broker.Broker/Asset", "all demeter Market subclasses used by the world",
        "V3CoreLib / AaveV3CoreLib / gmx_v2 utils", "demeter.strategy.Strategy + Trigger classes",
        "uniswap.data.fillna/resample, uniswap.helper._add_statistic_column/get_price_from_data",
    ],
    "stub": ["tqdm progress bar (no-op)", "logging (disabled)", "CSV/feather loaders and CacheManager (frames are built in memory in the loaders' output format; only C02's loader-twin check (uniswap) and 15 % of C10's worlds (aave) write minute files and read them back through the real loaders, with the feather cache pointed at a private empty directory)"],
    "left real, irrelevant to results": ["time.time() duration log", "datetime.now() in save_result (private cwd)"],
}


def write_evidence(prop, pid, tier, master, agg, n_viol, wall_s, known_hits, determinism_rechecks, extra=None):
    nontrivial = getattr(prop, "nontrivial", lambda s: True)
    states = agg["states"]
    distinct_nt = sum(1 for s in states if nontrivial(s))
    samples = []
    for i in range(3):
        s = R.run_seed(master, pid, i)
        try:
            from . import runner as _runner

            sc = _runner.gen(prop, s, tier)
            w = sc.get("world", {})
            samples.append(
                {
                    "seed": s,
                    "digest": agg["digests"].get(s),
                    "world": {
                        "n_minutes": w.get("n"), "interval": w.get("interval"), "start": w.get("start"),
                        "markets": [{k: v for k, v in m.items() if not isinstance(v, list)} for m in w.get("markets", [])] if isinstance(w, dict) else None,
                        "assets": w.get("assets") if isinstance(w, dict) else None,
                    },
                    "program": sc.get("program", [])[:12],
                    "faults": sc.get("faults", [])[:12],
                }
            )
        except Exception as e:  # pragma: no cover
            samples.append({"seed": s, "error": str(e)})
    runs = max(agg["runs"], 0)
    hours = max(agg["wall_s"], 1e-9) / 3600
    counters = agg["counters"]
    ops_ok = sum(v for k, v in counters.items() if k.startswith("op_ok:"))
    ops_rej = sum(v for k, v in counters.items() if k.startswith("op_rejected:"))
    cov = {
        "evaluations": runs,
        "distinct_nontrivial": distinct_nt,
        "rule": prop.RULE,
        "samples": samples,
        "distinct_abstract_states": len(states),
        "simulated_runs": runs,
        "runs_per_hour": round(runs / hours),
        "operations_executed": agg["ops"],
        "operations_accepted": ops_ok,
        "operations_rejected": ops_rej,
        "bars_simulated": agg["bars"],
        "simulated_time_minutes": agg.get("sim_minutes", 0),
        "events_logged": agg["events"],
        "fault_kinds_injected": dict(sorted(agg["fault_kinds"].items())),
        "reach_probes": {k[6:]: v for k, v in sorted(counters.items()) if k.startswith("probe:")},
        "faults_fired": {k[6:]: v for k, v in sorted(counters.items()) if k.startswith("fault:")},
        "op_outcomes": {k: v for k, v in sorted(counters.items()) if k.startswith("op_")},
        "bar_intervals": agg["intervals"],
        "runs_crashed_inside_demeter": agg["crashes"],
        "wall_capped": agg["capped"],
        "determinism_rechecks_in_parent": determinism_rechecks,
        "known_findings_hit": {k: v[0] for k, v in known_hits.items()},
        "components": REAL_STUB,
        "exhaustive": False,
    }
    if extra:
        cov.update(extra)
    doc = {
        "property_id": pid,
        "tier": tier,
        "seed": int(master),
        "level": getattr(prop, "LEVEL", "exploration"),
        "coverage": canon(cov),
        "assumptions": list(getattr(prop, "ASSUMPTIONS", [])),
        "wall_s": round(wall_s, 2),
        "violations": int(n_viol),
    }
    os.makedirs(os.path.join(VERIF, "evidence"), exist_ok=True)
    path = os.path.join(VERIF, "evidence", f"{pid}.json")
    tmp = path + ".tmp"
    with open(tmp, "w") as f:
        json.dump(doc, f, indent=1, sort_keys=True)
    os.replace(tmp, path)
    return path
